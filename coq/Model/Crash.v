(* Crash.v -- what reaches the disk, and when: model of the interrupted and of the killed run (property C06).

   (a) Interrupt half.  Runner.run_all (runner.py 264-278) runs finish() in a `finally`; finish (253-261) calls
       dep_manager.close(); Dependency.close (dependency.py 520-524) calls backend.dump() once.  [db_ops] turns
       the runner's trace (Model/Runner.v) into the operations the dependency manager performs on the backend
       (Model/Backends.v): save_success = the sets of the task's record, remove_success = remove, close = dump.
       For JsonDB and SqliteDB nothing reaches the disk before dump (json_dump rewrites the whole file,
       sq_dump commits the one transaction); for DbmDB `remove` deletes from the dbm file at once, `set` only at dump.

   (b) Kill half.  dump() of each backend as a LIST OF ATOMIC DISK STEPS; [crash_after k] = the disk after the
       first k steps (a SIGKILL takes effect between two system calls).
         JsonDB.dump (87-93)   open(name,'w') truncates, then the encoded document is written in chunks
                               (any split of the document into chunks)
         SqliteDB.dump (331-338) one atomic commit (sqlite3's journal is trusted)
         DbmDB.dump (176-180) on dbm.dumb (Lib/dbm/dumb.py of CPython 3.12, line numbers below):
                               __setitem__ 187-214, _addval 158-166, _setval 172-176, _addkey 181-185,
                               __delitem__ 224-237, _commit 113-136, close 273-277, _update 93-108
       Definitions only. *)
From DoitV Require Export Base Backends Runner.
From Coq Require Export PeanoNat.
Local Open Scope nat_scope.

(* ===================================================================================================== *)
(* (a) the session of an (interrupted) run as backend operations                                          *)
(* ===================================================================================================== *)
Section Session.
  (* what save_success stores for a task (dependency.py 529-560): the keys and values of its record
     ("_values_:", "checker:", one entry per file_dep, "deps:"), an oracle of the run *)
  Variable recd : name -> list (N * Z).

  Definition save_ops (k : name) : list op := map (fun kv => Set_ k (fst kv) (snd kv)) (recd k).

  Definition event_ops (e : event) : list op :=
    match e with
    | ESave k => save_ops k          (* dep_manager.save_success(task) *)
    | ERemove k => [Remove k]        (* dep_manager.remove_success(task) *)
    | EClose => [Reopen]             (* dep_manager.close(): backend.dump() *)
    | _ => []
    end.
  Definition db_ops (tr : list event) : list op := flat_map event_ops tr.
End Session.

(* ===================================================================================================== *)
(* (b) crash states                                                                                       *)
(* ===================================================================================================== *)
Definition crash_after {D S : Type} (apply : D -> S -> D) (d : D) (steps : list S) (k : nat) : D :=
  fold_left apply (firstn k steps) d.

Definition proper_prefix {A : Type} (p l : list A) : Prop := exists s, s <> [] /\ l = p ++ s.

(* ---------- JsonDB: one text file; bytes are numbers ---------- *)
Definition bytes := list N.
Definition file := option bytes.                    (* None = the file does not exist *)
Inductive jstep := JTrunc | JAppend (c : bytes).
Definition japply (f : file) (s : jstep) : file :=
  match s with
  | JTrunc => Some []                                (* open(name, 'w') *)
  | JAppend c => Some (match f with Some x => x ++ c | None => c end)     (* one write() *)
  end.
Definition json_dump_steps (chunks : list bytes) : list jstep := JTrunc :: map JAppend chunks.
Definition json_crash (old : file) (chunks : list bytes) (k : nat) : file :=
  crash_after japply old (json_dump_steps chunks) k.
Definition enc_file (f : file) : list Z :=
  match f with None => [(-1)%Z] | Some b => Z.of_nat (length b) :: map zN b end.

Inductive load := Refused | Loaded (m : tmap).        (* JsonDB.__init__/_load 61-85: DatabaseException or the dict *)
Section JsonLoad.
  Variable encdb : tmap -> bytes.                    (* codec.encode(self._db).encode() *)
  Variable decdb : bytes -> option tmap.             (* codec.decode; None = ValueError *)
  Definition json_load (f : file) : load :=
    match f with
    | None => Loaded empty
    | Some b => match decdb b with Some m => Loaded m | None => Refused end
    end.
  (* the oracle assumption J-prefix: the decoder rejects every proper prefix of an encoded DB *)
  Definition J_prefix : Prop := forall m p, proper_prefix p (encdb m) -> decdb p = None.
  (* Backends.v's total decoder, for the link with json_dump *)
  Definition decdb_total (b : bytes) : tmap := match decdb b with Some m => m | None => empty end.
End JsonLoad.

(* ---------- SqliteDB: the table as of the last commit; dump = one atomic commit ---------- *)
Section Sqlite.
  Variable E : Type.
  Variable enc : trec -> E.
  Inductive qstep := QCommit (t : N -> option E).
  Definition qapply (disk : N -> option E) (s : qstep) : N -> option E := match s with QCommit t => t end.
  Definition sq_dump_steps (s : sqlitedb E) : list qstep :=
    match sq_dump E enc s with Some t => [QCommit t] | None => [] end.
  Definition sq_crash (s : sqlitedb E) (k : nat) : N -> option E :=
    crash_after qapply (q_disk E s) (sq_dump_steps s) k.
End Sqlite.

(* ---------- dbm.dumb: name.dat (values, 512-aligned), name.dir (index, one text line per key), name.bak ---------- *)
Definition BLOCK : nat := 512.
Definition nblocks (n : nat) : nat := (n + (BLOCK - 1)) / BLOCK.
Definition roundup (n : nat) : nat := nblocks n * BLOCK.

Definition datf := bytes.                             (* the .dat file *)
Definition dlen (d : datf) : nat := length d.
Definition dat_empty : datf := [].
(* f.seek(pos); f.write(bs) reaching the file in one write() (a seek past the end leaves a hole of zeros) *)
Definition write_at (pos : nat) (bs : bytes) (d : datf) : datf :=
  firstn pos d ++ repeat 0%N (pos - length d) ++ bs ++ skipn (pos + length bs) d.
(* f.seek(pos); f.read(siz): short at end of file *)
Definition read_at (pos siz : nat) (d : datf) : bytes := firstn siz (skipn pos d).

Record entry := { e_key : N; e_pos : nat; e_siz : nat }.      (* the line "'key', (pos, siz)\n" *)
Definition ekey_eqb (k : N) (e : entry) : bool := N.eqb (e_key e) k.
Definition lookup (k : N) (idx : list entry) : option entry := find (ekey_eqb k) idx.
(* python dict, in insertion order: d[key] = pair *)
Definition dict_set (idx : list entry) (e : entry) : list entry :=
  match lookup (e_key e) idx with
  | Some _ => map (fun x => if ekey_eqb (e_key e) x then e else x) idx
  | None => idx ++ [e]
  end.
Definition dict_del (idx : list entry) (k : N) : list entry := filter (fun x => negb (ekey_eqb k x)) idx.

Definition dirfile := (list entry * bool)%type.       (* complete lines; is there an incomplete last line? *)
Record ddisk := { dk_dat : datf; dk_dir : option dirfile; dk_bak : option dirfile }.
Definition ddisk_empty : ddisk := {| dk_dat := dat_empty; dk_dir := None; dk_bak := None |}.

Inductive dstep :=
| SDatWrite (pos : nat) (bs : bytes)     (* open(.dat,'rb+'); seek; write; close: one write() *)
| SDirAppend (e : entry)                 (* _addkey: open(.dir,'a'); write(line) *)
| SBakUnlink                             (* _commit 120-123 *)
| SDirToBak                              (* _commit 125-128: rename(.dir, .bak); OSError ignored *)
| SDirCreate                             (* _commit 130: open(.dir,'w') *)
| SDirTear                               (* a write() that ends inside the next line: the file does not parse (open raises
                                            SyntaxError/ValueError; in rare cases python reads the fragment as an entry of
                                            another key and the torn key is simply absent -- both allowed by the theorems) *)
| SDirLine (e : entry).                  (* the line is complete on disk *)

Definition dapply (d : ddisk) (s : dstep) : ddisk :=
  match s with
  | SDatWrite pos bs => {| dk_dat := write_at pos bs (dk_dat d); dk_dir := dk_dir d; dk_bak := dk_bak d |}
  | SDirAppend e => {| dk_dat := dk_dat d;
                       dk_dir := Some (match dk_dir d with Some (l, t) => (l ++ [e], t) | None => ([e], false) end);
                       dk_bak := dk_bak d |}
  | SBakUnlink => {| dk_dat := dk_dat d; dk_dir := dk_dir d; dk_bak := None |}
  | SDirToBak => match dk_dir d with
                 | Some f => {| dk_dat := dk_dat d; dk_dir := None; dk_bak := Some f |}
                 | None => d end
  | SDirCreate => {| dk_dat := dk_dat d; dk_dir := Some ([], false); dk_bak := dk_bak d |}
  | SDirTear => {| dk_dat := dk_dat d;
                   dk_dir := match dk_dir d with Some (l, _) => Some (l, true) | None => None end; dk_bak := dk_bak d |}
  | SDirLine e => {| dk_dat := dk_dat d;
                     dk_dir := match dk_dir d with Some (l, _) => Some (l ++ [e], false) | None => None end;
                     dk_bak := dk_bak d |}
  end.
Definition dapply_all (d : ddisk) (st : list dstep) : ddisk := fold_left dapply st d.

(* the open database object: _index (a dict) and _modified *)
Record dmem := { m_index : list entry; m_modified : bool }.

(* _update 93-108: the index is rebuilt line by line; no .dir file: empty index, _modified = True.
   None = the file does not parse (incomplete last line): open raises *)
Definition dumb_load (lines : list entry) : list entry := fold_left dict_set lines [].
Definition dumb_open (d : ddisk) : option dmem :=
  match dk_dir d with
  | None => Some {| m_index := []; m_modified := true |}
  | Some (_, true) => None
  | Some (l, false) => Some {| m_index := dumb_load l; m_modified := false |}
  end.

(* _addval 158-166: pad to the next block boundary, then the value, at the end of the file.  The two writes go
   through one buffered file object; they are two steps here (a superset of the states a kill can leave) *)
Definition addval_steps (d : ddisk) (v : bytes) : nat * list dstep :=
  let len := dlen (dk_dat d) in
  let np := roundup len in
  (np, [SDatWrite len (repeat 0%N (np - len)); SDatWrite np v]).

(* __setitem__ 187-214 *)
Definition setitem (m : dmem) (d : ddisk) (k : N) (v : bytes) : dmem * list dstep :=
  match lookup k (m_index m) with
  | None =>
      let '(np, st) := addval_steps d v in
      let e := {| e_key := k; e_pos := np; e_siz := length v |} in
      ({| m_index := m_index m ++ [e]; m_modified := true |}, st ++ [SDirAppend e])
  | Some e0 =>
      if nblocks (length v) <=? nblocks (e_siz e0)
      then ({| m_index := dict_set (m_index m) {| e_key := k; e_pos := e_pos e0; e_siz := length v |}; m_modified := true |},
            [SDatWrite (e_pos e0) v])
      else let '(np, st) := addval_steps d v in
           ({| m_index := dict_set (m_index m) {| e_key := k; e_pos := np; e_siz := length v |}; m_modified := true |}, st)
  end.

(* _commit 113-136 (it never resets _modified) *)
Definition commit_steps (m : dmem) : list dstep :=
  if m_modified m
  then [SBakUnlink; SDirToBak; SDirCreate] ++ flat_map (fun e => [SDirTear; SDirLine e]) (m_index m)
  else [].

(* DbmDB.remove 226-233: `if self._in_dbm(task_id): del self._dbm[task_id]`; __delitem__ 224-237 commits at once *)
Definition delitem (m : dmem) (k : N) : dmem * list dstep :=
  match lookup k (m_index m) with
  | None => (m, [])
  | Some _ => let m' := {| m_index := dict_del (m_index m) k; m_modified := true |} in (m', commit_steps m')
  end.

(* one session of doit on the dbm file: the deletes of the run (remove_success of failed tasks), then DbmDB.dump:
   one store per dirty task, then close() = _commit *)
Fixpoint sets_steps (m : dmem) (d : ddisk) (sets : list (N * bytes)) : list dstep :=
  match sets with
  | [] => commit_steps m
  | (k, v) :: r => let '(m', st) := setitem m d k v in st ++ sets_steps m' (dapply_all d st) r
  end.
Fixpoint dels_steps (m : dmem) (d : ddisk) (dels : list N) (sets : list (N * bytes)) : list dstep :=
  match dels with
  | [] => sets_steps m d sets
  | k :: r => let '(m', st) := delitem m k in st ++ dels_steps m' (dapply_all d st) r sets
  end.
Definition session_steps (d : ddisk) (dels : list N) (sets : list (N * bytes)) : list dstep :=
  match dumb_open d with
  | None => []                                    (* open raised: nothing is written *)
  | Some m => dels_steps m d dels sets
  end.
Definition dumb_crash (d : ddisk) (dels : list N) (sets : list (N * bytes)) (k : nat) : ddisk :=
  crash_after dapply d (session_steps d dels sets) k.
Definition dumb_session (d : ddisk) (dels : list N) (sets : list (N * bytes)) : ddisk :=
  dapply_all d (session_steps d dels sets).
Definition dumb_sessions (l : list (list N * list (N * bytes))) : ddisk :=
  fold_left (fun d s => dumb_session d (fst s) (snd s)) l ddisk_empty.

(* what the next process reads for a key: __getitem__ 144-152 on the index read back from .dir *)
Inductive dres := DRefused | DAbsent | DBytes (b : bytes).
Definition dumb_read (d : ddisk) (k : N) : dres :=
  match dumb_open d with
  | None => DRefused
  | Some m => match lookup k (m_index m) with
              | None => DAbsent
              | Some e => DBytes (read_at (e_pos e) (e_siz e) (dk_dat d))
              end
  end.

(* the bytes a key reads as when its value was overwritten in place by [new] but the index still says the
   old size: the first |old| bytes of  new ++ (the part of old that new does not cover) *)
Definition torn (old new : bytes) : bytes := firstn (length old) (new ++ skipn (length new) old).

(* DbmDB.get 204-218 on top of it: the record, with the per-record codec as an oracle *)
Inductive rres := RRefused | RAbsent | RRecord (r : trec).
Section DumbRecord.
  Variable enc : trec -> bytes.
  Variable dec : bytes -> option trec.              (* None = JSONDecodeError (escapes DoitMain.run as exit code 3) *)
  Definition dumb_record (d : ddisk) (k : N) : rres :=
    match dumb_read d k with
    | DRefused => RRefused
    | DAbsent => RAbsent
    | DBytes b => match dec b with Some r => RRecord r | None => RRefused end
    end.
  (* oracle assumptions on the JSON decoder, for records *)
  Definition R_prefix : Prop := forall r p, proper_prefix p (enc r) -> dec p = None.
  Definition R_extra : Prop := forall r r', length (enc r) < length (enc r') ->
                                            dec (enc r ++ skipn (length (enc r)) (enc r')) = None.
End DumbRecord.

(* structural well-formedness of the disk a session starts from *)
Definition e_end (e : entry) : nat := e_pos e + nblocks (e_siz e) * BLOCK.      (* end of the blocks of the value *)
Record idx_wf (idx : list entry) (len : nat) : Prop := {
  wf_nodup : NoDup (map e_key idx);
  wf_inb : forall e, In e idx -> e_pos e + e_siz e <= len;
  wf_end : forall e, In e idx -> e_end e <= roundup len;
  wf_disj : forall e1 e2, In e1 idx -> In e2 idx -> e_key e1 <> e_key e2 -> e_end e1 <= e_pos e2 \/ e_end e2 <= e_pos e1
}.
Definition dumb_wf (d : ddisk) : Prop :=
  match dk_dir d with
  | None => True
  | Some (l, t) => t = false /\ idx_wf l (dlen (dk_dat d))
  end.

(* the disks doit can leave: starting from no files, any number of sessions on a readable index, each one run to
   completion (k >= number of steps) or killed after k steps *)
Inductive reachable : ddisk -> Prop :=
| reach_empty : reachable ddisk_empty
| reach_session d dels sets k : reachable d -> dumb_wf d -> NoDup (map fst sets) -> reachable (dumb_crash d dels sets k).

(* ---------- encoding for the correspondence check ---------- *)
Fixpoint rle_go (fuel : nat) (cur : N) (cnt : nat) (l : bytes) : list Z :=
  match l with
  | [] => [zN cur; znat cnt]
  | x :: r => if N.eqb x cur then rle_go fuel cur (S cnt) r else zN cur :: znat cnt :: rle_go fuel x 1 r
  end.
Definition rle (l : bytes) : list Z := match l with [] => [] | x :: r => rle_go 0 x 1 r end.
Definition enc_dirfile (f : option dirfile) : list Z :=
  match f with
  | None => [(-1)%Z]
  | Some (l, t) => (if t then (-2)%Z else znat (length l)) :: flat_map (fun e => [zN (e_key e); znat (e_pos e); znat (e_siz e)]) l
  end.
Definition enc_ddisk (d : ddisk) : list Z :=
  let r := rle (dk_dat d) in
  znat (length r / 2) :: r ++ enc_dirfile (dk_dir d) ++ enc_dirfile (dk_bak d).

(* ---------- (a) again: the DB after a session, for the correspondence check of [db_ops] ----------
   harness/c06.py reads the DB with the real backend class before and after an (interrupted) run, logs the
   (key, value) pairs save_success passes to backend.set for every saved task ([recd]) and compares the DB after
   the run with [session_db recd m0 tr], tr = the trace Model/Runner.v computes for the run.  Keys and JSON values
   are numbered per case; value ids are >= 0, -1 = the record has no such key / the task has no record. *)
Definition session_db (recd : name -> list (N * Z)) (m : spec) (tr : list event) : spec :=
  exec spec_step m (db_ops recd tr).
Definition mk_rec (l : list (N * Z)) : trec := fold_left (fun r kv => rset r (fst kv) (snd kv)) l empty.
Definition mk_spec (l : list (N * list (N * Z))) : spec :=
  fold_left (fun m tr => upd m (fst tr) (Some (mk_rec (snd tr)))) l empty.
Definition enc_rec (keys : list N) (o : option trec) : list Z :=
  match o with
  | None => [(-1)%Z]
  | Some r => 1%Z :: map (fun k => match r k with Some v => v | None => (-1)%Z end) keys
  end.
Definition enc_spec (names keys : list N) (m : spec) : list Z := flat_map (fun t => enc_rec keys (m t)) names.
