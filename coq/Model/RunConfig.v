(* RunConfig.v -- model of the part of DoitCmdBase.execute (doit/cmd_base.py 521-572) that decides which run
   options the `run` command's _execute (doit/cmd_run.py 189-193: continue_, num_process, par_type, ...) receives,
   on the DefaultUpdate dictionary of Model/CmdParse.v (doit/cmdparse.py 12-54).

     cmd_base.py 527-531   dodo_config = self.loader.load_doit_config(); params.update_defaults(dodo_config)
     cmd_base.py 562-566   params['pos_args'] = args; params['continue_'] = params.get('continue')   -- AFTER the merge
     cmd_base.py 571-573   exec_params = {n: params[n] for n in <names of the parameters of _execute>}

   `params` as execute receives it is the result of CmdParse.parse (modelled in full in Model/CmdParse.v, the subject
   of C16; Proofs/CmdParseR.v parsed_values): every option's default -- the declared default, replaced by the value of
   the tool configuration (doit.cfg / pyproject.toml / extra_config; Command.cmdparser, overwrite_defaults: only for
   declared options) -- installed with set_default, then every option written on the command line assigned with
   __setitem__ (the key becomes non-default).  [parsed] / [overlay] restate exactly that for already converted values
   (no string conversion, no environment variables: none of the three options declares one).
   Definitions only.  Keys are interned option names; the harness uses 0 continue, 1 num_process, 2 par_type,
   3 continue_ and VInt 0 / 1 for par_type 'process' / 'thread'. *)
From Coq Require Import List NArith ZArith.
From DoitV Require Export Base CmdParse.
Import ListNotations.
Open Scope N_scope.

(* the defaults held by the parser: declared default unless the tool configuration (a dict) gives the option *)
Definition overlay (hard file : list (name * value)) : list (name * value) :=
  map (fun kv => (fst kv, match items_get file (fst kv) with Some v => v | None => snd kv end)) hard.

(* CmdParse.parse: defaults with set_default, command line with __setitem__ *)
Definition parsed (defaults cli : list (name * value)) : params :=
  fold_left (fun d kv => d_setitem d (fst kv) (snd kv)) cli
    (fold_left (fun d kv => d_set_default d (fst kv) (snd kv)) defaults d_empty).

Definition get_or_none (p : params) (k : name) : value :=
  match d_get p k with Some v => v | None => VNone end.                  (* dict.get(k) *)

(* execute 527-566: merge DOIT_CONFIG, THEN copy `continue` to `continue_` *)
Definition execute_params (k_cont k_cont_ : name) (p : params) (dodo : list (name * value)) : params :=
  let p1 := update_defaults p dodo in
  d_setitem p1 k_cont_ (get_or_none p1 k_cont).

(* NOT the code: the copy made before the merge (the order of seeded change C02g), kept to state what goes wrong *)
Definition execute_params_early (k_cont k_cont_ : name) (p : params) (dodo : list (name * value)) : params :=
  update_defaults (d_setitem p k_cont_ (get_or_none p k_cont)) dodo.

Definition enc_val (o : option value) : Z :=
  match o with
  | Some (VBool b) => if b then 1%Z else 0%Z
  | Some (VInt z) => z
  | Some VNone => (-1)%Z
  | None => (-3)%Z
  | _ => (-2)%Z
  end.
(* what _execute receives: [continue_; num_process; par_type] *)
Definition enc_run_cfg (p : params) : list Z := map (fun k => enc_val (d_get p k)) [3; 1; 2].
