(* ApiSelect.v -- model of the selection made through the API entry point
     doit/api.py      run_tasks (26-56): loader.task_opts = tasks; the command line handed to the `run`
                      command is list(tasks.keys())
     doit/cmd_base.py NamespaceTaskLoader.load_tasks 369-376: for every loaded task whose name is a key of
                      the dict: task.cfg_values = tasks[name]; if the task declares pos_arg and the name of
                      that parameter is a key of cfg_values: task.pos_arg_val = cfg_values[pos_arg]
     doit/control.py  add_filtered_task 166-173: the rest of the selection is taken as the positional values
                      of a task only while `the_task.pos_arg_val is None`
   on top of Model/Select.v (everything after the loader is the code modelled there: TaskControl.__init__,
   _process_filter started in a state in which the tasks configured through the dict already have their
   positional values, _filter_tasks, --single).
   Definitions only.

   What the dict says about one key, as far as the code above looks at it:
     ANoDict     the value is None instead of a dict of options (`{'name': None}`, accepted for tasks
                 without pos_arg; `pos_arg in None` raises TypeError for a task that declares pos_arg)
     AAbsent     a dict without the task's pos_arg parameter
     ANone       the pos_arg parameter is there with the value None: pos_arg_val stays None
     AVal falsy  the pos_arg parameter is there with a value; falsy = bool(value) is False ([], '', (), 0).
                 The code asks `in` / `is None`, never bool(value): falsy is not looked at by the model --
                 it is part of the input so that the theorems can say so.
   Domain: no key starts with '-' (run_tasks passes the keys through the option parser of the `run`
   command first), the options of a task given through the dict are not modelled beyond the above (their
   values do not take part in the selection). *)
From DoitV Require Export Base Select.
Open Scope N_scope.

Inductive aval := ANoDict | AAbsent | ANone | AVal (falsy : bool).
Definition api_sel := list (name * aval).       (* the dict, in key order *)

Definition api_keys (o : api_sel) : list name := map fst o.
Definition api_given (v : aval) : bool := match v with AVal _ => true | _ => false end.
Definition api_nodict (v : aval) : bool := match v with ANoDict => true | _ => false end.

(* dict lookup: keys are unique in a dict; the first binding of an association list *)
Fixpoint api_get (o : api_sel) (k : name) : option aval :=
  match o with
  | [] => None
  | (k', v) :: r => if k' =? k then Some v else api_get r k
  end.

Definition pos_arg_of (tb : table) (k : name) : bool :=
  match lookup tb k with Some t => s_pos_arg t | None => false end.

(* cmd_base.py 369-376, over the loaded task list in its order: the first task that declares pos_arg and
   whose entry in the dict is None raises TypeError (argument of type 'NoneType' is not iterable) *)
Definition api_type_error (tb : table) (o : api_sel) : bool :=
  existsb (fun nt => s_pos_arg (snd nt) &&
                     match api_get o (fst nt) with Some v => api_nodict v | None => false end) tb.

(* the tasks that leave the loader with pos_arg_val set (is not None) *)
Definition api_posset (tb : table) (o : api_sel) : list name :=
  map fst (filter (fun nt => s_pos_arg (snd nt) &&
                             match api_get o (fst nt) with Some v => api_given v | None => false end) tb).

(* state of _process_filter when the selection starts: no task's options are initialised yet
   (Task.options is None), pos_arg_val is set for the tasks above *)
Definition api_state (tb : table) (o : api_sel) : pstate :=
  {| p_inited := []; p_posset := api_posset tb o |}.

Inductive aresult :=
| ATypeError                 (* TypeError out of NamespaceTaskLoader.load_tasks *)
| ARes (r : result).

Section Model.
Variable has_star : name -> bool.
Variable matches : name -> name -> bool.
Variable basename_of : name -> name.
Variable re_match : name -> name -> bool.
Variable regex_name : name -> name -> name.
Variable is_regex_name : name -> bool.
Variable is_opt : name -> bool.

(* _filter_tasks (control.py 190-255) on the keys, _process_filter starting in [st] *)
Definition filter_tasks_from (auto : bool) (c : ctl) (st : pstate) (sel : list name) : perr + (table * list name) :=
  match process_filter has_star matches is_opt (c_order c) (c_tasks c) MName st sel with
  | None => inl PParse
  | Some (fl, _) =>
    match filter_list basename_of re_match regex_name is_regex_name auto (c_targets c) [] (c_tasks c) fl with
    | inl f => inl (PNotFound f)
    | inr (_, tb1, selected) => inr (tb1, selected)
    end
  end.

(* run_tasks(loader, dict) with GLOBAL/DOIT_CONFIG values single, auto_delayed_regex, default_tasks:
   load (TypeError or pos_arg_val set), TaskControl(task_list), process(keys or default_tasks), --single *)
Definition api_run_select (auto single : bool) (o : api_sel) (default_tasks : option (list name)) (tb : table) : aresult :=
  if api_type_error tb o then ATypeError else
  ARes match init matches tb with
       | inl e => RInitErr e
       | inr c =>
         match sel_tasks (api_keys o) default_tasks with
         | None => ROk (if single then single_step (c_tasks c) (c_order c) else c_tasks c) (c_targets c) (c_order c)
         | Some s =>
           match filter_tasks_from auto c (api_state tb o) s with
           | inl (PNotFound f) => RNotFound f
           | inl PParse => RParseErr
           | inr (tb1, selected) => ROk (if single then single_step tb1 selected else tb1) (c_targets c) selected
           end
         end
       end.

(* the same dict given as a command line would be: nothing has its positional values yet *)
Definition cli_run_select (auto single : bool) (o : api_sel) (default_tasks : option (list name)) (tb : table) : result :=
  cmd_run_select has_star matches basename_of re_match regex_name is_regex_name is_opt auto single (api_keys o) default_tasks tb.

End Model.

(* ---- encoding for the correspondence check: what a caller of run_tasks can see of the selection ----
   [5] TypeError; [1; ..] error raised by TaskControl(..); [2; f] InvalidCommand(not_found = f);
   [4] CmdParseError; 0 :: selected  the list a reporter is given as `selected_tasks` *)
Definition enc_api (r : aresult) : list Z :=
  match r with
  | ATypeError => [5%Z]
  | ARes (RInitErr e) => 1%Z :: enc_ierr e
  | ARes (RNotFound f) => [2%Z; zN f]
  | ARes RParseErr => [4%Z]
  | ARes (ROk _ _ sel) => 0%Z :: map zN sel
  end.
