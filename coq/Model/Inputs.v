(* Inputs.v -- what a task's actions receive (C10), on top of Status.v / History.v.  Definitions only.

   (a) `changed`     = Task.dep_changed as Dependency.get_status leaves it (dependency.py 623, 676,
                       684, 717) = [g_changed] of Status.get_status, on every exit path; it is
                       computed at the FIRST select of the task and travels with the Task object
                       (pickle_safe_dict carries dep_changed and options to a worker process).
   (b) getargs       = Dependency.get_value / get_values (dependency.py 562-583),
                       Runner._get_task_args (runner.py 75-98), Task._init_getargs +
                       result_dep.configure_task (task.py 418-436, 651-656): every getargs source
                       that is not an explicit setup-task becomes one and contributes a
                       result_dep item to `uptodate`.
   (c) kwargs        = BaseAction._prepare_kwargs (action.py 33-97) and the substitution dict of
                       CmdAction.expand_action (action.py 296-311): targets / dependencies / changed
                       from the Task object, then task.options (getargs values) -- an option with
                       the same name WINS over the meta-argument in both.
   (d) calc_dep      = Task.update_deps (task.py 385-391) applied by
                       TaskDispatcher._process_calc_dep_results (control.py 614-629) to the waiting
                       task with the calc task's `values` before the waiting task is first yielded
                       (the node-level merge, with the ordering proof, is Dispatch.process_calc).
   [visit]/[exec_cmds]: a reference interpreter of one `doit run` over a History.state: it performs
   the runner's steps for one task (Runner.select_task 101-179, execute, process_task_result
   193-210) in the canonical depth-first schedule calc_dep, task_dep, first select, setup-tasks,
   second select (_get_task_args), execution.  Every effect on the DB goes through History.step
   (Check / SaveOk / Remove / SetDef), so that every state it reaches is the state of a history.
   The run is the one of `doit run --continue` (a failure does not stop the loop).  [tr_vals] is
   Task.values of the in-memory Task object ({} | get_values when up-to-date | what the actions
   returned + value-savers once they succeeded): it is what a calc_dep consumer reads
   (control.py 616), also when save_success failed afterwards.
   What is not modelled: task params / pos_arg (options start empty), **kwargs-taking callables,
   uptodate / calc_dep / setup entries contributed by a calc task (only file_dep and task_dep are),
   result_dep on a GROUP source (Status.UResultDep is the single-task form: the correspondence
   check gives group sources as explicit setup-tasks, for which no result_dep is added).
   Values are numbers: a list saved under 'file_dep' / 'task_dep' is coded as a bit mask.
   [iver] selects the code version of _get_task_args.  [icurrent] is /repo HEAD, after the two
   `fix:` commits this model led to; [ilegacy] is the code before them (kept so that the defects
   stay stated, Properties/C10.v `..._legacy_refuted`):
     fixDict  (cdbba24): key None (whole dict) on a task without a DB record raises like a single key
                         does, instead of answering {};
     fixGroup (a0cd6c8): for a group source only the task_dep entries named `<group>:...` are read,
                         not every task_dep of the group. *)
From DoitV Require Export Base Status History.
Open Scope Z_scope.

(* ---------------------------------------------------------------- (b) getargs *)
Record getarg := { ga_arg : N; ga_src : name; ga_key : option N }.   (* getargs[arg] = (src, key); key None = whole dict *)

Inductive sval := SVal (x : option N) | SDict (v : vals).
Inductive aval := ASingle (s : sval) | AGroup (l : list (name * sval)).
Inductive gerr := ENoRecord (t : name) | ENoKey (t : name) (k : N).

Record iver := { fixDict : bool; fixGroup : bool }.
Definition icurrent : iver := {| fixDict := true; fixGroup := true |}.
Definition ilegacy : iver := {| fixDict := false; fixGroup := false |}.

Definition db_in (d : db) (t : name) : bool := match d t with Some _ => true | None => false end.   (* backend.in_ *)

(* the local get_value of _get_task_args (79-83) over Dependency.get_value (570-583) *)
Definition get_value (iv : iver) (d : db) (t : name) (key : option N) : sval + gerr :=
  match key with
  | None => if fixDict iv && negb (db_in d t) then inr (ENoRecord t)   (* runner.py 82-85 *)
            else inl (SDict (get_values d t))                          (* `values or {}` *)
  | Some k =>
      if negb (db_in d t) then inr (ENoRecord t)               (* "taskid '%s' has no computed value!" *)
      else match vget (get_values d t) k with
           | Some x => inl (SVal x)
           | None => inr (ENoKey t k)                          (* "Invalid arg name. Task '%s' has no value for '%s'." *)
           end
  end.

(* 93-101: a group source: one entry per element of [subs], in order.  [subs] = the group's task_dep
   entries whose name starts with `<group>:` (legacy: every task_dep of the group), see [grp_of] *)
Fixpoint get_group (iv : iver) (d : db) (subs : list name) (key : option N) : list (name * sval) + gerr :=
  match subs with
  | [] => inl []
  | sub :: r =>
      match get_value iv d sub key with
      | inr e => inr e
      | inl x => match get_group iv d r key with inr e => inr e | inl l => inl ((sub, x) :: l) end
      end
  end.

(* [grp t] = Some (the entries of tasks_dict[t].task_dep that are read) when tasks_dict[t].has_subtask *)
Definition arg_value (iv : iver) (d : db) (grp : name -> option (list name)) (g : getarg) : aval + gerr :=
  match grp (ga_src g) with
  | Some subs => match get_group iv d subs (ga_key g) with inl l => inl (AGroup l) | inr e => inr e end
  | None => match get_value iv d (ga_src g) (ga_key g) with inl x => inl (ASingle x) | inr e => inr e end
  end.

(* the loop 86-98 over task.getargs.items(); the first exception leaves it *)
Fixpoint get_task_args (iv : iver) (d : db) (grp : name -> option (list name)) (gas : list getarg) : list (N * aval) + gerr :=
  match gas with
  | [] => inl []
  | g :: r =>
      match arg_value iv d grp g with
      | inr e => inr e
      | inl a => match get_task_args iv d grp r with inr e => inr e | inl l => inl ((ga_arg g, a) :: l) end
      end
  end.

(* Task._init_getargs: the set of sources that are not setup-tasks yet (task.py 420-436) ... *)
Definition init_getargs (setup : list name) (gas : list getarg) : list name :=
  fold_left (fun acc g => if mem (ga_src g) setup || mem (ga_src g) acc then acc else acc ++ [ga_src g]) gas [].
(* ... each becomes result_dep(src, setup_dep=True): appended to setup_tasks by configure_task (651-656)
   and to uptodate (236) *)
Definition init_setup (setup : list name) (gas : list getarg) : list name := setup ++ init_getargs setup gas.
Definition init_uptodate (u : list utd) (setup : list name) (gas : list getarg) : list utd :=
  u ++ map UResultDep (init_getargs setup gas).

(* ---------------------------------------------------------------- (a)+(c) what the action is called with *)
Definition arg_targets : N := 0%N.
Definition arg_dependencies : N := 1%N.
Definition arg_changed : N := 2%N.          (* other numbers: names chosen by the user in getargs *)

Inductive kwval := KFiles (l : list file) | KOpt (a : aval).

Fixpoint oget (o : list (N * aval)) (k : N) : option aval :=
  match o with [] => None | (k', a) :: r => if N.eqb k' k then Some a else oget r k end.

(* one name, as _prepare_kwargs (57-62 then 80-90: the option overwrites kwargs[key]) and
   expand_action (296-311: subs_dict.update(task.options)) resolve it *)
Definition action_input (df : tdef) (changed : list file) (opts : list (N * aval)) (key : N) : option kwval :=
  match oget opts key with
  | Some a => Some (KOpt a)
  | None =>
      if N.eqb key arg_targets then Some (KFiles (targets df))              (* list(task.targets) *)
      else if N.eqb key arg_dependencies then Some (KFiles (file_dep df))   (* list(task.file_dep) *)
      else if N.eqb key arg_changed then Some (KFiles changed)              (* list(task.dep_changed) *)
      else None
  end.

(* python-action whose callable has the positional parameters [params] (no defaults, no **kwargs) *)
Definition prepare_kwargs (df : tdef) (changed : list file) (opts : list (N * aval)) (params : list N) : list (N * kwval) :=
  flat_map (fun p => match action_input df changed opts p with Some x => [(p, x)] | None => [] end) params.

(* cmd-action "... %(k1)s ... %(k2)s ...": the substituted values, None = KeyError *)
Fixpoint expand_action (df : tdef) (changed : list file) (opts : list (N * aval)) (refs : list N) : option (list kwval) :=
  match refs with
  | [] => Some []
  | k :: r => match action_input df changed opts k, expand_action df changed opts r with
              | Some x, Some l => Some (x :: l)
              | _, _ => None
              end
  end.

(* ---------------------------------------------------------------- (d) calc_dep results *)
Definition k_cfile : N := k_user 2.     (* 'file_dep' *)
Definition k_ctask : N := k_user 3.     (* 'task_dep' *)
Definition mask_bits : list N := [0; 1; 2; 3; 4; 5; 6; 7; 8; 9; 10; 11; 12; 13; 14; 15]%N.
Definition of_mask (m : N) : list N := filter (fun i => N.testbit m i) mask_bits.
Definition calc_list (v : vals) (k : N) : list N :=
  match vget v k with Some (Some m) => of_mask m | _ => [] end.      (* key absent: nothing to add *)

(* Task.update_deps restricted to 'file_dep' (a set: _expand_file_dep adds) *)
Definition update_deps (df : tdef) (v : vals) : tdef :=
  {| file_dep := fold_left (fun acc f => addset f acc) (calc_list v k_cfile) (file_dep df);
     targets := targets df; uptodate := uptodate df; act_values := act_values df; act_result := act_result df |}.

(* ---------------------------------------------------------------- one run *)
Record itask := {
  i_getargs : list getarg;
  i_setup : list name;        (* task.setup_tasks after Task.__init__ (init_setup of the explicit ones) *)
  i_task_dep : list name;     (* task.task_dep after TaskControl.__init__ (sub-tasks of a group included) *)
  i_calc_dep : list name;
  i_group : bool;             (* has_subtask *)
  i_sub_of : option name;     (* Some g: the task's name is `<g>:...` (it is a sub-task of g) *)
  i_params : list N           (* what the instrumented action asks for *)
}.
Definition no_task : itask :=
  {| i_getargs := []; i_setup := []; i_task_dep := []; i_calc_dep := []; i_group := false; i_sub_of := None; i_params := [] |}.

(* node.run_status at the end, failures by cause:
   1 action failed | 40 UnmetDependency | 41 DependencyError of get_status (missing file dep) |
   42 getargs: no record | 43 getargs: no such key | 44 save_success: file dep vanished | 98 TypeError | 99 fuel *)
Inductive rstat := RNone | RUpToDate | RIgnore | RSuccess | RFail (code : Z).
Definition is_fail (r : rstat) : bool := match r with RFail _ => true | _ => false end.
Definition is_ign (r : rstat) : bool := match r with RIgnore => true | _ => false end.

Record trep := {
  tr_st : rstat;
  tr_verdict : option (status * list file);     (* get_status(...).status and task.dep_changed *)
  tr_kw : option (list (N * kwval));            (* kwargs of the executed action *)
  tr_vals : vals }.                             (* task.values of the Task object (in memory) *)
Definition no_rep : trep := {| tr_st := RNone; tr_verdict := None; tr_kw := None; tr_vals := [] |}.

Record xstate := { x_s : state; x_ops : list op; x_rep : name -> trep }.

Section Run.
Variable md5 : N -> N.
Variable size_of : N -> Z.
Variable v : ver.
Variable iv : iver.
Variable tab : name -> itask.
Variable always : bool.
Variable fails : list name.      (* tasks whose action fails in this run *)

Definition xstep (x : xstate) (o : op) : xstate :=
  {| x_s := step md5 size_of v (x_s x) o; x_ops := x_ops x ++ [o]; x_rep := x_rep x |}.
Definition set_rep (x : xstate) (t : name) (r : trep) : xstate :=
  {| x_s := x_s x; x_ops := x_ops x; x_rep := upd (x_rep x) t r |}.
Definition st_of (x : xstate) (t : name) : rstat := tr_st (x_rep x t).
Definition set_st (x : xstate) (t : name) (s : rstat) : xstate :=
  set_rep x t {| tr_st := s; tr_verdict := tr_verdict (x_rep x t); tr_kw := tr_kw (x_rep x t); tr_vals := tr_vals (x_rep x t) |}.
Definition set_vals (x : xstate) (t : name) (vl : vals) : xstate :=
  set_rep x t {| tr_st := tr_st (x_rep x t); tr_verdict := tr_verdict (x_rep x t); tr_kw := tr_kw (x_rep x t); tr_vals := vl |}.
(* Runner._handle_task_error: remove_success + failure *)
Definition fail (x : xstate) (t : name) (code : Z) : xstate := set_st (xstep x (Remove t)) t (RFail code).

Definition is_sub_of (g sub : name) : bool :=
  match i_sub_of (tab sub) with Some g' => N.eqb g' g | None => false end.          (* sub_id.startswith(g + ':') *)
Definition grp_of (t : name) : option (list name) :=
  if i_group (tab t)
  then Some (if fixGroup iv then filter (is_sub_of t) (i_task_dep (tab t)) else i_task_dep (tab t))
  else None.

(* values a finished calc task hands over (control.py 616: node.task.values): {} for a fresh Task
   object; get_values when found up-to-date (runner.py 150); what the actions returned plus the
   value-savers once the actions succeeded -- also when save_success then fails (code 44): the values of
   such a FAILED calc task are merged all the same.  (An action failing after a value-producing one
   would leave values too; in the modelled tasks the failing action is the first one.) *)
Definition calc_vals (x : xstate) (c : name) : vals := tr_vals (x_rep x c).

Definition gerr_code (e : gerr) : Z := match e with ENoRecord _ => 42 | ENoKey _ _ => 43 end.

(* second half of select_task (172-179) + execute_task + process_task_result *)
Definition args_and_execute (x : xstate) (t : name) (changed : list file) : xstate :=
  match get_task_args iv (s_db (x_s x)) grp_of (i_getargs (tab t)) with
  | inr e => fail x t (gerr_code e)
  | inl opts =>
      let kw := prepare_kwargs (s_defs (x_s x) t) changed opts (i_params (tab t)) in
      let x1 := set_rep x t {| tr_st := RNone; tr_verdict := tr_verdict (x_rep x t); tr_kw := Some kw; tr_vals := [] |} in
      if mem t fails then fail x1 t 1 else
      let s := x_s x1 in
      let o := snd (process_success md5 v (s_ck s) (s_fs s) (s_db s) t (s_defs s t)) in
      (* Task.execute 499 + save_extra_values 198: task.values, then save_success *)
      let x2 := xstep (set_vals x1 t (save_extra_values (s_db s) (s_defs s t))) (SaveOk t) in
      match o with
      | SaveDone => set_st x2 t RSuccess
      | SaveMissing _ => fail x2 t 44
      | SaveCrash => set_st x2 t (RFail 98)
      end
  end.

Fixpoint visit (fuel : nat) (x : xstate) (t : name) : xstate :=
  match fuel with O => set_st x t (RFail 99) | S fuel =>
  match st_of x t with
  | RNone =>
    let it := tab t in
    (* _add_task 443-466: calc_dep first, their values merged into this task *)
    let x1 := fold_left (visit fuel) (i_calc_dep it) x in
    let df1 := fold_left (fun df c => update_deps df (calc_vals x1 c)) (i_calc_dep it) (s_defs (x_s x1) t) in
    let x2 := if is_nil (i_calc_dep it) then x1 else xstep x1 (SetDef t df1) in
    let extra := flat_map (fun c => calc_list (calc_vals x1 c) k_ctask) (i_calc_dep it) in
    let deps := i_task_dep it ++ extra in
    let x3 := fold_left (visit fuel) deps x2 in
    let alldeps := i_calc_dep it ++ deps in
    (* select_task, first pass 114-155 *)
    if existsb (fun d => is_ign (st_of x3 d)) alldeps || status_is_ignore (s_db (x_s x3)) t then set_st x3 t RIgnore
    else if existsb (fun d => is_fail (st_of x3 d)) alldeps then fail x3 t 40
    else
      let r := check md5 v (x_s x3) t in
      let x4 := set_rep (xstep x3 (Check t)) t
                  {| tr_st := RNone; tr_verdict := Some (g_status r, g_changed r); tr_kw := None; tr_vals := [] |} in
      match g_status r with
      | Error => fail x4 t 41
      | Crash => set_st x4 t (RFail 98)
      | st =>
        if status_eqb st UpToDate && negb always
        then set_st (set_vals x4 t (get_values (s_db (x_s x4)) t)) t RUpToDate      (* runner.py 148-151 *)
        else
          (* 153-155, _add_task 509-526: the setup-tasks, then the second pass 157-170 *)
          let x5 := fold_left (visit fuel) (i_setup it) x4 in
          if existsb (fun d => is_ign (st_of x5 d)) (i_setup it) then set_st x5 t RIgnore
          else if existsb (fun d => is_fail (st_of x5 d)) (i_setup it) then fail x5 t 40
          else args_and_execute x5 t (g_changed r)
      end
  | _ => x
  end end.

Definition run_sel (fuel : nat) (s : state) (sel : list name) : xstate :=
  fold_left (visit fuel) sel {| x_s := s; x_ops := []; x_rep := fun _ => no_rep |}.

End Run.

(* ---------------------------------------------------------------- a session: operations and runs *)
Inductive cmd :=
| COp (o : op)                                              (* file system, dodo file, forget, ignore, ... *)
| CRun (always : bool) (fails : list name) (sel : list name).

(* ---- encodings for the correspondence check ---- *)
Definition ukeys : list N := mask_bits.
Definition sval_z (s : sval) : list Z :=
  match s with
  | SVal x => [2; val_z (Some x)]
  | SDict vl => 3 :: map (fun k => val_z (vget vl k)) ukeys
  end.
Definition aval_z (a : aval) : list Z :=
  match a with
  | ASingle s => sval_z s
  | AGroup l => 4 :: znat (length l) :: flat_map (fun p => zN (fst p) :: sval_z (snd p)) l
  end.
Definition kwval_z (k : kwval) : list Z := match k with KFiles l => [1; bitmask l] | KOpt a => aval_z a end.
Definition rstat_z (r : rstat) : Z :=
  match r with RNone => -1 | RSuccess => 0 | RUpToDate => 2 | RIgnore => 3 | RFail c => c end.
Definition trep_z (r : trep) : list Z :=
  [rstat_z (tr_st r)] ++
  match tr_verdict r with Some (st, ch) => [status_z st; bitmask ch] | None => [-1; -1] end ++
  match tr_kw r with Some kw => znat (length kw) :: flat_map (fun p => zN (fst p) :: kwval_z (snd p)) kw | None => [-1] end ++ [-9].

Section Session.
Variable md5 : N -> N.
Variable size_of : N -> Z.
Variable v : ver.
Variable iv : iver.
Variable tab : name -> itask.
Variable ntasks : nat.
Variable fuel : nat.

Definition exec_cmd (acc : state * list Z) (c : cmd) : state * list Z :=
  let '(s, out) := acc in
  match c with
  | COp o => (step md5 size_of v s o, out)
  | CRun always fails sel =>
      let x := run_sel md5 size_of v iv tab always fails fuel s sel in
      (x_s x, out ++ flat_map (fun i => trep_z (x_rep x (N.of_nat i))) (seq 0 ntasks) ++ [-8])
  end.
Definition exec_cmds (cs : list cmd) : state * list Z := fold_left exec_cmd cs (init, []).

End Session.
