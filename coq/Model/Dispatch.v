(* Dispatch.v -- model of doit/control.py: ExecNode and TaskDispatcher
   (_gen_node, _node_add_wait_run, _add_task, _get_next_node, _update_waiting,
   _process_calc_dep_results, _dispatcher_generator).  Definitions only.

   Python generators become a program counter: [pc] has one constructor per suspension point of
   TaskDispatcher._add_task, and [gen_step] runs one node's generator up to its next non-None
   yield.  The iteration order of the Python set ExecNode.waiting_me is the oracle [wake_order].
   Static task table (delayed task creation is modelled separately in Delayed.v). *)
From DoitV Require Export Base.
Open Scope N_scope.

(* SFailureV: run_status 'failure' of a task whose actions all succeeded (task.values is set) but
   whose save_success failed -- Python has one status string, the difference is only in task.values *)
Inductive status := SNone | SRun | SUpToDate | SIgnore | SSuccess | SFailure | SFailureV.
Definition unfinished (s : status) : bool := match s with SNone | SRun => true | _ => false end.
Definition status_eqb (a b : status) : bool :=
  match a, b with
  | SNone, SNone | SRun, SRun | SUpToDate, SUpToDate | SIgnore, SIgnore
  | SSuccess, SSuccess | SFailure, SFailure | SFailureV, SFailureV => true
  | _, _ => false end.

Inductive check := CkRun | CkUpToDate | CkError.          (* Dependency.get_status(...).status *)
Inductive outcome := OOk | OFail | OError | OSaveErr | OInterrupt | OFailV.
(* OOk: actions succeed and save_success works;  OFail: TaskFailed;  OError: TaskError;
   OSaveErr: actions succeed but save_success raises FileNotFoundError -> DependencyError;
   OInterrupt: KeyboardInterrupt/SystemExit raised inside an action;
   OFailV: a first action succeeded and set task.values, a later action failed (TaskFailed) *)

(* one task as TaskControl.__init__ leaves it (wild-cards expanded, implicit task_dep added,
   loader/result_dep/getargs deps appended to task_dep/setup) *)
Record task := {
  t_task_dep : list name;
  t_setup : list name;
  t_calc_dep : list name;           (* in the iteration order of the Python set *)
  t_teardown : bool;                (* has teardown actions *)
  t_dbignore : bool;                (* dep_manager.status_is_ignore *)
  t_check : check;
  t_argerr : bool;                  (* _get_task_args raises *)
  t_outcome : outcome;
  t_calc_new_task : list name;      (* values['task_dep'] this task contributes when used as a calc_dep *)
  t_calc_new_impl : list name;      (* producers of values['file_dep'] (implicit task_dep) *)
  t_calc_new_calc : list name;      (* values['calc_dep'] *)
}.
Definition empty_task : task := Build_task [] [] [] false false CkRun false OOk [] [] [].

Inductive pc :=
| PLoop                                            (* top of `while True` (line 443) *)
| PCalc (rest calcs tasks : list name)             (* inside `for calc_dep in calc_dep_list` (449) *)
| PTask (rest tasks : list name)                   (* inside `for task_dep in task_dep_list` (454) *)
| PSelf                                            (* about to `yield this_task` (506) *)
| PAfterSelf                                       (* resumed after the first `yield this_task` *)
| PAfterSelWait                                    (* after the `yield "wait"` of line 515 *)
| PSetup (rest : list name)                        (* inside `for setup_task in setup_tasks` (519) *)
| PSetupWaited                                     (* after the `yield 'wait'` of line 523 *)
| PDone.                                           (* generator exhausted *)

Record node := {
  n_pend_task : list name; n_pend_calc : list name;   (* ExecNode.task_dep / .calc_dep: not processed yet *)
  n_all_task : list name; n_all_calc : list name;     (* task.task_dep / task.calc_dep, growing through calc results *)
  n_anc : list name;
  n_wsel : bool; n_wrun : list name; n_wcalc : list name; n_wme : list name;
  n_st : status; n_bad : list name; n_ign : list name; n_pc : pc }.

Definition nd_pc (nd : node) (p : pc) : node :=
  {| n_pend_task := n_pend_task nd; n_pend_calc := n_pend_calc nd; n_all_task := n_all_task nd; n_all_calc := n_all_calc nd;
     n_anc := n_anc nd; n_wsel := n_wsel nd; n_wrun := n_wrun nd; n_wcalc := n_wcalc nd; n_wme := n_wme nd;
     n_st := n_st nd; n_bad := n_bad nd; n_ign := n_ign nd; n_pc := p |}.
Definition nd_st (nd : node) (s : status) : node :=
  {| n_pend_task := n_pend_task nd; n_pend_calc := n_pend_calc nd; n_all_task := n_all_task nd; n_all_calc := n_all_calc nd;
     n_anc := n_anc nd; n_wsel := n_wsel nd; n_wrun := n_wrun nd; n_wcalc := n_wcalc nd; n_wme := n_wme nd;
     n_st := s; n_bad := n_bad nd; n_ign := n_ign nd; n_pc := n_pc nd |}.
Definition nd_wsel (nd : node) (b : bool) : node :=
  {| n_pend_task := n_pend_task nd; n_pend_calc := n_pend_calc nd; n_all_task := n_all_task nd; n_all_calc := n_all_calc nd;
     n_anc := n_anc nd; n_wsel := b; n_wrun := n_wrun nd; n_wcalc := n_wcalc nd; n_wme := n_wme nd;
     n_st := n_st nd; n_bad := n_bad nd; n_ign := n_ign nd; n_pc := n_pc nd |}.
Definition nd_wait (nd : node) (wr wc : list name) : node :=
  {| n_pend_task := n_pend_task nd; n_pend_calc := n_pend_calc nd; n_all_task := n_all_task nd; n_all_calc := n_all_calc nd;
     n_anc := n_anc nd; n_wsel := n_wsel nd; n_wrun := wr; n_wcalc := wc; n_wme := n_wme nd;
     n_st := n_st nd; n_bad := n_bad nd; n_ign := n_ign nd; n_pc := n_pc nd |}.
Definition nd_wme (nd : node) (w : list name) : node :=
  {| n_pend_task := n_pend_task nd; n_pend_calc := n_pend_calc nd; n_all_task := n_all_task nd; n_all_calc := n_all_calc nd;
     n_anc := n_anc nd; n_wsel := n_wsel nd; n_wrun := n_wrun nd; n_wcalc := n_wcalc nd; n_wme := w;
     n_st := n_st nd; n_bad := n_bad nd; n_ign := n_ign nd; n_pc := n_pc nd |}.
Definition nd_bad (nd : node) (b i : list name) : node :=
  {| n_pend_task := n_pend_task nd; n_pend_calc := n_pend_calc nd; n_all_task := n_all_task nd; n_all_calc := n_all_calc nd;
     n_anc := n_anc nd; n_wsel := n_wsel nd; n_wrun := n_wrun nd; n_wcalc := n_wcalc nd; n_wme := n_wme nd;
     n_st := n_st nd; n_bad := b; n_ign := i; n_pc := n_pc nd |}.
Definition nd_deps (nd : node) (pt pcl at_ ac : list name) : node :=
  {| n_pend_task := pt; n_pend_calc := pcl; n_all_task := at_; n_all_calc := ac;
     n_anc := n_anc nd; n_wsel := n_wsel nd; n_wrun := n_wrun nd; n_wcalc := n_wcalc nd; n_wme := n_wme nd;
     n_st := n_st nd; n_bad := n_bad nd; n_ign := n_ign nd; n_pc := n_pc nd |}.

Record dstate := {
  d_nodes : name -> option node;
  d_ready : list name;       (* deque *)
  d_waiting : list name;     (* set *)
  d_torun : list name;       (* tasks_to_run, next first *)
  d_cur : option name }.     (* `node` of _dispatcher_generator *)

Definition set_node (d : dstate) (k : name) (nd : node) : dstate :=
  {| d_nodes := upd (d_nodes d) k (Some nd); d_ready := d_ready d; d_waiting := d_waiting d;
     d_torun := d_torun d; d_cur := d_cur d |}.
Definition set_ready (d : dstate) r := {| d_nodes := d_nodes d; d_ready := r; d_waiting := d_waiting d; d_torun := d_torun d; d_cur := d_cur d |}.
Definition set_waiting (d : dstate) w := {| d_nodes := d_nodes d; d_ready := d_ready d; d_waiting := w; d_torun := d_torun d; d_cur := d_cur d |}.
Definition set_torun (d : dstate) w := {| d_nodes := d_nodes d; d_ready := d_ready d; d_waiting := d_waiting d; d_torun := w; d_cur := d_cur d |}.
Definition set_cur (d : dstate) c := {| d_nodes := d_nodes d; d_ready := d_ready d; d_waiting := d_waiting d; d_torun := d_torun d; d_cur := c |}.

(* stable insertion sort by a rank: how the model turns "iteration order of a Python set" into
   data.  Whatever the rank function, the result is a permutation of the input. *)
Fixpoint insert_by (rank : name -> N) (x : name) (l : list name) : list name :=
  match l with
  | [] => [x]
  | y :: r => if rank x <? rank y then x :: y :: r else y :: insert_by rank x r
  end.
Definition sort_by (rank : name -> N) (l : list name) : list name :=
  fold_right (insert_by rank) [] l.

Section Model.
Variable tasks : name -> option task.
(* oracles: the order in which Python iterates a set.  [wake_rank p] orders processed.waiting_me
   (a set of ExecNode hashed by address; the harness records the real order of each call),
   [calc_rank] orders a node's pending calc_dep names (a set of str). Any functions. *)
Variable wake_rank : name -> name -> N.
Variable calc_rank : name -> N.
Definition wake_order (p : name) (l : list name) : list name := sort_by (wake_rank p) l.

Definition get_task (n : name) : task := match tasks n with Some t => t | None => empty_task end.

(* ExecNode.__init__ *)
Definition new_node (parent_anc : list name) (k : name) : node :=
  let t := get_task k in
  {| n_pend_task := t_task_dep t; n_pend_calc := t_calc_dep t; n_all_task := t_task_dep t; n_all_calc := t_calc_dep t;
     n_anc := parent_anc ++ [k]; n_wsel := false; n_wrun := []; n_wcalc := []; n_wme := [];
     n_st := SNone; n_bad := []; n_ign := []; n_pc := PLoop |}.

Definition node_of (d : dstate) (k : name) : node :=
  match d_nodes d k with Some nd => nd | None => new_node [] k end.
Definition st_of (d : dstate) (k : name) : status := n_st (node_of d k).

(* TaskDispatcher._gen_node (370-385) *)
Inductive gen_res := GNew | GOld | GCycle.
Definition gen_node (d : dstate) (parent_anc : option (list name)) (k : name) : gen_res * dstate :=
  match d_nodes d k with
  | None => (GNew, set_node d k (new_node (match parent_anc with Some a => a | None => [] end) k))
  | Some _ => match parent_anc with
              | Some a => if mem k a then (GCycle, d) else (GOld, d)
              | None => (GOld, d) end
  end.

(* ExecNode.parent_status (324-328) *)
Definition parent_status (nd : node) (dep : name) (dst : status) : node :=
  match dst with
  | SFailure | SFailureV => nd_bad nd (n_bad nd ++ [dep]) (n_ign nd)
  | SIgnore => nd_bad nd (n_bad nd) (n_ign nd ++ [dep])
  | _ => nd end.

(* TaskDispatcher._process_calc_dep_results (590-604): the calc task's saved values are merged
   into the waiting task.  task.values is set for a task found up-to-date (runner.py 150) or whose
   actions all succeeded (task.execute) -- also when save_success failed afterwards (SFailureV);
   otherwise it is {} and nothing is added.
   explicit task_dep are appended without de-duplication (_expand_task_dep), implicit ones
   (add_implicit_task_dep) only if not yet present, calc_dep is a set. *)
Definition calc_values_visible (st : status) : bool :=
  match st with SSuccess | SUpToDate | SFailureV => true | _ => false end.
Definition add_if_new (acc : list name) (x : name) : list name := if mem x acc then acc else acc ++ [x].
Definition process_calc (nd : node) (c : name) (cst : status) : node :=
  if calc_values_visible cst then
    let t := get_task c in
    let all1 := n_all_task nd ++ t_calc_new_task t in
    let impl := fold_left add_if_new (t_calc_new_impl t) all1 in
    let newt := skipn (length (n_all_task nd)) impl in
    let newc := filter (fun x => negb (mem x (n_all_calc nd))) (fold_left add_if_new (t_calc_new_calc t) []) in
    nd_deps nd (n_pend_task nd ++ newt) (n_pend_calc nd ++ newc) impl (n_all_calc nd ++ newc)
  else nd.

(* TaskDispatcher._node_add_wait_run (388-416), one name of task_list at a time *)
Definition add_wait_one (d : dstate) (me x : name) (calc : bool) : dstate :=
  let sx := st_of d x in
  if unfinished sx then
    let nx := node_of d x in
    let d1 := set_node d x (nd_wme nx (addset me (n_wme nx))) in
    let nd1 := node_of d1 me in
    set_node d1 me (if calc then nd_wait nd1 (n_wrun nd1) (addset x (n_wcalc nd1))
                    else nd_wait nd1 (addset x (n_wrun nd1)) (n_wcalc nd1))
  else
    let nd1 := parent_status (node_of d me) x sx in
    set_node d me (if calc then process_calc nd1 x sx else nd1).
Fixpoint add_wait_run (d : dstate) (me : name) (l : list name) (calc : bool) : dstate :=
  match l with
  | [] => d
  | x :: r => add_wait_run (add_wait_one d me x calc) me r calc
  end.

Inductive gyield := YNode (k : name) | YWait | YSelf | YEnd | YCycle (path : list name) | YFuel.

Definition set_pc (d : dstate) (me : name) (p : pc) : dstate := set_node d me (nd_pc (node_of d me) p).

(* one resumption of the generator TaskDispatcher._add_task(node) (420-526): run to the next
   yield that no_none lets through *)
Fixpoint gen_step (fuel : nat) (d : dstate) (me : name) : gyield * dstate :=
  match fuel with O => (YFuel, d) | S fuel =>
  let nd := node_of d me in
  match n_pc nd with
  | PLoop =>
      let calcs := sort_by calc_rank (n_pend_calc nd) in let tks := n_pend_task nd in
      let nd' := nd_pc (nd_deps nd [] [] (n_all_task nd) (n_all_calc nd)) (PCalc calcs calcs tks) in
      gen_step fuel (set_node d me nd') me
  | PCalc [] calcs tks =>
      let d1 := add_wait_run d me calcs true in
      gen_step fuel (set_pc d1 me (PTask tks tks)) me
  | PCalc (c :: r) calcs tks =>
      match gen_node d (Some (n_anc nd)) c with
      | (GCycle, _) => (YCycle (n_anc nd ++ [c]), d)
      | (GNew, d1) => (YNode c, set_pc d1 me (PCalc r calcs tks))
      | (GOld, d1) => gen_step fuel (set_pc d1 me (PCalc r calcs tks)) me
      end
  | PTask [] tks =>
      let d1 := add_wait_run d me tks false in
      let nd1 := node_of d1 me in
      if negb (is_nil (n_pend_calc nd1)) || negb (is_nil (n_pend_task nd1)) then
        gen_step fuel (set_pc d1 me PLoop) me
      else if negb (is_nil (n_wrun nd1)) || negb (is_nil (n_wcalc nd1)) then
        (YWait, set_pc d1 me PLoop)
      else gen_step fuel (set_pc d1 me PSelf) me
  | PTask (c :: r) tks =>
      match gen_node d (Some (n_anc nd)) c with
      | (GCycle, _) => (YCycle (n_anc nd ++ [c]), d)
      | (GNew, d1) => (YNode c, set_pc d1 me (PTask r tks))
      | (GOld, d1) => gen_step fuel (set_pc d1 me (PTask r tks)) me
      end
  | PSelf => (YSelf, set_pc d me PAfterSelf)
  | PAfterSelf =>
      if is_nil (t_setup (get_task me)) then (YEnd, set_pc d me PDone)
      else match n_st nd with
           | SNone => (YWait, set_node d me (nd_pc (nd_wsel nd true) PAfterSelWait))
           | _ => gen_step fuel (set_pc d me PAfterSelWait) me end
  | PAfterSelWait =>
      match n_st nd with
      | SRun => gen_step fuel (set_pc d me (PSetup (t_setup (get_task me)))) me
      | _ => (YEnd, set_pc d me PDone) end
  | PSetup [] =>
      let d1 := add_wait_run d me (t_setup (get_task me)) false in
      if is_nil (n_wrun (node_of d1 me)) then (YSelf, set_pc d1 me PDone)
      else (YWait, set_pc d1 me PSetupWaited)
  | PSetup (c :: r) =>
      match gen_node d (Some (n_anc nd)) c with
      | (GCycle, _) => (YCycle (n_anc nd ++ [c]), d)
      | (GNew, d1) => (YNode c, set_pc d1 me (PSetup r))
      | (GOld, d1) => gen_step fuel (set_pc d1 me (PSetup r)) me
      end
  | PSetupWaited => (YSelf, set_pc d me PDone)
  | PDone => (YEnd, d)
  end end.

(* TaskDispatcher._update_waiting (544-587), body of the loop over node.waiting_me *)
Definition wake_node (nd : node) (fin : name) (fst : status) : node :=
  let nw := parent_status nd fin fst in
  let nw1 := nd_wait nw (rem fin (n_wrun nw)) (rem fin (n_wcalc nw)) in
  if mem fin (n_wcalc nd) then process_calc nw1 fin fst else nw1.
Definition wake_ready (nd : node) (fin : name) (nw2 : node) : bool :=
  if mem fin (n_wcalc nd) then true else is_nil (n_wrun nw2) && is_nil (n_wcalc nw2).
Definition wake_one (d : dstate) (fin : name) (fst : status) (w : name) : dstate :=
  let nd := node_of d w in
  let nw2 := wake_node nd fin fst in
  let d1 := set_node d w nw2 in
  if wake_ready nd fin nw2 && mem w (d_waiting d1)
  then set_waiting (set_ready d1 (d_ready d1 ++ [w])) (rem w (d_waiting d1)) else d1.
Fixpoint wake (d : dstate) (fin : name) (fst : status) (l : list name) : dstate :=
  match l with
  | [] => d
  | w :: r => wake (wake_one d fin fst w) fin fst r
  end.

Definition update_waiting (d : dstate) (processed : option name) : dstate :=
  match processed with
  | None => d
  | Some p =>
    let np := node_of d p in
    let d1 := if n_wsel np then
                let d0 := set_node d p (nd_wsel np false) in
                set_waiting (set_ready d0 (d_ready d0 ++ [p])) (rem p (d_waiting d0))
              else d in
    match n_st np with
    | SRun => d1
    | s => wake d1 p s (wake_order p (n_wme np))
    end
  end.

Inductive dyield := DTask (k : name) | DHold | DStop | DCycle (path : list name) | DFuel.

(* TaskDispatcher._get_next_node (529-541), the tasks_to_run part *)
Fixpoint next_from_torun (d : dstate) (l : list name) : option name * dstate :=
  match l with
  | [] => (None, set_torun d [])
  | x :: r => match gen_node d None x with
              | (GNew, d1) => (Some x, set_torun d1 r)
              | (_, d1) => next_from_torun d1 r end
  end.

(* the body of _dispatcher_generator (608-654) from one yield to the next *)
Fixpoint disp_run (fuel : nat) (d : dstate) : dyield * dstate :=
  match fuel with O => (DFuel, d) | S fuel =>
  match d_cur d with
  | None =>
    match d_ready d with
    | x :: r => disp_run fuel (set_cur (set_ready d r) (Some x))
    | [] => match next_from_torun d (d_torun d) with
            | (Some x, d1) => disp_run fuel (set_cur d1 (Some x))
            | (None, d1) => if is_nil (d_waiting d1) then (DStop, d1) else (DHold, d1)
            end
    end
  | Some me =>
    match gen_step (S (S fuel)) d me with
    | (YEnd, d1) => disp_run fuel (set_cur d1 None)
    | (YSelf, d1) => (DTask me, d1)
    | (YNode k, d1) => disp_run fuel (set_ready d1 (d_ready d1 ++ [k]))
    | (YWait, d1) => disp_run fuel (set_cur (set_waiting d1 (addset me (d_waiting d1))) None)
    | (YCycle p, d1) => (DCycle p, d1)
    | (YFuel, d1) => (DFuel, d1)
    end
  end end.

(* generator.send(processed) *)
Definition disp_send (fuel : nat) (d : dstate) (processed : option name) : dyield * dstate :=
  disp_run fuel (update_waiting d processed).

Definition disp_init (selected : list name) : dstate :=
  {| d_nodes := fun _ => None; d_ready := []; d_waiting := []; d_torun := selected; d_cur := None |}.

End Model.
