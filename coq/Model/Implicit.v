(* Implicit.v -- model of the step from the dodo file's `targets` / `file_dep` AS WRITTEN to the task table
   the dispatcher works on:
     doit/task.py     Task._init_targets (286-297), Task._expand_file_dep (333-343): a str is kept character
                      for character, a pathlib object is replaced by str(path)
     doit/control.py  TaskControl.__init__ (47-75): unique names, _check_dep_names (78-95),
                      set_implicit_deps (98-120), add_implicit_task_dep (123-133)
                      TaskDispatcher._process_calc_dep_results (630-638): file_dep returned by a calc_dep task
   Definitions only.  Character strings are numbered (type [name]); what pathlib makes of a string is an oracle. *)
From DoitV Require Export Base Dispatch.
Open Scope N_scope.

(* a path as it is written in the dodo file: a str, or a pathlib object (PurePath / Path) made from that text *)
Inductive spelling := SStr (text : name) | SPath (text : name).

(* one task as declared.  [dc_task]: everything that is not derived from file names -- explicit task_dep
   (wild-cards expanded; duplicates kept), setup, calc_dep, flags, outcome, task_dep / calc_dep its actions return;
   its field t_calc_new_impl is ignored (computed below from [dc_calc_files]) *)
Record decl := {
  dc_task : task;
  dc_targets : list spelling;        (* `targets`, in the order written *)
  dc_file_dep : list spelling;       (* `file_dep`, in the order written *)
  dc_fd_order : list name;           (* oracle: iteration order of the Python set task.file_dep (of strings) *)
  dc_calc_files : list spelling;     (* values['file_dep'] returned by the task's actions (seen by tasks using it as calc_dep) *)
}.

Section Implicit.
Variable path_str : name -> name.    (* oracle: text |-> str(PurePath(text)) *)

(* the dictionary key / set element doit uses for a spelling (task.py 290-293, 336-339) *)
Definition key (s : spelling) : name := match s with SStr x => x | SPath x => path_str x end.

Definition dedup (l : list name) : list name := fold_left (fun acc x => addset x acc) l [].

(* task.file_dep: the set of keys; iterated in the order the oracle gives, keys the oracle does not
   mention last (so the definition is total and always enumerates exactly the declared keys) *)
Definition file_dep_set (d : decl) : list name :=
  let ks := dedup (map key (dc_file_dep d)) in
  filter (fun k => mem k ks) (dedup (dc_fd_order d)) ++ filter (fun k => negb (mem k (dc_fd_order d))) ks.

(* TaskControl.add_implicit_task_dep (123-133) *)
Definition add_implicit (tg : name -> option name) (files : list name) (deps : list name) : list name :=
  fold_left (fun acc f => match tg f with Some p => if mem p acc then acc else acc ++ [p] | None => acc end) files deps.

(* set_implicit_deps part 1 (106-112): None = InvalidTask "Two different tasks can't have a common target"
   (also raised for one task naming the same key twice) *)
Fixpoint add_targets_of (tg : name -> option name) (k : name) (ts : list name) : option (name -> option name) :=
  match ts with
  | [] => Some tg
  | f :: r => match tg f with Some _ => None | None => add_targets_of (upd tg f (Some k)) k r end
  end.
Fixpoint add_targets (tg : name -> option name) (dl : list (name * decl)) : option (name -> option name) :=
  match dl with
  | [] => Some tg
  | (k, d) :: r => match add_targets_of tg k (map key (dc_targets d)) with None => None | Some tg1 => add_targets tg1 r end
  end.

(* producers of a list of returned file names, in order (what add_implicit_task_dep looks at, 636-638) *)
Definition producers (tg : name -> option name) (files : list name) : list name :=
  flat_map (fun f => match tg f with Some p => [p] | None => [] end) files.

Definition finish_task (tg : name -> option name) (d : decl) : task :=
  let T := dc_task d in
  {| t_task_dep := add_implicit tg (file_dep_set d) (t_task_dep T);
     t_setup := t_setup T; t_calc_dep := t_calc_dep T; t_teardown := t_teardown T; t_dbignore := t_dbignore T;
     t_check := t_check T; t_argerr := t_argerr T; t_outcome := t_outcome T;
     t_calc_new_task := t_calc_new_task T;
     t_calc_new_impl := producers tg (map key (dc_calc_files d));
     t_calc_new_calc := t_calc_new_calc T |}.

Fixpoint lookup (dl : list (name * decl)) (k : name) : option decl :=
  match dl with
  | [] => None
  | (k', d) :: r => if N.eqb k k' then Some d else lookup r k
  end.

Fixpoint names_unique (seen : list name) (dl : list (name * decl)) : bool :=
  match dl with
  | [] => true
  | (k, _) :: r => negb (mem k seen) && names_unique (k :: seen) r
  end.

Definition deps_exist (dl : list (name * decl)) : bool :=
  forallb (fun kd => forallb (fun x => mem x (map fst dl))
                             (t_task_dep (dc_task (snd kd)) ++ t_setup (dc_task (snd kd)) ++ t_calc_dep (dc_task (snd kd)))) dl.

Inductive init_error := EDupName | EBadDep | ECommonTarget.

(* TaskControl.__init__ on the list of tasks in definition order *)
Definition control_init (dl : list (name * decl)) : init_error + (name -> option task) :=
  if negb (names_unique [] dl) then inl EDupName                  (* 62-64 InvalidDodoFile *)
  else if negb (deps_exist dl) then inl EBadDep                    (* 78-95 InvalidTask *)
  else match add_targets (fun _ => None) dl with
       | None => inl ECommonTarget                                 (* 108-111 InvalidTask *)
       | Some tg => inr (fun k => match lookup dl k with Some d => Some (finish_task tg d) | None => None end)
       end.

(* the dependency the property speaks about: "a file_dep that is another task's target", on the declarations *)
Definition file_dep_on_target (dl : list (name * decl)) (c p : name) : Prop :=
  exists dc dp f g, In (c, dc) dl /\ In (p, dp) dl /\ In f (dc_file_dep dc) /\ In g (dc_targets dp) /\ key f = key g.

(* ... and through a calc_dep task cc whose actions return a file_dep that is p's target *)
Definition returned_file_on_target (dl : list (name * decl)) (cc p : name) : Prop :=
  exists dcc dp f g, In (cc, dcc) dl /\ In (p, dp) dl /\ In f (dc_calc_files dcc) /\ In g (dc_targets dp) /\ key f = key g.

(* every dependency a task declares *)
Inductive declared_dep (dl : list (name * decl)) (c x : name) : Prop :=
| dd_task dc : In (c, dc) dl -> In x (t_task_dep (dc_task dc)) -> declared_dep dl c x
| dd_setup dc : In (c, dc) dl -> In x (t_setup (dc_task dc)) -> declared_dep dl c x
| dd_calc dc : In (c, dc) dl -> In x (t_calc_dep (dc_task dc)) -> declared_dep dl c x
| dd_file : file_dep_on_target dl c x -> declared_dep dl c x.

End Implicit.

(* the same table as an association list over the given keys (the correspondence check evaluates it once per
   case and hands [assoc_task] of it to the runner models, instead of re-deriving an entry at every look-up) *)
Definition table_list (r : init_error + (name -> option task)) (keys : list name) : list (name * task) :=
  match r with
  | inr tb => flat_map (fun k => match tb k with Some T => [(k, T)] | None => [] end) keys
  | inl _ => []
  end.
Fixpoint assoc_task (l : list (name * task)) (k : name) : option task :=
  match l with
  | [] => None
  | (k', T) :: r => if N.eqb k k' then Some T else assoc_task r k
  end.

(* encoding for the correspondence check: the table [control_init] produces, task by task in definition order:
   task_dep ++ [-1] ++ t_calc_new_impl ++ [-1]; an error is [-2; code] *)
Definition enc_names (l : list name) : list Z := map zN l.
Definition enc_init (r : init_error + (name -> option task)) (keys : list name) : list Z :=
  match r with
  | inl EDupName => [(-2)%Z; 1%Z]
  | inl EBadDep => [(-2)%Z; 2%Z]
  | inl ECommonTarget => [(-2)%Z; 3%Z]
  | inr tb => flat_map (fun k => match tb k with
                                 | Some T => enc_names (t_task_dep T) ++ [(-1)%Z] ++ enc_names (t_calc_new_impl T) ++ [(-1)%Z]
                                 | None => [(-3)%Z] end) keys
  end.
