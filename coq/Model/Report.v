(* Report.v -- model of doit/reporter.py (ConsoleReporter, ExecutedOnlyReporter, ZeroReporter,
   ErrorOnlyReporter, JsonReporter + TaskResult) and of the way the runners drive a reporter
   (doit/runner.py: Runner.execute_task 188-196, Runner.teardown 248-256, Runner.finish 259-267,
   Runner.run_all 270-284, MReporter 323-355, the result loops of MRunner.run_tasks 500-553; DoitMain.run
   doit/doit_cmd.py 290-310 for what is written after run_all).  Definitions only.

   Input of a reporter = the sequence of [call]s made on it, interleaved with the writes to
   sys.stdout / sys.stderr that happen between two callbacks (python-actions and teardown actions
   echoing their output according to the task's verbosity, DoitMain.run printing an error).
   Observable = what reaches the REAL stdout / stderr of the doit process, in order.

   Abstractions: a piece of text is a token (N); a console line is a constructor of [cline]
   (message bodies / tracebacks are part of the line they follow); timestamps of TaskResult
   (started, elapsed) are reduced to the flag "start() was called"; one `out` / `err` chunk list
   per task stands for the captured output of its actions (action.out / action.err). *)
From DoitV Require Export Base Dispatch Runner Parallel.
Open Scope N_scope.

Inductive strm := SOut | SErr.
(* whose sys.stdout / sys.stderr a write goes to: the main process (serial runner, thread runner:
   threads share the sys module) or a worker PROCESS of MRunner (its own copy of the interpreter state) *)
Inductive place := InMain | InWorker.

Inductive call :=
| CInitialize                            (* reporter.initialize(tasks, selected) -- only if the class has it *)
| CGetStatus (k : name)
| CExecute (k : name)
| CFailure (k : name) (kind : N)         (* add_failure; kind as in Runner.v: 0 TaskFailed 1 TaskError 2 UnmetDependency 3 DependencyError *)
| CSuccess (k : name)
| CSkipUpToDate (k : name)
| CSkipIgnore (k : name)
| CTeardown (k : name)                   (* teardown_task *)
| CCleanupError (k : name)               (* cleanup_error(SetupError("ERROR: task 'k' teardown action", ...)) *)
| CRuntimeError (m : N)                  (* runtime_error(str(InvalidTask)) *)
| CCompleteRun
| CWrite (s : strm) (p : place) (tok : N).  (* not a callback: somebody writes tok to sys.stdout / sys.stderr *)

(* what the reporters read from a Task object *)
Record tattr := {
  ta_actions : bool;      (* task.actions is not empty *)
  ta_private : bool;      (* task.name[0] == '_' *)
  ta_verb : N;            (* task.verbosity after overwrite_verbosity: 0, 1, 2 *)
  ta_out : list N;        (* [a.out for a in task.actions if a.out] once executed *)
  ta_err : list N;
  ta_td_out : list N;     (* what its teardown actions print *)
  ta_td_err : list N;
  ta_td_fail : bool;      (* execute_teardown returns a failure *)
  ta_report : bool        (* the `report` attribute (exceptions.py 51-56) of the failure object the task's OWN actions
                             return when they fail: True for everything doit creates itself (action.py 203, 260,
                             265, 481, 497, 509); False only when a python-action returns
                             TaskFailed(..., report=False) / TaskError(..., report=False) (action.py 506-507
                             hands the object on as it is; it survives pickling, so it is the same flag after
                             crossing the result queue of MRunner) *)
}.

(* ---------------- what can be written ---------------- *)
Inductive cline :=
| LExec (k : name)                 (* ".  <title>"            ConsoleReporter.execute_task 40-45 *)
| LUpToDate (k : name)             (* "-- <title>"            skip_uptodate 58-61 *)
| LIgnore (k : name)               (* "!! <title>"            skip_ignore 63-65 *)
| LFail (k : name) (kind : N)      (* "<Kind> - taskid:<k>" + message   _write_failure 81-87 from add_failure 47-52 *)
| LEFail (k : name) (kind : N)     (* "taskid:<k> - <Kind>" + message   ErrorOnlyReporter.add_failure 153-159 *)
| LSep                             (* "#" * 40 *)
| LSumFail (k : name) (kind : N)   (* _write_failure from complete_run 103 *)
| LSumErr (k : name)               (* "<k> <stderr>:"  (the captured chunks follow) 106 *)
| LSumOut (k : name)               (* "<k> <stdout>:"  109 *)
| LAborted                         (* "Execution aborted." 113 *)
| LRuntime (m : N)                 (* a runtime error message *)
| LCleanupMsg (k : name).          (* SetupError.get_msg() of k's teardown *)

Inductive chunk := Raw (tok : N) | Line (l : cline).

Inductive jres := JSuccess | JFail | JUpToDate | JIgnore.
(* TaskResult (162-202) *)
Record trec := {
  tr_result : option jres;     (* None: set_result never called -> "result": null *)
  tr_started : bool;           (* start() called -> "started"/"elapsed" not null *)
  tr_out : list N;
  tr_err : list N;
  tr_error : option N          (* "error": message of the failure (its kind), else null *)
}.
Definition fresh : trec := Build_trec None false [] [] None.

(* the JSON document (json.dump of a dict with keys tasks / out / err, 285-292) *)
Record jdoc := { d_tasks : list (name * trec); d_out : list chunk; d_err : list chunk }.

Inductive oitem := OChunk (c : chunk) | ODoc (d : jdoc).

(* ---------------- the process around the reporter ---------------- *)
Record world := mkW {
  w_stdout : list oitem;        (* what reached the real stdout of the doit process, in order *)
  w_stderr : list oitem;
  w_swapped : bool;             (* sys.stdout / sys.stderr are JsonReporter's StringIO objects (228-231) *)
  w_cap_out : list chunk;       (* their content *)
  w_cap_err : list chunk;
  w_lost : list (strm * chunk); (* written into a worker process's copy of those StringIOs: nobody reads it *)
  w_executed : list name        (* tasks with task.executed == True (action.out / action.err are set) *)
}.

Definition real_write (s : strm) (l : list oitem) (w : world) : world :=
  match s with
  | SOut => mkW (w_stdout w ++ l) (w_stderr w) (w_swapped w) (w_cap_out w) (w_cap_err w) (w_lost w) (w_executed w)
  | SErr => mkW (w_stdout w) (w_stderr w ++ l) (w_swapped w) (w_cap_out w) (w_cap_err w) (w_lost w) (w_executed w)
  end.
Definition cap_write (s : strm) (c : chunk) (w : world) : world :=
  match s with
  | SOut => mkW (w_stdout w) (w_stderr w) (w_swapped w) (w_cap_out w ++ [c]) (w_cap_err w) (w_lost w) (w_executed w)
  | SErr => mkW (w_stdout w) (w_stderr w) (w_swapped w) (w_cap_out w) (w_cap_err w ++ [c]) (w_lost w) (w_executed w)
  end.
Definition lost_write (s : strm) (c : chunk) (w : world) : world :=
  mkW (w_stdout w) (w_stderr w) (w_swapped w) (w_cap_out w) (w_cap_err w) (w_lost w ++ [(s, c)]) (w_executed w).
(* sys.stdout.write / sys.stderr.write: children of MRunner are forked after JsonReporter.__init__,
   so they inherit the swap but write into their own copy *)
Definition sys_write (s : strm) (p : place) (c : chunk) (w : world) : world :=
  if w_swapped w then match p with InMain => cap_write s c w | InWorker => lost_write s c w end
  else real_write s [OChunk c] w.
(* reporter.outstream: bound to the real stdout when the `run` command is built (cmd_run.py 34) *)
Definition out_write (l : list chunk) (w : world) : world := real_write SOut (map OChunk l) w.
Definition mark_exec (k : name) (w : world) : world :=
  mkW (w_stdout w) (w_stderr w) (w_swapped w) (w_cap_out w) (w_cap_err w) (w_lost w) (w_executed w ++ [k]).
Definition unswap (w : world) : world :=
  mkW (w_stdout w) (w_stderr w) false [] [] (w_lost w) (w_executed w).

(* ---------------- the reporter objects ---------------- *)
Inductive rkind := RConsole | RExecutedOnly | RZero | RErrorOnly | RJson.
Definition is_json (r : rkind) : bool := match r with RJson => true | _ => false end.

Record rep := mkR {
  rp_kind : rkind;
  rp_fv : N;                          (* failure_verbosity option *)
  rp_failures : list (name * N);      (* ConsoleReporter.failures *)
  rp_rt : list N;                     (* ConsoleReporter.runtime_errors *)
  rp_results : list (name * trec);    (* JsonReporter.t_results, a dict: insertion order, one entry per key *)
  rp_errors : list chunk;             (* JsonReporter.errors *)
  rp_crashed : bool                   (* a callback raised: KeyError (report about a task get_status was
                                         never called for) / AttributeError (complete_run called twice) *)
}.
Definition with_failures (r : rep) (f : list (name * N)) : rep :=
  mkR (rp_kind r) (rp_fv r) f (rp_rt r) (rp_results r) (rp_errors r) (rp_crashed r).
Definition with_rt (r : rep) (l : list N) : rep :=
  mkR (rp_kind r) (rp_fv r) (rp_failures r) l (rp_results r) (rp_errors r) (rp_crashed r).
Definition set_results (r : rep) (d : list (name * trec)) : rep :=
  mkR (rp_kind r) (rp_fv r) (rp_failures r) (rp_rt r) d (rp_errors r) (rp_crashed r).
Definition with_errors (r : rep) (l : list chunk) : rep :=
  mkR (rp_kind r) (rp_fv r) (rp_failures r) (rp_rt r) (rp_results r) l (rp_crashed r).
Definition crash (r : rep) : rep :=
  mkR (rp_kind r) (rp_fv r) (rp_failures r) (rp_rt r) (rp_results r) (rp_errors r) true.

(* Python dict with str keys *)
Fixpoint d_get (k : name) (d : list (name * trec)) : option trec :=
  match d with [] => None | (k', v) :: r => if N.eqb k k' then Some v else d_get k r end.
Fixpoint d_set (k : name) (v : trec) (d : list (name * trec)) : list (name * trec) :=
  match d with
  | [] => [(k, v)]
  | (k', v') :: r => if N.eqb k k' then (k, v) :: r else (k', v') :: d_set k v r
  end.
(* self.t_results[k].<method>(): KeyError when k is missing *)
Definition d_upd (r : rep) (k : name) (f : trec -> trec) : rep :=
  match d_get k (rp_results r) with
  | Some v => set_results r (d_set k (f v) (rp_results r))
  | None => crash r
  end.

Section Reporter.
Variable ti : name -> tattr.

(* fail.report of the object handed to add_failure(task k, fail): the failures the RUNNER creates (kind >= 2:
   UnmetDependency runner.py 136 / 175, DependencyError 144 / 182 / 210) are built with the default
   report=True; kind 0 / 1 (TaskFailed / TaskError) is what Task.execute returned (runner.py 196) *)
Definition fail_report (k : name) (kd : N) : bool := (2 <=? kd) || ta_report (ti k).

(* TaskResult.set_result 180-187: reads action.out / action.err of the task's actions (None before execution) *)
Definition set_result (w : world) (k : name) (res : jres) (err : option N) (v : trec) : trec :=
  let ex := mem k (w_executed w) in
  Build_trec (Some res) (tr_started v) (if ex then ta_out (ti k) else []) (if ex then ta_err (ti k) else []) err.
Definition start (v : trec) : trec := Build_trec (tr_result v) true (tr_out v) (tr_err v) (tr_error v).

(* JsonReporter (204-292) *)
Definition json_step (r : rep) (w : world) (c : call) : rep * world :=
  match c with
  | CInitialize => (r, w)                                                  (* no such method: run_all checks hasattr *)
  | CGetStatus k => (set_results r (d_set k fresh (rp_results r)), w)     (* 236-238 *)
  | CExecute k => (d_upd r k start, w)                                     (* 240-242 *)
  | CFailure k kd => (d_upd r k (set_result w k JFail (Some kd)), w)       (* 244-246: fail.report is NOT read *)
  | CSuccess k => (d_upd r k (set_result w k JSuccess None), w)            (* 248-250 *)
  | CSkipUpToDate k => (d_upd r k (set_result w k JUpToDate None), w)      (* 252-254 *)
  | CSkipIgnore k => (d_upd r k (set_result w k JIgnore None), w)          (* 256-258 *)
  | CCleanupError k => (with_errors r (rp_errors r ++ [Line (LCleanupMsg k)]), w)   (* 260-262 *)
  | CRuntimeError m => (with_errors r (rp_errors r ++ [Line (LRuntime m)]), w)      (* 264-266 *)
  | CTeardown _ => (r, w)
  | CCompleteRun =>                                                        (* 272-292 *)
      if w_swapped w then
        let doc := {| d_tasks := rp_results r; d_out := w_cap_out w; d_err := w_cap_err w ++ rp_errors r |} in
        (r, real_write SOut [ODoc doc] (unswap w))
      else (crash r, w)          (* sys.stdout is a real stream again: no getvalue() *)
  | CWrite _ _ _ => (r, w)
  end.

(* ConsoleReporter.complete_run 89-114, one entry of self.failures *)
Definition summary_one (fv : N) (w : world) (f : name * N) : list chunk :=
  let (k, kd) := f in
  if negb (mem k (w_executed w)) then [] else
  let v := ta_verb (ti k) in
  let show_err := (v <? 1) || (0 <? fv) in
  let show_out := (v <? 2) || (fv =? 2) in
  (if show_err || show_out then [Line LSep] else []) ++
  (if show_err then Line (LSumFail k kd) :: Line (LSumErr k) :: map Raw (ta_err (ti k)) else []) ++
  (if show_out then Line (LSumOut k) :: map Raw (ta_out (ti k)) else []).
Definition summary (r : rep) (w : world) : list chunk :=
  flat_map (summary_one (rp_fv r) w) (rp_failures r) ++
  (if is_nil (rp_rt r) then [] else Line LSep :: Line LAborted :: map (fun m => Line (LRuntime m)) (rp_rt r)).

(* ConsoleReporter (12-114); ExecutedOnlyReporter (117-131) overrides the two skip_* methods *)
Definition console_step (r : rep) (w : world) (c : call) : rep * world :=
  match c with
  | CInitialize | CGetStatus _ | CSuccess _ | CTeardown _ | CWrite _ _ _ => (r, w)
  | CExecute k =>
      (r, if ta_actions (ti k) && negb (ta_private (ti k)) then out_write [Line (LExec k)] w else w)
  | CFailure k kd =>       (* 47-52: `if fail.report:` append to self.failures and _write_failure; else nothing *)
      if fail_report k kd
      then (with_failures r (rp_failures r ++ [(k, kd)]), out_write [Line (LFail k kd)] w)
      else (r, w)
  | CSkipUpToDate k =>
      (r, match rp_kind r with
          | RConsole => if negb (ta_private (ti k)) then out_write [Line (LUpToDate k)] w else w
          | _ => w end)
  | CSkipIgnore k =>
      (r, match rp_kind r with RConsole => out_write [Line (LIgnore k)] w | _ => w end)
  | CCleanupError k => (r, sys_write SErr InMain (Line (LCleanupMsg k)) w)       (* 67-69: sys.stderr.write *)
  | CRuntimeError m => (with_rt r (rp_rt r ++ [m]), w)
  | CCompleteRun => (r, out_write (summary r w) w)
  end.

(* ZeroReporter (134-147), ErrorOnlyReporter (150-159) *)
Definition zero_step (r : rep) (w : world) (c : call) : rep * world :=
  match c with
  | CCleanupError k => (r, sys_write SErr InMain (Line (LCleanupMsg k)) w)       (* inherited *)
  | CRuntimeError m => (r, sys_write SErr InMain (Line (LRuntime m)) w)          (* 146-147 *)
  | CFailure k kd =>       (* ZeroReporter: _just_pass; ErrorOnlyReporter 153-159: `if not fail_info.report: return` *)
      (r, match rp_kind r with
          | RErrorOnly => if fail_report k kd then out_write [Line (LEFail k kd)] w else w
          | _ => w end)
  | _ => (r, w)
  end.

Definition rep_step (r : rep) (w : world) (c : call) : rep * world :=
  match rp_kind r with
  | RJson => json_step r w c
  | RConsole | RExecutedOnly => console_step r w c
  | RZero | RErrorOnly => zero_step r w c
  end.

(* one element of the input: a callback (dispatched on the reporter's class) or a write;
   Task.execute (task.py 487-499) sets task.executed right after reporter.execute_task returned *)
Definition step (st : rep * world) (c : call) : rep * world :=
  let (r, w) := st in
  match c with
  | CWrite s p t => (r, sys_write s p (Raw t) w)
  | CExecute k => let (r', w') := rep_step r w c in (r', mark_exec k w')
  | _ => rep_step r w c
  end.

Definition run (st : rep * world) (cs : list call) : rep * world := fold_left step cs st.

(* ---------------- how the runners drive the reporter ---------------- *)
(* python-action / teardown action echoing its output: Stream._get_out_err (task.py 84-97):
   verbosity 0 nothing, 1 stderr, 2 stdout and stderr *)
Definition echo (p : place) (v : N) (out err : list N) : list call :=
  (if 2 <=? v then map (CWrite SOut p) out else []) ++ (if 1 <=? v then map (CWrite SErr p) err else []).

Section Drive.
Variable proc : bool.        (* MRunner with processes: actions and teardowns run in a child *)
Definition where_ : place := if proc then InWorker else InMain.

(* Runner.teardown 248-256 for one task, without the error report *)
Definition td_calls (k : name) : list call :=
  CTeardown k :: echo where_ (ta_verb (ti k)) (ta_td_out (ti k)) (ta_td_err (ti k)).

(* tokens DoitMain.run writes to sys.stderr after run_all: 0 = "ERROR: <InvalidDodoFile>" (303),
   1 = traceback of a KeyboardInterrupt nobody catches, 2 = traceback of an unexpected exception (309) *)
Definition tok_error : N := 0.
Definition tok_interrupt : N := 1.
Definition tok_crash : N := 2.

Definition cb (e : event) : list call :=
  match e with
  | EGetStatus k => [CGetStatus k]
  | ESkipIgnore k => [CSkipIgnore k]
  | ESkipUpToDate k => [CSkipUpToDate k]
  | EFailure k kd => [CFailure k kd]
  | EExecute k => CExecute k :: echo where_ (ta_verb (ti k)) (ta_out (ti k)) (ta_err (ti k))
  | ESuccess k => [CSuccess k]
  | ESave _ | ERemove _ | EClose => []          (* dep_manager, not the reporter *)
  | ETeardown k => td_calls k ++ (if ta_td_fail (ti k) then [CCleanupError k] else [])
  | ECycleError _ | EHoldError => [CWrite SErr InMain tok_error]
  | EInterrupt _ => [CWrite SErr InMain tok_interrupt]
  end.

(* Runner.finish 259-267 after dep_manager.close(): self.teardown(); reporter.complete_run();
   whatever follows in the runner's trace is the exception that leaves run_all *)
Fixpoint finish_calls (rest : list event) : list call :=
  match rest with
  | ETeardown k :: r => cb (ETeardown k) ++ finish_calls r
  | r => CCompleteRun :: flat_map cb r
  end.

(* a teardown that fails inside a worker process (MRunner): Runner.teardown calls
   self.reporter.cleanup_error(SetupError) on the MReporter, which forwards
   {'reporter': 'cleanup_error', 'cleanup_error': exc} through the result queue (MReporter.cleanup_error
   345-351); both result loops of MRunner.run_tasks (511-513, 549-551) hand it to the real reporter:
   the same callback as in the serial runner, so [cb] needs no case distinction *)
Fixpoint calls_of (tr : list event) : list call :=
  match tr with
  | [] => []
  | EClose :: rest => finish_calls rest
  | e :: rest => cb e ++ calls_of rest
  end.

(* doit before commit dcd2dce (kept for the witness C19_proc_teardown_error_legacy_refuted only): the
   forwarding method of MReporter did `task.name` on the exception -> AttributeError -> the worker
   reported {'exit': ...} and died; the main process found that message while draining the queue,
   `assert 'reporter' in result` failed, run_all's finally ran finish() (nothing left to tear down in
   the main process), DoitMain.run printed the traceback of the AssertionError: exit code 3 *)
Definition crash_calls : list call := [CCompleteRun; CWrite SErr InMain tok_crash].
Fixpoint calls_of_legacy (tr : list event) : list call :=
  match tr with
  | [] => []
  | EClose :: rest => finish_calls rest
  | ETeardown k :: rest =>
      if proc && ta_td_fail (ti k) then td_calls k ++ crash_calls
      else cb (ETeardown k) ++ calls_of_legacy rest
  | e :: rest => cb e ++ calls_of_legacy rest
  end.
End Drive.

Definition init (kind : rkind) (fv : N) : rep * world :=
  (mkR kind fv [] [] [] [] false, mkW [] [] (is_json kind) [] [] [] []).   (* JsonReporter.__init__ swaps *)

(* a whole `doit run` with reporter [kind]: run_all calls initialize (if present), then the runner *)
Definition report (proc : bool) (kind : rkind) (fv : N) (tr : list event) : rep * world :=
  run (init kind fv) (CInitialize :: calls_of proc tr).
End Reporter.

(* reporter / dep_manager events of a parallel run, in the order the main process made them *)
Definition events_of (log : list pevent) : list event :=
  flat_map (fun e => match e with PE e' => [e'] | _ => [] end) log.

Definition report_serial tasks wake_rank calc_rank continue_ always fuel sel ti kind fv : (rep * world) * N :=
  let res := run_serial tasks wake_rank calc_rank continue_ always fuel sel in
  (report ti false kind fv (fst res), snd res).
Definition report_parallel tasks wake_rank calc_rank continue_ always proc fuel nprocs sched sel ti kind fv : (rep * world) * N :=
  let res := run_parallel tasks wake_rank calc_rank continue_ always proc fuel nprocs sched sel in
  (report ti proc kind fv (events_of (fst res)), snd res).

(* ---------------- encoding for the correspondence check ---------------- *)
(* every chunk is one number: code * 10^6 + a * 10^3 + b *)
Definition pack (c a b : N) : Z := zN (c * 1000000 + a * 1000 + b).
Definition enc_line (l : cline) : Z :=
  match l with
  | LExec k => pack 10 k 0 | LUpToDate k => pack 11 k 0 | LIgnore k => pack 12 k 0
  | LFail k kd => pack 13 k kd | LEFail k kd => pack 14 k kd | LSep => pack 15 0 0
  | LSumFail k kd => pack 16 k kd | LSumErr k => pack 17 k 0 | LSumOut k => pack 18 k 0
  | LAborted => pack 19 0 0 | LRuntime m => pack 20 m 0 | LCleanupMsg k => pack 21 k 0
  end.
Definition enc_chunk (c : chunk) : Z := match c with Raw t => pack 1 t 0 | Line l => enc_line l end.
Definition enc_res (r : option jres) : Z :=
  match r with None => 0 | Some JSuccess => 1 | Some JFail => 2 | Some JUpToDate => 3 | Some JIgnore => 4 end%Z.
Definition enc_rec (kv : name * trec) : list Z :=
  let (k, v) := kv in
  [30; zN k; enc_res (tr_result v); zb (tr_started v); match tr_error v with None => 0 | Some _ => 1 end;
   znat (length (tr_out v))]%Z ++ map zN (tr_out v) ++ [znat (length (tr_err v))] ++ map zN (tr_err v).

Fixpoint insert_z (x : Z) (l : list Z) : list Z :=
  match l with [] => [x] | y :: r => if Z.leb x y then x :: l else y :: insert_z x r end.
Definition sort_z (l : list Z) : list Z := fold_right insert_z [] l.
Fixpoint insert_rec (x : name * trec) (l : list (name * trec)) : list (name * trec) :=
  match l with [] => [x] | y :: r => if N.leb (fst x) (fst y) then x :: l else y :: insert_rec x r end.
Definition sort_rec (l : list (name * trec)) : list (name * trec) := fold_right insert_rec [] l.

(* [canon] = false: exact order (serial runner); true: tasks by name, every stream as a sorted bag
   (parallel runners: the order of arrival is not an input of the case) *)
Definition ord (canon : bool) (l : list Z) : list Z := if canon then sort_z l else l.
Definition enc_doc (canon : bool) (d : jdoc) : list Z :=
  [50]%Z ++ flat_map enc_rec (if canon then sort_rec (d_tasks d) else d_tasks d) ++
  [51]%Z ++ ord canon (map enc_chunk (d_out d)) ++ [52]%Z ++ ord canon (map enc_chunk (d_err d)) ++ [53]%Z.
(* a stream: the chunks outside any document, then the documents *)
Definition chunks_of (l : list oitem) : list chunk := flat_map (fun i => match i with OChunk c => [c] | _ => [] end) l.
Definition docs_of (l : list oitem) : list jdoc := flat_map (fun i => match i with ODoc d => [d] | _ => [] end) l.
Fixpoint enc_items (l : list oitem) : list Z :=
  match l with [] => [] | OChunk c :: r => enc_chunk c :: enc_items r | ODoc d :: r => enc_doc false d ++ enc_items r end.
Definition enc_stream (canon : bool) (l : list oitem) : list Z :=
  if canon then sort_z (map enc_chunk (chunks_of l)) ++ flat_map (enc_doc true) (docs_of l) else enc_items l.
Definition enc_world (canon : bool) (st : rep * world) : list Z :=
  [60]%Z ++ enc_stream canon (w_stdout (snd st)) ++ [61]%Z ++ enc_stream canon (w_stderr (snd st)) ++
  [62; zb (rp_crashed (fst st))]%Z.
Definition enc_report (canon : bool) (x : (rep * world) * N) : list Z := enc_world canon (fst x) ++ [-1; zN (snd x)]%Z.
