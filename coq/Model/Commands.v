(* Commands.v -- model of the three DB-maintenance commands and of the helpers they share:
     doit/cmd_forget.py   Forget._execute            (42-71)
     doit/cmd_ignore.py   Ignore._execute            (10-33)
     doit/cmd_resetdep.py ResetDep._execute          (29-72)  (per-task body: Status.reset_dep)
     doit/cmd_base.py     DoitCmdBase.execute        (533-534: sel_default_tasks / sel_tasks)
                          check_tasks_exist          (577-586)
                          tasks_and_deps_iter        (590-608)
                          subtasks_iter              (611-619)
   on top of Status.v (Dependency.remove / remove_all / ignore / get_status / save_success).
   The last part ties the DB a command leaves to the next `doit run`: the Dispatch.v/Runner.v task
   table whose per-task oracles (status_is_ignore, get_status) are read from that DB.
   Definitions only.

   Conventions
   * a task name is a number; a name given on the command line that is not a task is a number that
     is not a key of the table.
   * [table] = self.task_list as the LOADER returns it (forget/ignore/reset-dep never build a
     TaskControl): task_dep holds the explicit names plus, for a group task, the names of its
     sub-tasks; wild-card and implicit (file_dep on a target) dependencies are NOT in it, and
     nobody checked that the names in task_dep / setup exist: `tasks[name]` on such a name raises
     KeyError, an explicit outcome here ([CKeyError]).
   * `tasks = dict([(t.name, t) for t in self.task_list])`: with a repeated name the LAST entry wins
     ([lookup]); loops over self.task_list itself see every entry.
   * every backend keeps `set` in memory until close() (JsonDB._db, DbmDB.dirty, SqliteDB._dirty):
     a command that dies from an exception before dep_manager.close() persists none of its marks;
     the three commands compute their task list completely before the first removal. Hence the
     DB is unchanged in every outcome other than [COk] / [CCrash]. *)
From DoitV Require Export Base Status History.
From DoitV Require Dispatch Runner.
Open Scope Z_scope.

Record ctask := {
  c_task_dep : list name;        (* Task.task_dep *)
  c_setup : list name;           (* Task.setup_tasks *)
  c_calc_dep : list name;        (* Task.calc_dep: not read by the commands (FIXME cmd_base.py 603); used by the next run *)
  c_subtask_of : option name;    (* Task.subtask_of *)
  c_def : tdef                   (* what Dependency looks at *)
}.
Definition table := list (name * ctask).

(* dict([(t.name, t) for t in task_list])[n]: the last entry with that name *)
Fixpoint lookup (tb : table) (n : name) : option ctask :=
  match tb with
  | [] => None
  | (k, c) :: r => match lookup r n with
                   | Some c' => Some c'
                   | None => if N.eqb k n then Some c else None
                   end
  end.
Definition names (tb : table) : list name := map fst tb.

(* ---- cmd_base.py 533-534 ---- *)
(* self.sel_tasks = args or params.get('default_tasks');  None = no default_tasks configured *)
Definition sel_tasks (args : list name) (default_tasks : option (list name)) : option (list name) :=
  match args with [] => default_tasks | _ => Some args end.
Definition sel_default_tasks (args : list name) : bool := is_nil args.

(* ---- check_tasks_exist (577-586): the first name that is not a task -> InvalidCommand ---- *)
Fixpoint first_unknown (tb : table) (l : list name) : option name :=
  match l with
  | [] => None
  | n :: r => match lookup tb n with None => Some n | Some _ => first_unknown tb r end
  end.
Definition check_tasks_exist (tb : table) (sel : option (list name)) : option name :=
  match sel with None => None | Some l => first_unknown tb l end.     (* `if not name_list: return` *)

(* ---- subtasks_iter (611-619): None = KeyError on a task_dep that names no task ---- *)
Definition opt_name_eqb (a : option name) (b : name) : bool :=
  match a with Some x => N.eqb x b | None => false end.
Fixpoint subtasks_of (tb : table) (me : name) (deps : list name) : option (list name) :=
  match deps with
  | [] => Some []
  | x :: r =>
      match lookup tb x with
      | None => None
      | Some cx =>
          match subtasks_of tb me r with
          | None => None
          | Some l => Some (if opt_name_eqb (c_subtask_of cx) me then x :: l else l)
          end
      end
  end.
Definition subtasks_iter (tb : table) (me : name) (c : ctask) : option (list name) :=
  subtasks_of tb me (c_task_dep c).

(* ---- tasks_and_deps_iter (590-608) ----
   [processed] set, [to_process] deque, [out] = what was yielded so far (in order).
   inner `for task_dep in task.task_dep + task.setup_tasks` : *)
Fixpoint deps_loop (tb : table) (dup : bool) (deps processed to_process out : list name)
  : option (list name * list name) :=
  match deps with
  | [] => Some (to_process, out)
  | d :: r =>
      if negb (mem d processed) && negb (mem d to_process)
      then deps_loop tb dup r processed (to_process ++ [d]) out
      else if dup then
             match lookup tb d with                      (* yield tasks[task_dep] *)
             | None => None
             | Some _ => deps_loop tb dup r processed to_process (out ++ [d])
             end
           else deps_loop tb dup r processed to_process out
  end.
Inductive iter_res := IOk (l : list name) | IKeyError | IFuel.
Fixpoint tdi (fuel : nat) (tb : table) (dup : bool) (processed to_process out : list name) : iter_res :=
  match to_process with
  | [] => IOk out
  | x :: rest =>
      match fuel with
      | O => IFuel
      | S fuel' =>
          match lookup tb x with
          | None => IKeyError                             (* tasks[to_process.popleft()] *)
          | Some c =>
              let processed' := x :: processed in
              match deps_loop tb dup (c_task_dep c ++ c_setup c) processed' rest (out ++ [x]) with
              | None => IKeyError
              | Some (tp, out') => tdi fuel' tb dup processed' tp out'
              end
          end
      end
  end.
(* every pop adds a name to [processed] and a name is appended only when it is neither processed nor
   queued: at most |sel| + |table| pops (CommandsP.tdi_fuel_enough) *)
Definition tdi_fuel (tb : table) (sel : list name) : nat := S (length sel + length tb).
Definition tasks_and_deps_iter (tb : table) (sel : list name) (dup : bool) : iter_res :=
  tdi (tdi_fuel tb sel) tb dup [] sel [].

(* ---- outcome of a command ---- *)
Inductive cres :=
| COk                    (* ran to dep_manager.close() *)
| CNoTask                (* a message only ("no tasks specified ...", "You cant ignore all tasks!") *)
| CInvalid (n : name)    (* InvalidCommand "'n' is not a task." *)
| CKeyError              (* KeyError escaped (a task_dep / setup name that is no task) *)
| CFuel                  (* model artefact, never with tdi_fuel *)
| CCrash.                (* a TypeError escaped: the one of Status.v from reset-dep; legacy forget *)
(* [co_log]: the lines written, in order: (task, 0) "forgetting/ignoring task";
   reset-dep (task, 0 failed | 1 skip | 2 processed) *)
Record cmd_out := { co_res : cres; co_log : list (name * Z); co_db : db }.
Definition fail_out (r : cres) (d : db) : cmd_out := {| co_res := r; co_log := []; co_db := d |}.

(* ---- forget (cmd_forget.py 42-71) ---- *)
Record fopts := { fo_sub : bool; fo_disable_default : bool; fo_all : bool }.

(* `for name in forget_list: task = tasks[name]; to_forget.append(task); to_forget.extend(subtasks_iter(tasks, task))` *)
Fixpoint named_with_subs (tb : table) (l : list name) : option (list name) :=
  match l with
  | [] => Some []
  | n :: r =>
      match lookup tb n with
      | None => None
      | Some c =>
          match subtasks_iter tb n c, named_with_subs tb r with
          | Some s, Some l' => Some (n :: s ++ l')
          | _, _ => None
          end
      end
  end.
(* no task named and no default_tasks: `[t.name for t in self.task_list if not t.subtask_of]` *)
Definition top_level (tb : table) : list name :=
  map fst (filter (fun e => match c_subtask_of (snd e) with None => true | Some _ => false end) tb).
Definition forget_list (tb : table) (args : list name) (dflt : option (list name)) : list name :=
  match sel_tasks args dflt with Some l => l | None => top_level tb end.
Definition to_forget (tb : table) (sub : bool) (fl : list name) : iter_res :=
  if sub then tasks_and_deps_iter tb fl true
  else match named_with_subs tb fl with Some l => IOk l | None => IKeyError end.
Definition remove_list (d : db) (l : list name) : db := fold_left remove l d.

(* [fixF]: the code version.  true = the code in /repo (HEAD, after `fix:` d496796); false = the code
   before it, where `forget_list = self.sel_tasks` stayed None when no task was named and no
   default_tasks is configured, and iterating it raised TypeError (kept so that the defect stays
   stated: Properties/C13.v, C13_forget_no_default_legacy_refuted) *)
Definition forget_v (fixF : bool) (tb : table) (args : list name) (dflt : option (list name)) (o : fopts) (d : db) : cmd_out :=
  if fo_all o then {| co_res := COk; co_log := []; co_db := remove_all d |}          (* "forgetting all tasks" *)
  else if sel_default_tasks args && fo_disable_default o then fail_out CNoTask d
  else match check_tasks_exist tb (sel_tasks args dflt) with
       | Some bad => fail_out (CInvalid bad) d
       | None =>
           if negb fixF && match sel_tasks args dflt with None => true | Some _ => false end
           then fail_out CCrash d
           else
           match to_forget tb (fo_sub o) (forget_list tb args dflt) with
           | IOk l => {| co_res := COk; co_log := map (fun n => (n, 0)) l; co_db := remove_list d l |}
           | IKeyError => fail_out CKeyError d
           | IFuel => fail_out CFuel d
           end
       end.
Definition forget := forget_v true.

(* ---- ignore (cmd_ignore.py 10-33) ---- *)
Definition ignore_list (d : db) (l : list name) : db := fold_left ignore l d.
(* `for task_name in ignore_tasks: sub_list = [...subtasks_iter...]; for to_ignore in [task_name] + sub_list: ignore` --
   the list of tasks marked, None when a KeyError escapes (then close() is not reached) *)
Definition to_ignore (tb : table) (args : list name) : option (list name) := named_with_subs tb args.
(* the sub-task list of each named task is computed when its turn comes: when a KeyError escapes, the
   names before it were already marked (in memory only) and their lines written *)
Fixpoint ignored_before_error (tb : table) (l : list name) : list name :=
  match l with
  | [] => []
  | n :: r =>
      match lookup tb n with
      | None => []
      | Some c => match subtasks_iter tb n c with
                  | Some s => n :: s ++ ignored_before_error tb r
                  | None => []
                  end
      end
  end.
Definition ignore_cmd (tb : table) (args : list name) (d : db) : cmd_out :=
  match args with
  | [] => fail_out CNoTask d
  | _ =>
      match first_unknown tb args with
      | Some bad => fail_out (CInvalid bad) d
      | None =>
          match to_ignore tb args with
          | Some l => {| co_res := COk; co_log := map (fun n => (n, 0)) l; co_db := ignore_list d l |}
          | None => {| co_res := CKeyError; co_log := map (fun n => (n, 0)) (ignored_before_error tb args); co_db := d |}
          end
      end
  end.

Section Cmds.
Variable md5 : N -> N.
Variable v : ver.

(* ---- reset-dep (cmd_resetdep.py 29-72) ---- *)
(* the Task objects the loop runs over: named tasks each followed by its sub-tasks, or self.task_list *)
Fixpoint with_defs (tb : table) (l : list name) : option (list (name * tdef)) :=
  match l with
  | [] => Some []
  | n :: r => match lookup tb n, with_defs tb r with
              | Some c, Some l' => Some ((n, c_def c) :: l')
              | _, _ => None
              end
  end.
Definition resetdep_tasks (tb : table) (args : list name) : option (list (name * tdef)) :=
  match args with
  | [] => Some (map (fun e => (fst e, c_def (snd e))) tb)
  | _ => match named_with_subs tb args with Some l => with_defs tb l | None => None end
  end.
(* the loop; a TypeError (code 98) ends it *)
Fixpoint resetdep_loop (c : ck) (fs : fsys) (l : list (name * tdef)) (d : db) (log : list (name * Z)) : cmd_out :=
  match l with
  | [] => {| co_res := COk; co_log := log; co_db := d |}
  | (n, df) :: r =>
      let '(d', code) := reset_dep md5 v c fs d n df in
      if code =? 98 then {| co_res := CCrash; co_log := log; co_db := d' |}
      else resetdep_loop c fs r d' (log ++ [(n, code)])
  end.
Definition resetdep_cmd (c : ck) (fs : fsys) (tb : table) (args : list name) (d : db) : cmd_out :=
  match (match args with [] => None | _ => first_unknown tb args end) with
  | Some bad => fail_out (CInvalid bad) d
  | None =>
      match resetdep_tasks tb args with
      | None => fail_out CKeyError d
      | Some l => resetdep_loop c fs l d []
      end
  end.

(* ---- the next `doit run` on the DB a command left ----
   [rt]: the task table as TaskControl.__init__ leaves it (implicit task_dep added).  Each task's
   oracles of Dispatch.v are read from the DB: t_dbignore = status_is_ignore, t_check = get_status.
   (The actions of every task of these runs succeed and no task has a result_dep item, so a verdict
   depends on the task's own record only -- StatusP.get_status_uptodate_frame.) *)
Definition check_of (s : Status.status) : Dispatch.check :=
  match s with
  | Status.UpToDate => Dispatch.CkUpToDate
  | Status.Run => Dispatch.CkRun
  | Status.Error => Dispatch.CkError
  | Status.Crash => Dispatch.CkError        (* excluded: never on a typed DB (C03_no_typeerror) *)
  end.
(* what recording the success of an executed task ends in (runner.py 177-192): save_success meets a
   missing file dependency (get_status left early: an item was false, a target is missing ...) ->
   DependencyError *)
Definition outcome_of (c : ck) (fs : fsys) (d : db) (n : name) (df : tdef) : Dispatch.outcome :=
  match snd (process_success md5 v c fs (g_db (get_status md5 v c fs d n df false)) n df) with
  | SaveDone => Dispatch.OOk
  | SaveMissing _ => Dispatch.OSaveErr
  | SaveCrash => Dispatch.OError              (* excluded, as above *)
  end.
Definition rtask_of (c : ck) (fs : fsys) (d : db) (n : name) (ct : ctask) : Dispatch.task :=
  Dispatch.Build_task (c_task_dep ct) (c_setup ct) (c_calc_dep ct) false
    (status_is_ignore d n)
    (check_of (g_status (get_status md5 v c fs d n (c_def ct) false)))
    false (outcome_of c fs d n (c_def ct)) [] [] [].
Definition run_table (c : ck) (fs : fsys) (d : db) (rt : table) : name -> option Dispatch.task :=
  fun n => match lookup rt n with Some ct => Some (rtask_of c fs d n ct) | None => None end.
Definition next_run (wake_rank : name -> name -> N) (calc_rank : name -> N)
           (c : ck) (fs : fsys) (d : db) (rt : table) (cont always : bool) (fuel : nat) (sel : list name)
  : list Runner.event * N :=
  Runner.run_serial (run_table c fs d rt) wake_rank calc_rank cont always fuel sel.

End Cmds.

(* no command between two runs (`doit run` twice in a row): the DB is what the first run left *)
Definition no_cmd (d : db) : cmd_out := fail_out COk d.

(* ---- "T, its sub-tasks and every task depending on them": the tasks the mark reaches in the table of
   the run -- a task marked in the DB, and every task with a task_dep (sub-tasks of a group, implicit
   dependencies through targets: TaskControl put them there) or calc_dep on a task the mark reaches ---- *)
Inductive ignored_by (d : db) (rt : table) : name -> Prop :=
| ib_mark k ct : lookup rt k = Some ct -> status_is_ignore d k = true -> ignored_by d rt k
| ib_dep k ct x : lookup rt k = Some ct -> In x (c_task_dep ct ++ c_calc_dep ct) -> ignored_by d rt x -> ignored_by d rt k.
(* ... and a task that has one of those as a setup-task (not reported as ignored when it is up-to-date) *)
Definition setup_ignored_by (d : db) (rt : table) (k : name) : Prop :=
  exists ct x, lookup rt k = Some ct /\ In x (c_setup ct) /\ ignored_by d rt x.

(* ---- what a trace says about one task ---- *)
Definition ev_bit (k : name) (e : Runner.event) : Z :=
  match e with
  | Runner.EExecute x => if N.eqb x k then 1 else 0
  | Runner.ESkipUpToDate x => if N.eqb x k then 2 else 0
  | Runner.ESkipIgnore x => if N.eqb x k then 4 else 0
  | Runner.EFailure x _ => if N.eqb x k then 8 else 0
  | Runner.ESuccess x => if N.eqb x k then 16 else 0
  | _ => 0
  end.
Definition outcome_z (tr : list Runner.event) (k : name) : Z :=
  fold_left (fun acc e => Z.lor acc (ev_bit k e)) tr 0.
Definition executed_in (tr : list Runner.event) (k : name) : Prop := In (Runner.EExecute k) tr.

(* ---- encodings for the correspondence check ---- *)
Definition cres_z (r : cres) : Z :=
  match r with COk => 0 | CNoTask => 1 | CInvalid n => 100 + zN n | CKeyError => 97 | CFuel => 99 | CCrash => 98 end.
Definition log_pairs_z (l : list (name * Z)) : list Z := flat_map (fun p => [zN (fst p); snd p]) l.
(* a DB read back from a backend: list of (task, record); files of a record: list of (file, state) *)
Fixpoint saved_of (l : list (file * fstate)) : file -> option fstate :=
  match l with [] => fun _ => None | (f, s) :: r => upd (saved_of r) f (Some s) end.
Fixpoint db_of (l : list (name * rec)) : db :=
  match l with [] => empty_db | (t, r) :: rest => upd (db_of rest) t (Some r) end.
Definition fs_of (l : list (file * meta)) : fsys :=
  fun f => match find (fun p => N.eqb (fst p) f) l with Some p => Some (snd p) | None => None end.
(* result of a command, its lines and the logical DB content afterwards *)
Definition observe_db (tasks : list name) (files : list file) (o : cmd_out) : list Z :=
  [cres_z (co_res o)] ++ log_pairs_z (co_log o) ++ [-7] ++ db_z tasks files (co_db o).
(* ... and what the next run does with each task, and its exit code.  The run is `doit run` with the
   options that interact with the saved state: the selection [sel] (names given on the command line),
   --continue [cont], --always-execute [always].
   * with --continue (or when the run ends with exit code 0) the bit masks are those of the model run.
   * without --continue a run that meets a failure stops there, and WHICH tasks were gone through before
     depends on the iteration order of Python sets (oracles wake_rank / calc_rank, not observed by
     this check): then every task the real run reported ([obs]: its masks, 0 = nothing reported) must have
     the mask of the --continue run (per-task outcomes do not depend on the order: C08), and the
     exit code must be the model's (only DependencyError / UnmetDependency failures occur in these
     runs -- every action succeeds -- so it is 2 whichever failure came first). *)
Fixpoint mask_by (m obs : list Z) : list Z :=
  match m, obs with
  | x :: m', o :: obs' => (if o =? 0 then 0 else x) :: mask_by m' obs'
  | _, _ => []
  end.
Definition observe_cmd (md5 : N -> N) (tasks : list name) (files : list file)
           (c : ck) (fs : fsys) (rt : table) (sel : list name) (cont always : bool) (obs : list Z) (o : cmd_out) : list Z :=
  observe_db tasks files o ++ [-7] ++
  (let '(tr, code) := next_run md5 current (fun _ _ => 0%N) (fun _ => 0%N) c fs (co_db o) rt cont always 4000 sel in
   if cont || N.eqb code 0 then map (outcome_z tr) tasks ++ [zN code]
   else let '(trc, _) := next_run md5 current (fun _ _ => 0%N) (fun _ => 0%N) c fs (co_db o) rt true always 4000 sel in
        mask_by (map (outcome_z trc) tasks) obs ++ [zN code]).
