(* Loader.v -- model of doit/loader.py (load_tasks, generate_tasks, flat_generator,
   _generate_task_from_yield / _generate_task_from_return), doit/task.py (dict_to_task,
   Task.__init__ with check_attr / valid_attr, _init_deps, _init_getargs, _init_uptodate,
   _init_targets, create_action for clean/teardown) and doit/control.py (TaskControl.__init__:
   unique names, wild-card expansion, _check_dep_names, set_implicit_deps).  Definitions only.

   Python values are modelled by a tagged tree [val] that decides every isinstance / `is` /
   `in` / len / iteration / hashing the code performs on user input.  The outcome of loading is
   [Ok tasks | Invalid exc | Crash exc]; Crash = a Python exception that is not one of doit's
   user-error classes escapes (TypeError, IndexError, KeyError, AttributeError).  Those places
   are modelled as they are in the code, not as they should be.

   Three states of the code are modelled, selected by [level]:
     L0  the code as first received (check_attr compared literals with ==, no calc_dep check);
     L1  after the repairs of check_attr and of the dangling calc_dep;
     L2  the current code: after the six repairs of loader.py / task.py made for this property
         (getargs default and uptodate copy; task names in task_dep/setup/calc_dep; getargs values;
         uptodate tuples; str basename/name; no silent replacement inside a generator).
   Theorems are about L2; what L0/L1 did is kept as `_legacy_refuted` statements.

   Oracles (Section variables): [fmt] = str.format of a non-str value inside the f-string that
   builds `basename:name` (loader.py 335); [fnmatch] = fnmatch.fnmatch (control.py 140).

   _get_task_creators + the sort by definition line (loader.py 148-150, 234-280) are modelled at the end
   of the file ([entry], [get_task_creators], [sort_by_line], [load_namespace]): which objects of the
   namespace are task-creators and under which name is decided by the model; the line number
   `inspect.getsourcelines(ref)[1]` of each is an input.  [load] / [load_tasks] take the already
   ordered list of creators.

   The value a creator gives BEFORE generate_tasks has looked at it is [pyres] (any Python value, the falsy ones
   {} [] () '' 0 0.0 False included); [classify] is the chain of isinstance tests that turns it into an [item];
   generate_tasks_py / load_py are generate_tasks / load on these values.

   Not modelled: @task_params / creator_params, the `doc` attribute beyond its type check (the
   creator docstring put into the dict is a str or None, always valid), lazily created `actions`
   instances (created at execution, not at load), result_dep objects given by the user in
   `uptodate`, BaseAction instances given in clean/teardown. *)
From Coq Require Export String Ascii.
From DoitV Require Export Base.
Open Scope Z_scope.

(* ------------------------------------------------------------------ Python values *)
Inductive val :=
| VStr (s : string) | VPath (s : string)                       (* str, pathlib.PurePath *)
| VList (l : list val) | VTuple (l : list val) | VDict (kv : list (val * val))
| VTrue | VFalse | VNone | VInt (n : Z) | VFloat (n : Z)       (* VFloat n = float(n) *)
| VFun (id : N) | VClass (id : N) | VBuiltin (id : N)          (* plain function, class, builtin function: identity = id *)
| VOther (id : N).                                             (* object(): truthy, hashable, no len, not iterable, not callable *)

Definition truthy (v : val) : bool :=
  match v with
  | VStr s => negb (String.eqb s EmptyString)
  | VList l | VTuple l => negb (is_nil l)
  | VDict kv => negb (is_nil kv)
  | VFalse | VNone => false
  | VInt n | VFloat n => negb (n =? 0)
  | _ => true
  end.

Fixpoint hashable (v : val) : bool :=
  match v with
  | VList _ | VDict _ => false
  | VTuple l => forallb hashable l
  | _ => true
  end.

Definition num_of (v : val) : option Z :=
  match v with VTrue => Some 1 | VFalse => Some 0 | VInt n | VFloat n => Some n | _ => None end.

(* Python `==` (also what `x in list` and dict lookup use).  Numbers compare by value across
   bool/int/float; objects by identity; dict equality is modelled on the association list
   (Python ignores the order -- only reachable by a dict placed inside `setup`). *)
Fixpoint veq (a b : val) {struct a} : bool :=
  let fix leq (x y : list val) {struct x} : bool :=
    match x, y with
    | [], [] => true
    | p :: x', q :: y' => veq p q && leq x' y'
    | _, _ => false
    end in
  let fix deq (x y : list (val * val)) {struct x} : bool :=
    match x, y with
    | [], [] => true
    | (k1, v1) :: x', (k2, v2) :: y' => veq k1 k2 && veq v1 v2 && deq x' y'
    | _, _ => false
    end in
  match a, b with
  | VStr s, VStr t => String.eqb s t
  | VPath s, VPath t => String.eqb s t
  | VList x, VList y => leq x y
  | VTuple x, VTuple y => leq x y
  | VDict x, VDict y => deq x y
  | VNone, VNone => true
  | VFun i, VFun j | VClass i, VClass j | VBuiltin i, VBuiltin j | VOther i, VOther j => N.eqb i j
  | _, _ => match num_of a, num_of b with Some m, Some n => m =? n | _, _ => false end
  end.

Definition is_str (v : val) : bool := match v with VStr _ => true | _ => false end.
Definition is_none (v : val) : bool := match v with VNone => true | _ => false end.
Definition is_listtuple (v : val) : bool := match v with VList _ | VTuple _ => true | _ => false end.
Definition is_tuple (v : val) : bool := match v with VTuple _ => true | _ => false end.
Definition is_dict (v : val) : bool := match v with VDict _ => true | _ => false end.
Definition is_callable (v : val) : bool := match v with VFun _ | VClass _ | VBuiltin _ => true | _ => false end.
Definition elems (v : val) : list val := match v with VList l | VTuple l => l | _ => [] end.

Fixpoint contains (c : ascii) (s : string) : bool :=
  match s with EmptyString => false | String d r => Ascii.eqb c d || contains c r end.
Definition ch_eq : ascii := "="%char.
Definition ch_star : ascii := "*"%char.
Definition colon : string := ":"%string.
Definition mem_str (s : string) (l : list string) : bool := existsb (String.eqb s) l.

(* ------------------------------------------------------------------ which state of the code *)
Inductive level := L0 | L1 | L2.
Definition attr_strict (lv : level) : bool := match lv with L0 => false | _ => true end.
Definition repaired (lv : level) : bool := match lv with L2 => true | _ => false end.

(* ------------------------------------------------------------------ outcomes *)
Inductive exc := InvalidTask | InvalidDodo.
Inductive cexc := TypeError | IndexError | KeyError | AttributeError.
Inductive res (A : Type) := Ok (a : A) | Invalid (e : exc) | Crash (c : cexc).
Arguments Ok {A} a.
Arguments Invalid {A} e.
Arguments Crash {A} c.
Definition bind {A B} (x : res A) (f : A -> res B) : res B :=
  match x with Ok a => f a | Invalid e => Invalid e | Crash c => Crash c end.
Notation "'do' x <- e ;; f" := (bind e (fun x => f)) (at level 200, x name, e at level 100, f at level 200).
Definition invalid_unless {A} (b : bool) (k : res A) : res A := if b then k else Invalid InvalidTask.

Fixpoint each {A} (f : A -> res unit) (l : list A) : res unit :=
  match l with [] => Ok tt | x :: r => do _ <- f x ;; each f r end.
Fixpoint mapM {A B} (f : A -> res B) (l : list A) : res (list B) :=
  match l with [] => Ok [] | x :: r => do y <- f x ;; do ys <- mapM f r ;; Ok (y :: ys) end.
Fixpoint foldM {A S} (f : S -> A -> res S) (l : list A) (s : S) : res S :=
  match l with [] => Ok s | x :: r => do s' <- f s x ;; foldM f r s' end.

(* ------------------------------------------------------------------ task dictionaries *)
Inductive attr := AActions | AFileDep | ATaskDep | AUptodate | ACalcDep | ATargets | ASetup | AClean
                | ATeardown | ADoc | AParams | APosArg | AVerbosity | AIo | AGetargs | ATitle | AWatch | AMeta.
(* order of the check_attr calls in Task.__init__ (task.py 185-202), after `name` *)
Definition attr_order : list attr :=
  [AActions; AFileDep; ATaskDep; AUptodate; ACalcDep; ATargets; ASetup; AClean; ATeardown; ADoc;
   AParams; APosArg; AVerbosity; AIo; AGetargs; ATitle; AWatch; AMeta].
Definition attr_idx (a : attr) : N :=
  match a with
  | AActions => 0 | AFileDep => 1 | ATaskDep => 2 | AUptodate => 3 | ACalcDep => 4 | ATargets => 5
  | ASetup => 6 | AClean => 7 | ATeardown => 8 | ADoc => 9 | AParams => 10 | APosArg => 11
  | AVerbosity => 12 | AIo => 13 | AGetargs => 14 | ATitle => 15 | AWatch => 16 | AMeta => 17
  end%N.
Definition attr_eqb (a b : attr) : bool := N.eqb (attr_idx a) (attr_idx b).

(* keys of a dict produced by a task-creator; KUnknown = any key that is not in Task.valid_attr *)
Inductive key := KName | KBasename | KAttr (a : attr) | KUnknown (n : N).
Definition key_eqb (a b : key) : bool :=
  match a, b with
  | KName, KName | KBasename, KBasename => true
  | KAttr x, KAttr y => attr_eqb x y
  | KUnknown m, KUnknown n => N.eqb m n
  | _, _ => false
  end.
Definition tdict := list (key * val).
Fixpoint dget (d : tdict) (k : key) : option val :=
  match d with [] => None | (k', v) :: r => if key_eqb k' k then Some v else dget r k end.
Definition dhas (d : tdict) (k : key) : bool := match dget d k with Some _ => true | None => false end.
Definition is_unknown (k : key) : bool := match k with KUnknown _ => true | _ => false end.
Fixpoint aget (l : list (attr * val)) (a : attr) : option val :=
  match l with [] => None | (a', v) :: r => if attr_eqb a' a then Some v else aget r a end.

(* Task.valid_attr (task.py 148-168): accepted classes, accepted literal values *)
Inductive tyclass := CStr | CListTuple | CDict | CCallable | CNothing.
Definition valid_class (a : attr) : tyclass :=
  match a with
  | AActions | AFileDep | ATaskDep | AUptodate | ACalcDep | ATargets | ASetup | AClean | ATeardown
  | AParams | AWatch => CListTuple
  | ADoc | APosArg => CStr
  | AVerbosity => CNothing
  | AIo | AGetargs | AMeta => CDict
  | ATitle => CCallable
  end.
Definition valid_lits (a : attr) : list val :=
  match a with
  | AActions | ADoc | APosArg | AIo | ATitle | AMeta => [VNone]
  | AClean => [VTrue]
  | AVerbosity => [VNone; VInt 0; VInt 1; VInt 2]
  | _ => []
  end.
Definition isinstance (v : val) (c : tyclass) : bool :=
  match c with
  | CStr => is_str v | CListTuple => is_listtuple v | CDict => is_dict v
  | CCallable => is_callable v | CNothing => false
  end.
(* task.py 438: `value is v or (value == v and type(value) is type(v))`;
   the code before the repair used `value in valid[1]`, i.e. plain == (so 1 passed for True) *)
Definition lit_match (lv : level) (v lit : val) : bool :=
  if negb (attr_strict lv) then veq v lit
  else match lit, v with
       | VNone, VNone | VTrue, VTrue => true
       | VInt a, VInt b => a =? b
       | _, _ => false
       end.
Definition check_attr (lv : level) (a : attr) (v : val) : res unit :=
  if isinstance v (valid_class a) || existsb (lit_match lv v) (valid_lits a) then Ok tt
  else Invalid InvalidTask.

(* defaults of Task.__init__ (task.py 171-177) *)
Definition dflt (a : attr) : val :=
  match a with
  | AFileDep | ATargets | ATaskDep | AUptodate | ACalcDep | ASetup | AClean | ATeardown | AParams | AWatch => VTuple []
  | _ => VNone
  end.

(* ------------------------------------------------------------------ Task objects *)
Record task := {
  t_name : string;
  t_task_dep : list val;      (* task_dep list: elements are whatever the user gave *)
  t_wild : list val;          (* wild_dep *)
  t_setup : list val;         (* setup_tasks (getargs' implicit ones appended) *)
  t_calc : list val;          (* calc_dep (a set in the code: order/duplicates irrelevant here) *)
  t_file_dep : list string;   (* file_dep (a set in the code) *)
  t_targets : list string;
  t_has_subtask : bool;
  t_subtask_of : option string;
  t_implicit : bool           (* the group task loader.py creates on behalf of the first sub-task (_implicit_group) *)
}.
Definition set_group (t : task) : task :=
  {| t_name := t_name t; t_task_dep := t_task_dep t; t_wild := t_wild t; t_setup := t_setup t; t_calc := t_calc t;
     t_file_dep := t_file_dep t; t_targets := t_targets t; t_has_subtask := true; t_subtask_of := t_subtask_of t; t_implicit := t_implicit t |}.
Definition set_subtask_of (t : task) (b : string) : task :=
  {| t_name := t_name t; t_task_dep := t_task_dep t; t_wild := t_wild t; t_setup := t_setup t; t_calc := t_calc t;
     t_file_dep := t_file_dep t; t_targets := t_targets t; t_has_subtask := t_has_subtask t; t_subtask_of := Some b; t_implicit := t_implicit t |}.
Definition set_implicit (t : task) : task :=
  {| t_name := t_name t; t_task_dep := t_task_dep t; t_wild := t_wild t; t_setup := t_setup t; t_calc := t_calc t;
     t_file_dep := t_file_dep t; t_targets := t_targets t; t_has_subtask := t_has_subtask t; t_subtask_of := t_subtask_of t;
     t_implicit := true |}.
Definition set_task_dep (t : task) (l : list val) : task :=
  {| t_name := t_name t; t_task_dep := l; t_wild := t_wild t; t_setup := t_setup t; t_calc := t_calc t;
     t_file_dep := t_file_dep t; t_targets := t_targets t; t_has_subtask := t_has_subtask t; t_subtask_of := t_subtask_of t; t_implicit := t_implicit t |}.

(* _expand_file_dep / _init_targets (task.py 284-295, 326-336) *)
Definition path_item (v : val) : res string :=
  match v with VStr s | VPath s => Ok s | _ => Invalid InvalidTask end.

(* _check_task_names (L2): references to other tasks must be str *)
Definition name_item (v : val) : res unit := if is_str v then Ok tt else Invalid InvalidTask.
Definition check_names (lv : level) (l : list val) : res unit := if repaired lv then each name_item l else Ok tt.

(* `"*" in dep` (task.py 342) *)
Definition star_in (v : val) : res bool :=
  match v with
  | VStr s => Ok (contains ch_star s)
  | VList l | VTuple l => Ok (existsb (veq (VStr "*")) l)
  | VDict kv => Ok (existsb (fun p => veq (VStr "*") (fst p)) kv)
  | _ => Crash TypeError                       (* argument of type ... is not iterable *)
  end.
(* _expand_task_dep: (task_dep, wild_dep) *)
Definition expand_task_dep (l : list val) : res (list val * list val) :=
  foldM (fun acc dep => do w <- star_in dep ;;
                        Ok (if w then (fst acc, snd acc ++ [dep]) else (fst acc ++ [dep], snd acc)))
        l ([], []).
(* _expand_calc_dep: `dep not in self.calc_dep` hashes dep (task.py 351) *)
Definition calc_item (v : val) : res unit := if hashable v then Ok tt else Crash TypeError.

(* len(parts) (task.py 407) *)
Definition py_len (v : val) : res nat :=
  match v with
  | VList l | VTuple l => Ok (length l)
  | VDict kv => Ok (length kv)
  | VStr s => Ok (String.length s)
  | _ => Crash TypeError
  end.
(* parts[0] (task.py 413) *)
Definition py_item0 (v : val) : res val :=
  match v with
  | VList (x :: _) | VTuple (x :: _) => Ok x
  | VDict kv => match find (fun p => veq (fst p) (VInt 0)) kv with Some p => Ok (snd p) | None => Crash KeyError end
  | _ => Crash IndexError
  end.
(* _init_getargs (task.py 399-416): the task ids that become implicit setup tasks *)
Definition getargs_item (lv : level) (setup : list val) (acc : list val) (desc : val) : res (list val) :=
  if repaired lv then
    (* not isinstance(parts, (tuple, list)) or len(parts) != 2 or not isinstance(parts[0], str) *)
    match desc with
    | VList [p0; _] | VTuple [p0; _] =>
        if is_str p0 then Ok (if existsb (veq p0) setup then acc else acc ++ [p0]) else Invalid InvalidTask
    | _ => Invalid InvalidTask
    end
  else
  if is_str desc then Invalid InvalidTask else
  do n <- py_len desc ;;
  if negb (Nat.eqb n 2) then Invalid InvalidTask else
  do p0 <- py_item0 desc ;;
  if existsb (veq p0) setup then Ok acc
  else if hashable p0 then Ok (acc ++ [p0]) else Crash TypeError.       (* check_result.add(parts[0]) *)
Definition init_getargs (lv : level) (getargs : val) (setup : list val) : res (list val) :=
  match getargs with VDict kv => foldM (getargs_item lv setup) (map snd kv) [] | _ => Ok [] end.

Definition iterable (v : val) : bool :=
  match v with VStr _ | VList _ | VTuple _ | VDict _ => true | _ => false end.
(* _init_uptodate (task.py 298-323) *)
Definition uptodate_item (lv : level) (v : val) : res unit :=
  match v with
  | VTrue | VFalse | VNone => Ok tt
  | VFun _ | VClass _ | VBuiltin _ => Ok tt
  | VTuple [] => if repaired lv then Invalid InvalidTask else Crash IndexError                (* item[0] *)
  | VTuple [_] => Ok tt
  | VTuple (_ :: a :: _) => if iterable a then Ok tt                                          (* list(item[1]) *)
                            else if repaired lv then Invalid InvalidTask else Crash TypeError
  | VStr _ => Ok tt
  | _ => Invalid InvalidTask
  end.

(* action.py create_action 524-557 + PythonAction.__init__ 388-422 (clean and teardown items) *)
Definition py_action_ok (c : val) (args kwargs : val) : bool :=
  match c with VFun _ => true | _ => false end        (* callable, not a class, not a builtin *)
  && match args with VNone | VList _ | VTuple _ => true | _ => false end
  && match kwargs with VNone | VDict _ => true | _ => false end.
Definition nth_or_none (l : list val) (n : nat) : val := nth n l VNone.
Definition create_action (v : val) : res unit :=
  match v with
  | VStr _ | VList _ => Ok tt
  | VTuple l => if (3 <? length l)%nat then Invalid InvalidTask
                else invalid_unless (py_action_ok (nth_or_none l 0) (nth_or_none l 1) (nth_or_none l 2)) (Ok tt)
  | VFun _ => Ok tt
  | _ => Invalid InvalidTask          (* class / builtin: refused by PythonAction; anything else: invalid type *)
  end.

(* task.py 249-254 *)
Definition clean_step (clean : val) : res unit :=
  match clean with
  | VTrue => Ok tt
  | VList l | VTuple l => each create_action l
  | _ => Crash TypeError      (* `for a in clean` on a non-iterable: only reachable with the legacy check_attr *)
  end.

(* Task.__init__ (task.py 171-261).  [get] = the keyword arguments given; [ldep] = loader.task_dep *)
Definition task_init (lv : level) (nm : val) (get : attr -> option val) (ldep : option string)
           (has_subtask : bool) : res task :=
  let arg a := match get a with Some v => v | None => dflt a end in
  let getargs := if repaired lv
                 then match arg AGetargs with VNone => VDict [] | v => v end       (* if getargs is None: {} *)
                 else if truthy (arg AGetargs) then arg AGetargs else VDict [] in  (* before: getargs or {} *)
  let value a := match a with AGetargs => getargs | _ => arg a end in
  invalid_unless (is_str nm) (
  do _ <- each (fun a => check_attr lv a (value a)) attr_order ;;
  match nm with
  | VStr name =>
    invalid_unless (negb (contains ch_eq name)) (
    let setup := elems (value ASetup) in
    do _ <- check_names lv setup ;;
    do file_dep <- mapM path_item (elems (value AFileDep)) ;;
    do _ <- check_names lv (elems (value ATaskDep)) ;;
    do tw <- expand_task_dep (elems (value ATaskDep)) ;;
    do _ <- check_names lv (elems (value ACalcDep)) ;;
    do _ <- each calc_item (elems (value ACalcDep)) ;;
    let task_dep := fst tw ++ match ldep with                                   (* task.py 227-228 *)
                              | Some e => if String.eqb e EmptyString then [] else [VStr e]
                              | None => [] end in
    let up := value AUptodate in
    do extra <- (if truthy getargs
                 then if negb (repaired lv) && is_tuple up && truthy up
                      then Crash AttributeError                  (* tuple.extend; L2 works on list(uptodate) *)
                      else init_getargs lv getargs setup
                 else Ok []) ;;
    do _ <- each (uptodate_item lv) (elems up) ;;
    do targets <- mapM path_item (elems (value ATargets)) ;;
    do _ <- clean_step (value AClean) ;;
    do _ <- each create_action (elems (value ATeardown)) ;;
    Ok {| t_name := name; t_task_dep := task_dep; t_wild := snd tw; t_setup := setup ++ extra;
          t_calc := elems (value ACalcDep); t_file_dep := file_dep; t_targets := targets;
          t_has_subtask := has_subtask; t_subtask_of := None; t_implicit := false |})
  | _ => Invalid InvalidTask
  end).

(* dict_to_task (task.py 575-597).  The caller has popped `basename` and overwritten `name`
   (and, for a group definition, `actions`), so both keys are ignored here. *)
Definition dict_to_task (lv : level) (nm : val) (d : tdict) (force_actions_none : bool) : res task :=
  invalid_unless (force_actions_none || dhas d (KAttr AActions)) (
  invalid_unless (negb (existsb (fun kv => is_unknown (fst kv)) d)) (
  task_init lv nm (fun a => if force_actions_none && attr_eqb a AActions then Some VNone else dget d (KAttr a))
            None false)).

(* ------------------------------------------------------------------ what a task-creator returns / yields *)
Inductive item :=
| IDict (d : tdict)
| ITaskObj (nm : val) (attrs : list (attr * val))    (* the creator evaluates Task(nm, **attrs) here *)
| IGen (l : list item)                               (* a generator yielding these items *)
| INone
| IOther.                                            (* any other object *)

(* flat_generator (loader.py 23-33) *)
Fixpoint flat (i : item) : list item :=
  match i with IGen l => flat_map flat l | x => [x] end.

Definition task_obj (lv : level) (nm : val) (attrs : list (attr * val)) : res task :=
  task_init lv nm (fun a => match aget attrs a with Some v => Some v
                                                    | None => if attr_eqb a AActions then Some VNone else None end)
            None false.

(* ------------------------------------------------------------------ the value a task-creator gives, BEFORE any
   isinstance test.  [item] above is what generate_tasks has already classified (a dict with its keys read, a
   Task, a generator, None, "something else"); [pyres] is the Python value itself, so that the classification
   -- in particular of the FALSY values {} [] () '' 0 0.0 False, which are neither None nor a task -- is part
   of the model:
     PVal v        a plain value: str, path, list, tuple, bool, None, int, float, function, class, object, and
                   VDict kv = a dict whose keys are arbitrary values ('actions', 'name', ... are VStr keys)
     PTaskObj      Task(nm, **attrs)
     PGen l        a generator object yielding these values (a generator object is truthy even when it yields nothing)
   [classify] = the chain of tests of generate_tasks (loader.py 391-427), the same for what a generator yields
   (loader.py 401-409 + _generate_task_from_yield 318-320):
     isinstance(x, Task) -> isinstance(x, dict) -> inspect.isgenerator(x) -> x is None -> anything else.
   There is no test of the truth value of x anywhere on that path. *)
Inductive pyres :=
| PVal (v : val)
| PTaskObj (nm : val) (attrs : list (attr * val))
| PGen (l : list pyres).

Definition attr_name (a : attr) : string :=
  match a with
  | AActions => "actions" | AFileDep => "file_dep" | ATaskDep => "task_dep" | AUptodate => "uptodate"
  | ACalcDep => "calc_dep" | ATargets => "targets" | ASetup => "setup" | AClean => "clean"
  | ATeardown => "teardown" | ADoc => "doc" | AParams => "params" | APosArg => "pos_arg"
  | AVerbosity => "verbosity" | AIo => "io" | AGetargs => "getargs" | ATitle => "title"
  | AWatch => "watch" | AMeta => "meta"
  end%string.
Definition attr_of_string (s : string) : option attr := find (fun a => String.eqb (attr_name a) s) attr_order.
(* how the code reads a key of the dict: 'name' / 'basename' (loader.py 295, 322), a key of Task.valid_attr,
   or anything else (task.py 585-588: "Task %s contains invalid field") *)
Definition key_of_val (v : val) : key :=
  match v with
  | VStr s => if String.eqb s "name" then KName else if String.eqb s "basename" then KBasename
              else match attr_of_string s with Some a => KAttr a | None => KUnknown 0 end
  | _ => KUnknown 0
  end.
Definition tdict_of (kv : list (val * val)) : tdict := map (fun p => (key_of_val (fst p), snd p)) kv.

Fixpoint classify (r : pyres) : item :=
  match r with
  | PTaskObj nm attrs => ITaskObj nm attrs          (* isinstance(gen_result, Task) *)
  | PVal (VDict kv) => IDict (tdict_of kv)          (* isinstance(gen_result, dict): {} included *)
  | PGen l => IGen (map classify l)                 (* inspect.isgenerator(gen_result) *)
  | PVal VNone => INone                             (* gen_result is None *)
  | PVal _ => IOther                                (* raise InvalidTask: [] () '' 0 0.0 False as well as 42 or object() *)
  end.

(* what a generator yields once nested generators are flattened *)
Fixpoint pflat (r : pyres) : list pyres :=
  match r with PGen l => flat_map pflat l | x => [x] end.

(* the OrderedDict `tasks` of generate_tasks *)
Definition od := list (string * task).
Fixpoint od_get (o : od) (k : string) : option task :=
  match o with [] => None | (k', t) :: r => if String.eqb k' k then Some t else od_get r k end.
Fixpoint od_set (o : od) (k : string) (t : task) : od :=
  match o with
  | [] => [(k, t)]
  | (k', t') :: r => if String.eqb k' k then (k', t) :: r else (k', t') :: od_set r k t
  end.
Definition od_has (o : od) (k : string) : bool := match od_get o k with Some _ => true | None => false end.

Section Oracles.
Variable fmt : val -> string.                    (* format of a non-str value inside an f-string *)
Variable fnmatch : string -> string -> bool.     (* fnmatch.fnmatch name pattern *)
Variable lv : level.                             (* which state of the code *)

Definition fstr (v : val) : string := match v with VStr s => s | _ => fmt v end.

(* `basename in tasks` / `tasks.get(basename)` with an arbitrary object as key:
   hashes it (TypeError if unhashable); a non-str never equals one of the str keys *)
Definition od_lookup (o : od) (v : val) : res (option task) :=
  match v with
  | VStr s => Ok (od_get o s)
  | _ => if hashable v then Ok None else Crash TypeError
  end.

(* Task(basename, None, doc=gen_doc, has_subtask=True) (loader.py 348, 401) *)
Definition group_task (nm : val) : res task := task_init lv nm (fun _ => None) None true.

(* _generate_task_from_yield (loader.py 309-364) *)
Definition raw_basename (d : tdict) : val := match dget d KBasename with Some v => v | None => VNone end.   (* pop('basename', None) *)
Definition fy_base (func : string) (d : tdict) : val :=                                                       (* basename or func_name *)
  if truthy (raw_basename d) then raw_basename d else VStr func.

(* L2: a group definition that comes after (some of) its sub-tasks takes over what the
   implicitly created group task had collected (only that one: anything else is a duplicate) *)
Definition regroup (g prev : task) : task :=
  {| t_name := t_name g; t_task_dep := t_task_dep g ++ t_task_dep prev; t_wild := t_wild g; t_setup := t_setup g;
     t_calc := t_calc g; t_file_dep := t_file_dep g; t_targets := t_targets g; t_has_subtask := true;
     t_subtask_of := t_subtask_of g; t_implicit := false |}.

(* `name: None`: the group task definition *)
Definition fy_group (func : string) (o : od) (d : tdict) : res od :=
  do g <- dict_to_task lv (fy_base func d) d true ;;
  if repaired lv then
    match od_get o (t_name g) with
    | Some prev => invalid_unless (t_implicit prev) (Ok (od_set o (t_name g) (regroup g prev)))
    | None => Ok (od_set o (t_name g) (set_group g))
    end
  else Ok (od_set o (t_name g) (set_group g)).             (* before: replaced whatever was there *)

(* a sub-task *)
Definition fy_sub (func : string) (o : od) (d : tdict) (nm : val) : res od :=
  invalid_unless (negb (repaired lv) || is_str nm) (       (* L2: name must be a str; before: formatted *)
  let basename := fy_base func d in
  let full := append (fstr basename) (append colon (fstr nm)) in
  invalid_unless (negb (od_has o full)) (
  do sub <- dict_to_task lv (VStr full) d false ;;
  do g <- od_lookup o basename ;;
  match g with
  | Some grp =>
      invalid_unless (t_has_subtask grp) (
      match basename with
      | VStr b => Ok (od_set (od_set o b (set_task_dep grp (t_task_dep grp ++ [VStr full]))) full (set_subtask_of sub b))
      | _ => Invalid InvalidTask        (* unreachable: od_lookup finds nothing for a non-str *)
      end)
  | None =>
      do grp0 <- group_task basename ;;
      let grp := set_implicit grp0 in
      Ok (od_set (od_set o (t_name grp) (set_task_dep grp (t_task_dep grp ++ [VStr full]))) full
                 (set_subtask_of sub (t_name grp)))
  end)).

(* not a sub-task *)
Definition fy_plain (o : od) (d : tdict) : res od :=
  let basename := raw_basename d in
  invalid_unless (truthy basename) (
  do g <- od_lookup o basename ;;
  match g with
  | Some _ => Invalid InvalidTask
  | None => do t <- dict_to_task lv basename d false ;; Ok (od_set o (t_name t) t)
  end).

Definition from_yield (func : string) (o : od) (it : item) : res od :=
  match it with
  | ITaskObj nm attrs =>                                              (* loader.py generate_tasks *)
      do t <- task_obj lv nm attrs ;;
      if repaired lv && od_has o (t_name t) then Invalid InvalidTask   (* before: replaced the earlier task *)
      else Ok (od_set o (t_name t) t)
  | IDict d =>
      (* L2: basename must be a str (None = not given) *)
      invalid_unless (negb (repaired lv) || is_none (raw_basename d) || is_str (raw_basename d)) (
      match dget d KName with
      | Some nm => if is_none nm then fy_group func o d else fy_sub func o d nm
      | None => fy_plain o d
      end)
  | _ => Invalid InvalidTask                                          (* must yield dictionaries *)
  end.

(* _generate_task_from_return (loader.py 293-306) *)
Definition from_return (func : string) (d : tdict) : res task :=
  invalid_unless (negb (dhas d KName)) (
  dict_to_task lv (match dget d KBasename with Some v => v | None => VStr func end) d false).

(* generate_tasks (loader.py 367-408) *)
Definition generate_tasks (func : string) (r : item) : res (list task) :=
  match r with
  | ITaskObj nm attrs => do t <- task_obj lv nm attrs ;; Ok [t]
  | IDict d => do t <- from_return func d ;; Ok [t]
  | IGen l =>
      do o <- foldM (from_yield func) (flat_map flat l) [] ;;
      if is_nil o then do g <- group_task (VStr func) ;; Ok [g] else Ok (map snd o)
  | INone => Ok []
  | IOther => Invalid InvalidTask
  end.

(* a task-creator: name (without the task_ prefix), what calling it gives, and its
   @create_after annotation (executed, creates) *)
Record creator := { c_name : string; c_result : item; c_delayed : option (option string * list string) }.

(* Task(tname, None, loader=..., doc=...) (loader.py 174-187) *)
Definition delayed_task (tname : string) (executed : option string) : res task :=
  task_init lv (VStr tname) (fun _ => None) executed false.

(* the body of the loop over creators (loader.py 197-229) *)
Definition load_creator (allow_delayed : bool) (c : creator) : res (list task) :=
  match c_delayed c with
  | None => generate_tasks (c_name c) (c_result c)
  | Some (executed, creates) =>
      if negb (is_nil creates) then mapM (fun n => delayed_task n executed) creates
      else if allow_delayed then do t <- delayed_task (c_name c) executed ;; Ok [t]
      else generate_tasks (c_name c) (c_result c)
  end.

(* load_tasks (loader.py 127-231); the command-name check is the one of _get_task_creators (270-273) *)
Definition load_tasks (cmds : list string) (allow_delayed : bool) (cs : list creator) : res (list task) :=
  if existsb (fun c => mem_str (c_name c) cmds) cs then Invalid InvalidDodo
  else do tss <- mapM (load_creator allow_delayed) cs ;; Ok (concat tss).

(* ------------------------------------------------------------------ TaskControl.__init__ (control.py 43-133) *)
Fixpoint first_dup (seen : list string) (l : list string) : bool :=
  match l with [] => false | x :: r => mem_str x seen || first_dup (x :: seen) r end.

(* _get_wild_tasks (control.py 136-142): fnmatch on a non-str pattern raises TypeError *)
Definition wild_tasks (names : list string) (pattern : val) : res (list val) :=
  match pattern with
  | VStr p => Ok (map VStr (filter (fun n => fnmatch n p) names))
  | _ => if is_nil names then Ok [] else Crash TypeError
  end.
Definition expand_wild (names : list string) (t : task) : res task :=
  do add <- mapM (wild_tasks names) (t_wild t) ;; Ok (set_task_dep t (t_task_dep t ++ concat add)).

(* `dep not in self.tasks` (control.py 83, 88, 93) *)
Definition dep_exists (names : list string) (dep : val) : res unit :=
  match dep with
  | VStr s => if mem_str s names then Ok tt else Invalid InvalidTask
  | _ => if hashable dep then Invalid InvalidTask else Crash TypeError
  end.
Definition check_dep_names (names : list string) (t : task) : res unit :=
  do _ <- each (dep_exists names) (t_task_dep t) ;;
  do _ <- each (dep_exists names) (t_setup t) ;;
  if attr_strict lv then each (dep_exists names) (t_calc t) else Ok tt.

(* set_implicit_deps, part 2 (control.py 119-133); file_dep is a set in the code: the model
   iterates it in the order the user listed it *)
Fixpoint target_owner (ts : list task) (f : string) : option string :=
  match ts with [] => None | t :: r => if mem_str f (t_targets t) then Some (t_name t) else target_owner r f end.
Definition implicit_deps (ts : list task) (t : task) : task :=
  set_task_dep t (fold_left (fun deps f => match target_owner ts f with
                                           | Some o => if existsb (veq (VStr o)) deps then deps else deps ++ [VStr o]
                                           | None => deps end)
                            (t_file_dep t) (t_task_dep t)).

Definition control (ts : list task) : res (list task) :=
  let names := map t_name ts in
  if first_dup [] names then Invalid InvalidDodo else
  do ts1 <- mapM (expand_wild names) ts ;;
  do _ <- each (check_dep_names names) ts1 ;;
  if first_dup [] (flat_map t_targets ts1) then Invalid InvalidTask else
  Ok (map (implicit_deps ts1) ts1).

(* loading as `doit run` / `doit clean` do it: load_tasks, then TaskControl *)
Definition load (cmds : list string) (allow_delayed : bool) (cs : list creator) : res (list task) :=
  do ts <- load_tasks cmds allow_delayed cs ;; control ts.

(* the same on Python values: generate_tasks(func_name, gen_result) as loader.load_tasks (loader.py 169) and, for a
   create_after creator at run time, TaskDispatcher._add_task (control.py 495) call it *)
Definition generate_tasks_py (func : string) (r : pyres) : res (list task) := generate_tasks func (classify r).

Record pcreator := { pc_name : string; pc_result : pyres; pc_delayed : option (option string * list string) }.
Definition creator_of (c : pcreator) : creator :=
  {| c_name := pc_name c; c_result := classify (pc_result c); c_delayed := pc_delayed c |}.
Definition load_tasks_py (cmds : list string) (allow_delayed : bool) (cs : list pcreator) : res (list task) :=
  load_tasks cmds allow_delayed (map creator_of cs).
Definition load_py (cmds : list string) (allow_delayed : bool) (cs : list pcreator) : res (list task) :=
  load cmds allow_delayed (map creator_of cs).

(* ------------------------------------------------------------------ _get_task_creators (loader.py 234-280)
   and `funcs.sort(key=lambda obj: obj[2])` (loader.py 150).
   An entry = one (name, object) pair of the namespace, in the iteration order of the dict
   (DodoTaskLoader / ModuleTaskLoader(module): dict(inspect.getmembers(module)), i.e. sorted by name;
   ModuleTaskLoader(globals()): order of first binding).  The facts about the object the code asks for
   are inputs.  [cinfo] describes a callable: its line inspect.getsourcelines(ref)[1], what calling it
   gives, its `doit_create_after` annotation. *)
Record cinfo := {
  ci_line : Z;
  ci_result : item;
  ci_delayed : option (option string * list string)
}.
Record entry := {
  e_name : string;                           (* name in the namespace *)
  e_is_task_params : bool;                   (* `ref is task_params` (loader.py 250) *)
  e_isfunc : bool;                           (* inspect.isfunction(ref) or inspect.ismethod(ref) *)
  e_self : cinfo;                            (* the object itself as a callable (meaningful when e_isfunc) *)
  e_create : option (option string * cinfo)  (* hasattr(ref, 'create_doit_tasks'): its `basename` attribute if it
                                                has one (a str), and that callable *)
}.

(* name[len("task_"):] when name.startswith("task_") *)
Definition task_prefix : string := "task_"%string.
Fixpoint strip_prefix (p s : string) : option string :=
  match p with
  | EmptyString => Some s
  | String c p' => match s with
                   | String d s' => if Ascii.eqb c d then strip_prefix p' s' else None
                   | EmptyString => None
                   end
  end.

(* the body of the loop of _get_task_creators: (line, creator) or nothing *)
Definition mk_creator (n : string) (ci : cinfo) : Z * creator :=
  (ci_line ci, {| c_name := n; c_result := ci_result ci; c_delayed := ci_delayed ci |}).
Definition entry_creator (e : entry) : option (Z * creator) :=
  if e_is_task_params e then None else
  match (if e_isfunc e then strip_prefix task_prefix (e_name e) else None) with
  | Some n => Some (mk_creator n (e_self e))                           (* loader.py 254-257 *)
  | None =>
      match e_create e with
      | Some (Some b, ci) => Some (mk_creator b ci)                    (* loader.py 259-262 *)
      | Some (None, ci) => Some (mk_creator (e_name e) ci)
      | None => None                                                   (* not a task-creator *)
      end
  end.
Definition get_task_creators (ns : list entry) : list (Z * creator) :=
  flat_map (fun e => match entry_creator e with Some x => [x] | None => [] end) ns.

(* list.sort(key=line): stable -- equal lines keep the order of the namespace *)
Fixpoint ins_by_line (x : Z * creator) (l : list (Z * creator)) : list (Z * creator) :=
  match l with
  | [] => [x]
  | y :: r => if fst x <=? fst y then x :: y :: r else y :: ins_by_line x r
  end.
Definition sort_by_line (l : list (Z * creator)) : list (Z * creator) := fold_right ins_by_line [] l.

Definition ordered_creators (ns : list entry) : list creator := map snd (sort_by_line (get_task_creators ns)).

(* load_tasks(namespace, ...) then TaskControl; and load_tasks alone *)
Definition load_namespace (cmds : list string) (allow_delayed : bool) (ns : list entry) : res (list task) :=
  load cmds allow_delayed (ordered_creators ns).
Definition load_tasks_namespace (cmds : list string) (allow_delayed : bool) (ns : list entry) : res (list task) :=
  load_tasks cmds allow_delayed (ordered_creators ns).

End Oracles.

(* ------------------------------------------------------------------ encoding for the correspondence check
   Ok ts      -> 0 :: #tasks :: per task: name, has_subtask, subtask_of (or -1), #task_dep, task_deps
   Invalid e  -> [1; 1 InvalidTask | 2 InvalidDodoFile]
   Crash c    -> [2; 1 TypeError | 2 IndexError | 3 KeyError | 4 AttributeError]
   a string   -> its length followed by its character codes *)
Fixpoint enc_str_chars (s : string) : list Z :=
  match s with EmptyString => [] | String c r => Z.of_N (N_of_ascii c) :: enc_str_chars r end.
Definition enc_str (s : string) : list Z := Z.of_nat (String.length s) :: enc_str_chars s.
Definition enc_dep (v : val) : list Z := match v with VStr s => enc_str s | _ => [-9] end.
Definition enc_task (t : task) : list Z :=
  enc_str (t_name t) ++ [zb (t_has_subtask t)] ++
  match t_subtask_of t with Some b => enc_str b | None => [-1] end ++
  [Z.of_nat (length (t_task_dep t))] ++ flat_map enc_dep (t_task_dep t).
Definition enc (r : res (list task)) : list Z :=
  match r with
  | Ok ts => 0 :: Z.of_nat (length ts) :: flat_map enc_task ts
  | Invalid InvalidTask => [1; 1]
  | Invalid InvalidDodo => [1; 2]
  | Crash TypeError => [2; 1]
  | Crash IndexError => [2; 2]
  | Crash KeyError => [2; 3]
  | Crash AttributeError => [2; 4]
  end.

(* instantiation of the fnmatch oracle used by the correspondence check: patterns made of
   literal characters and `*` only *)
Fixpoint glob (p : string) : string -> bool :=
  match p with
  | EmptyString => fun s => match s with EmptyString => true | _ => false end
  | String c p' =>
      if Ascii.eqb c ch_star
      then fix star (s : string) : bool :=
             glob p' s || match s with EmptyString => false | String _ s' => star s' end
      else fun s => match s with String d s' => Ascii.eqb c d && glob p' s' | EmptyString => false end
  end.
Definition fnmatch_star (name pattern : string) : bool := glob pattern name.
