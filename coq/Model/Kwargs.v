(* Kwargs.v -- the keyword arguments a python-action is called with (C10), in full: the declaration
   `(callable, args, kwargs)` of the action, the signature of the callable, and the dict OBJECT given
   as `kwargs`, which a dodo file may share between several actions / tasks / runs of one process.
   Definitions only.  Anchored in BaseAction._prepare_kwargs (doit/action.py 33-97) as called by
   PythonAction._prepare_kwargs / execute (action.py 425-427, 443, 474: `self.py_callable( *self.args, **kwargs)`).

   Inputs.prepare_kwargs is the special case "bare callable, named parameters only"
   (Proofs/KwargsP.v prepare_in_plain).  Here:
     [kwdict]   a Python dict with keyword codes as keys: association list in INSERTION order,
                [dset] = `d[k] = x` (an existing key keeps its place), [dget] = lookup
     [pyfun]    the callable's signature: its named parameters in order, and whether it has **kwargs
     [pyact]    the action: the callable, the NUMBER of positional arguments given in `args`
                (func_sig.bind_partial( *args) binds the first [a_npos] named parameters), and the
                identity [a_kw] of the dict object given as `kwargs`
     [heap]     the dict objects of the dodo file, by identity
     [prepare_in]   lines 60-97 on the local dict
     [prepare_heap] the whole function on the heap: with [copy] = true (line 61, `kwargs = kwargs.copy()`,
                the code in /repo) the local dict is a copy and the heap is left alone; [copy] = false is the
                function WITHOUT that line (the loop then writes into the caller's dict object), kept so
                that the need for the copy stays stated (Properties/C10.v C10_kwargs_nocopy_refuted)
     [exec_calls]   a sequence of action executions over one heap (one process: several actions of a task,
                several tasks, several runs)
   Not modelled: the meta-argument `task`, the check "no default value on a reserved name" (InvalidTask;
   C17's Model/Action.v has that outcome), pos_arg, *args / keyword-only parameters, more positional
   arguments than parameters (bind_partial raises), a declared keyword that is also bound positionally
   (the call itself raises TypeError). *)
From DoitV Require Export Base Status History Inputs.
Open Scope Z_scope.

Definition kwdict := list (N * kwval).

Fixpoint dget (d : kwdict) (k : N) : option kwval :=
  match d with [] => None | (k', x) :: r => if N.eqb k' k then Some x else dget r k end.
Fixpoint dset (d : kwdict) (k : N) (x : kwval) : kwdict :=
  match d with
  | [] => [(k, x)]
  | (k', y) :: r => if N.eqb k' k then (k', x) :: r else (k', y) :: dset r k x
  end.
Definition dhas (d : kwdict) (k : N) : bool := match dget d k with Some _ => true | None => false end.

Record pyfun := { f_params : list N; f_varkw : bool }.
Record pyact := { a_fun : pyfun; a_npos : nat; a_kw : N }.
Definition heap := N -> kwdict.

(* bound_args.arguments of bind_partial( *args): the first len(args) parameters *)
Definition bound (a : pyact) : list N := firstn (a_npos a) (f_params (a_fun a)).

(* meta_args (53-58) without 'task' *)
Definition meta_keys : list N := [arg_targets; arg_dependencies; arg_changed].
Definition is_meta (k : N) : bool := mem k meta_keys.
Definition meta_value (df : tdef) (changed : list file) (key : N) : kwval :=
  if N.eqb key arg_targets then KFiles (targets df)
  else if N.eqb key arg_dependencies then KFiles (file_dep df)
  else KFiles changed.

(* 65-80: for key in meta_args: a parameter of that name not taken from a positional argument *)
Definition meta_step (a : pyact) (df : tdef) (changed : list file) (kw : kwdict) (key : N) : kwdict :=
  if mem key (f_params (a_fun a)) && negb (mem key (bound a)) then dset kw key (meta_value df changed key) else kw.

(* 87-96: for key in opt_args (task.options = task params + getargs values): a parameter of that name
   gets the option (overwriting what the dict holds); any other option goes into **kwargs when the
   callable has one AND the dict does not hold the key yet *)
Definition opt_step (a : pyact) (kw : kwdict) (o : N * aval) : kwdict :=
  let (key, x) := o in
  if mem key (f_params (a_fun a))
  then (if negb (mem key (bound a)) then dset kw key (KOpt x) else kw)
  else if f_varkw (a_fun a) && negb (dhas kw key) then dset kw key (KOpt x) else kw.

Definition prepare_in (kw0 : kwdict) (a : pyact) (df : tdef) (changed : list file) (opts : list (N * aval)) : kwdict :=
  fold_left (opt_step a) opts (fold_left (meta_step a df changed) meta_keys kw0).

Definition prepare_heap (copy : bool) (h : heap) (a : pyact) (df : tdef) (changed : list file) (opts : list (N * aval))
  : kwdict * heap :=
  let kw := prepare_in (h (a_kw a)) a df changed opts in
  (kw, if copy then h else upd h (a_kw a) kw).

(* one execution of an action: the action, and the state of its Task object at that moment *)
Record call := { c_act : pyact; c_def : tdef; c_changed : list file; c_opts : list (N * aval) }.

Definition call_kw (h : heap) (c : call) : kwdict :=
  prepare_in (h (a_kw (c_act c))) (c_act c) (c_def c) (c_changed c) (c_opts c).

Fixpoint exec_calls (copy : bool) (h : heap) (cs : list call) : list kwdict * heap :=
  match cs with
  | [] => ([], h)
  | c :: r =>
      let (kw, h1) := prepare_heap copy h (c_act c) (c_def c) (c_changed c) (c_opts c) in
      let (l, h2) := exec_calls copy h1 r in
      (kw :: l, h2)
  end.

(* ---- encoding for the correspondence check: items in dict order ---- *)
Definition kwdict_z (d : kwdict) : list Z :=
  znat (length d) :: flat_map (fun p => zN (fst p) :: kwval_z (snd p)) d ++ [-9].
Definition calls_z (copy : bool) (h : heap) (nobj : nat) (cs : list call) : list Z :=
  let (l, h') := exec_calls copy h cs in
  flat_map kwdict_z l ++ [-8] ++ flat_map (fun i => kwdict_z (h' (N.of_nat i))) (seq 0 nobj).
