(* GroupRes.v -- result_dep on a GROUP task (doit/task.py, class result_dep, 640-690): the form Status.v leaves out
   ([UResultDep] there is the single-task form).  On top of the DB of Status.v.

     _result_single (658-660)   self.get_val(self.dep_name, 'result:')
     _result_group  (662-672)   prefix = dep_task.name + ":"; a dict  sub -> get_val(sub, 'result:')  over the entries `sub` of
                                dep_task.task_dep with sub.startswith(prefix): the SUB-TASKS of the group.  A group task may have
                                other task_dep than its sub-tasks (a group-level `task_dep`, an implicit one through a file_dep that is
                                a target of another task or through a group-level result_dep): they are not part of the result.
     _get_dep_result (674-679)  dep_task.has_subtask selects the form
     __call__ (682-696)         last_success = values.get('_result:<dep>'); None -> False; else last_success == dep_result;
                                registers the value saver, which calls _get_dep_result again when the task succeeded
                                ("get latest value after execution of dependent task").

   Names are numbers as everywhere; `sub.startswith(group + ":")` is the oracle [is_sub] (a Section variable).
   A Python dict is an association list with unique keys in insertion order; dict == dict compares keys and values,
   not the order.  Definitions only. *)
From DoitV Require Export Base Status.
Open Scope Z_scope.

Definition gdict := list (name * option N).      (* sub-task -> its saved 'result:' (None: the record holds none / no record) *)
Fixpoint dget (l : gdict) (k : name) : option (option N) :=
  match l with [] => None | (k', x) :: r => if N.eqb k' k then Some x else dget r k end.
Fixpoint dset (l : gdict) (k : name) (x : option N) : gdict :=
  match l with
  | [] => [(k, x)]
  | (k', x') :: r => if N.eqb k' k then (k', x) :: r else (k', x') :: dset r k x
  end.
Definition res_eqb (a b : option N) : bool :=
  match a, b with Some x, Some y => N.eqb x y | None, None => true | _, _ => false end.
(* every item of a is an item of b *)
Definition dsub (a b : gdict) : bool :=
  forallb (fun kx => match dget b (fst kx) with Some y => res_eqb (snd kx) y | None => false end) a.
Definition dict_eqb (a b : gdict) : bool := dsub a b && dsub b a.

(* what result_dep compares: a saved result (single task) or a dict (group) *)
Inductive dres := RSingle (r : option N) | RGroup (l : gdict).
Definition dres_eqb (a b : dres) : bool :=
  match a, b with
  | RSingle x, RSingle y => res_eqb x y
  | RGroup x, RGroup y => dict_eqb x y
  | _, _ => false                                  (* str == dict *)
  end.

Section GroupRes.
Variable is_sub : name -> name -> bool.            (* is_sub g s  =  s.startswith(g + ":") *)

(* _result_group: the loop over dep_task.task_dep (a list: the sub-tasks in yield order, the other task_dep wherever they were added) *)
Definition result_group (d : db) (g : name) (tdeps : list name) : gdict :=
  fold_left (fun acc s => if is_sub g s then dset acc s (get_result d s) else acc) tdeps [].

(* _get_dep_result *)
Definition dep_result (d : db) (has_subtask : bool) (src : name) (tdeps : list name) : dres :=
  if has_subtask then RGroup (result_group d src tdeps) else RSingle (get_result d src).

(* __call__: [last] = values.get('_result:<src>') -- None: no such key, or a saved None *)
Definition eval_result_dep (last : option dres) (cur : dres) : bool :=
  match last with
  | None | Some (RSingle None) => false
  | Some l => dres_eqb l cur
  end.

(* the item of a consumer whose last successful execution saved [last]; the value saver *)
Definition item_verdict (last : option dres) (d : db) (has_subtask : bool) (src : name) (tdeps : list name) : bool :=
  eval_result_dep last (dep_result d has_subtask src tdeps).
Definition item_saver (d : db) (has_subtask : bool) (src : name) (tdeps : list name) : option dres :=
  Some (dep_result d has_subtask src tdeps).

End GroupRes.

(* ---- observation for the correspondence check (harness/c04.py explore_gi) ---- *)
Definition res_z (r : option N) : Z := match r with Some x => Z.of_N x | None => -1 end.
Definition dres_z (r : dres) : list Z :=
  match r with
  | RSingle x => [0; res_z x]
  | RGroup l => 1 :: Z.of_nat (length l) :: flat_map (fun kx => [Z.of_N (fst kx); res_z (snd kx)]) l
  end.
(* a DB given by the saved results of its tasks *)
Definition db_of_results (l : list (name * option N)) : db :=
  fun t => match dget l t with Some r => Some (set_result empty_rec r) | None => None end.
Definition gi_observe (subs : list (name * name)) (results : list (name * option N)) (last : option dres)
                      (has_subtask : bool) (src : name) (tdeps : list name) : list Z :=
  let is_sub := fun g s => existsb (fun p => N.eqb (fst p) g && N.eqb (snd p) s) subs in
  let d := db_of_results results in
  zb (item_verdict is_sub last d has_subtask src tdeps) ::
  match item_saver is_sub d has_subtask src tdeps with Some r => dres_z r | None => [-2] end.
