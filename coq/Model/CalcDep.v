(* CalcDep.v -- one `doit run --continue T..` over tasks with `calc_dep`: the dependencies a task gets from the
   VALUES of other tasks, read when the task is dispatched.  On top of Status.v / History.v (sibling of Getargs.v; no
   getargs / setup-tasks here): a run is the sequence of the primitive operations SetDef / Check / SaveOk / Remove of
   History.v in the order the serial runner reaches them.

   doit/control.py TaskDispatcher._add_task 442-498 (HEAD):
     cvisit t =  already created (_gen_node 392-407): nothing
                every calc_dep of t is visited (and finished) first (466-473);
                _process_calc_dep_results (620-634) for each of them: Task.update_deps(provider.task.values)
                  (task.py 379-390: 'file_dep' added to the set, 'task_dep' appended, 'uptodate' extended);
                then the declared task_dep and the calculated ones (475-478, next turn of the loop);
                Runner.select_task (runner.py 107-173): ignored (own flag / an ignored dependency) | a failed dependency:
                  failure | get_status ON THE MERGED TASK: error -> failure, up-to-date -> skipped AND
                  `task.values = dep_manager.get_values(task.name)` (runner.py 156: what a consumer of THIS task merges),
                  run -> execute, save_extra_values + save_success (process_task_result 199-216).
   What a provider hands over is the in-memory `task.values` of its Task object ([ca_vals]): the dicts its actions
   returned when it was executed in this run, the values saved in the DB when it was skipped as up-to-date, nothing
   when it failed / was ignored.  It does NOT depend on whether the consumer's node existed when the provider was
   dispatched (_node_add_wait_run 418-429 merges the values of a provider that is already done immediately,
   _update_waiting 591-607 those of one that was waited for).

   Encoding of the three keys of a provider's values (JSON lists in the real DB):
     'file_dep'  = user key 49, a bitmask of file numbers     'task_dep' = user key 50, a bitmask of task numbers
     'uptodate'  = user key 51: 0 = [False], 1 = [True], anything else = [None]
   (a value None under these keys makes the real update_deps raise: not generated, read as "nothing" here).
   The merged definition is what Dependency sees: it is written to [s_defs] just before the Check ([set_def]; the Task
   objects are rebuilt by every run, s_defs t is the definition the last look at t used; set_def leaves the state alone
   when the definition is the one in force already -- same function, and the state stays Leibniz-equal without functional
   extensionality).  Dependencies are visited depth-first as in Getargs.v; the real dispatcher queues the new nodes FIFO
   (control.py 671-673): the two orders of the final reports coincide on the task sets of the correspondence check
   (3 tasks), which compares them.  Fuel / cycles as in Getargs.v.  Definitions only. *)
From DoitV Require Export Base Status History.
Open Scope Z_scope.

Definition k_cfd : N := k_user 49.     (* 'file_dep' *)
Definition k_ctd : N := k_user 50.     (* 'task_dep' *)
Definition k_cutd : N := k_user 51.    (* 'uptodate' *)

Definition bits (n : N) : list N := filter (N.testbit n) (map N.of_nat (seq 0 (N.to_nat (N.size n)))).

Definition calc_files (v : vals) : list file := match vget v k_cfd with Some (Some m) => bits m | _ => [] end.
Definition calc_tasks (v : vals) : list name := match vget v k_ctd with Some (Some m) => bits m | _ => [] end.
Definition calc_utd (v : vals) : list utd :=
  match vget v k_cutd with
  | Some (Some 0%N) => [UBool false]
  | Some (Some 1%N) => [UBool true]
  | Some (Some _) => [UNone]
  | _ => []
  end.

(* a task as the dodo file gives it *)
Record cdef := {
  cd_def : tdef;                 (* file_dep, targets, uptodate as written; what the actions return (incl. the three keys above) *)
  cd_task_dep : list name;       (* task_dep as written *)
  cd_calc : list name            (* calc_dep, in the iteration order of the set task.calc_dep *)
}.
Definition empty_cdef : cdef := {| cd_def := empty_def; cd_task_dep := []; cd_calc := [] |}.

Definition add_all (l new : list N) : list N := fold_left (fun acc x => addset x acc) new l.
(* Task.update_deps(values), as far as Dependency looks at the task (task.py 333-390) *)
Definition merge_def (df : tdef) (v : vals) : tdef :=
  {| file_dep := add_all (file_dep df) (calc_files v); targets := targets df;
     uptodate := uptodate df ++ calc_utd v; act_values := act_values df; act_result := act_result df |}.

(* decidable equality of definitions (used by [set_def] only) *)
Definition optN_eqb (a b : option N) : bool :=
  match a, b with Some x, Some y => N.eqb x y | None, None => true | _, _ => false end.
Definition optb_eqb (a b : option bool) : bool :=
  match a, b with Some x, Some y => Bool.eqb x y | None, None => true | _, _ => false end.
Definition utd_eqb (a b : utd) : bool :=
  match a, b with
  | UBool x, UBool y => Bool.eqb x y
  | UNone, UNone => true
  | UOpaque x, UOpaque y => optb_eqb x y
  | URunOnce, URunOnce => true
  | UConfig x, UConfig y => N.eqb x y
  | UResultDep x, UResultDep y => N.eqb x y
  | _, _ => false
  end.
Definition kv_eqb (a b : N * option N) : bool := N.eqb (fst a) (fst b) && optN_eqb (snd a) (snd b).
Definition tdef_eqb (a b : tdef) : bool :=
  list_eqb N.eqb (file_dep a) (file_dep b) && list_eqb N.eqb (targets a) (targets b) &&
  list_eqb utd_eqb (uptodate a) (uptodate b) && list_eqb kv_eqb (act_values a) (act_values b) &&
  optN_eqb (act_result a) (act_result b).

(* final codes of a task in a run, as in Getargs.v: 0 executed+saved, 1 executed+failed, 2 skipped up-to-date,
   3 skipped ignored, 4 failed without being executed, 98 TypeError *)
Record cacc := {
  ca_s : state;
  ca_started : list name;          (* nodes created so far *)
  ca_fin : list (name * Z);        (* final report of each finished task, in order *)
  ca_vals : name -> vals;          (* Task.values of the finished tasks, in memory *)
  ca_cyc : bool;
  ca_fuel : bool
}.
Definition cwith_s (a : cacc) (s : state) : cacc :=
  {| ca_s := s; ca_started := ca_started a; ca_fin := ca_fin a; ca_vals := ca_vals a; ca_cyc := ca_cyc a; ca_fuel := ca_fuel a |}.
Definition cstarted (a : cacc) (t : name) : cacc :=
  {| ca_s := ca_s a; ca_started := t :: ca_started a; ca_fin := ca_fin a; ca_vals := ca_vals a; ca_cyc := ca_cyc a; ca_fuel := ca_fuel a |}.
Definition cfinish (a : cacc) (s : state) (t : name) (c : Z) (vl : vals) : cacc :=
  {| ca_s := s; ca_started := ca_started a; ca_fin := ca_fin a ++ [(t, c)]; ca_vals := upd (ca_vals a) t vl;
     ca_cyc := ca_cyc a; ca_fuel := ca_fuel a |}.
Definition cset_cyc (a : cacc) : cacc :=
  {| ca_s := ca_s a; ca_started := ca_started a; ca_fin := ca_fin a; ca_vals := ca_vals a; ca_cyc := true; ca_fuel := ca_fuel a |}.
Definition cset_fuel (a : cacc) : cacc :=
  {| ca_s := ca_s a; ca_started := ca_started a; ca_fin := ca_fin a; ca_vals := ca_vals a; ca_cyc := ca_cyc a; ca_fuel := true |}.

Fixpoint cfin_of (l : list (name * Z)) (t : name) : option Z :=
  match l with [] => None | (t', c) :: r => if N.eqb t' t then Some c else cfin_of r t end.
(* ExecNode.parent_status (control.py 335-339) *)
Definition cis_failure (c : Z) : bool := (c =? 1) || (c =? 4) || (c =? 98).
Definition cdep_bad (a : cacc) (deps : list name) : bool :=
  existsb (fun d => match cfin_of (ca_fin a) d with Some c => cis_failure c | None => false end) deps.
Definition cdep_ign (a : cacc) (deps : list name) : bool :=
  existsb (fun d => match cfin_of (ca_fin a) d with Some c => c =? 3 | None => false end) deps.

(* the task as Dependency sees it once the values of its calc_dep providers are merged, and its calculated task_dep *)
Definition merged_with (vl : name -> vals) (d : cdef) : tdef :=
  fold_left (fun df p => merge_def df (vl p)) (cd_calc d) (cd_def d).
Definition calc_task_deps_with (vl : name -> vals) (d : cdef) : list name :=
  flat_map (fun p => calc_tasks (vl p)) (cd_calc d).

Section Run.
Variable md5 : N -> N.
Variable size_of : N -> Z.
Variable v : ver.
Variable G : name -> cdef.
Variable fails : name -> bool.     (* the actions of the task fail in this run *)

Notation step := (step md5 size_of v).

Definition csave_code (s : state) : Z :=
  match s_log s with OSave _ SaveDone :: _ => 0 | _ => 1 end.   (* FileNotFoundError in save_success: reported as a failure *)

(* the definition the coming look at t uses *)
Definition set_def (s : state) (t : name) (df : tdef) : state :=
  if tdef_eqb (s_defs s t) df then s else step s (SetDef t df).

Fixpoint cvisit (fuel : nat) (a : cacc) (t : name) : cacc :=
  match fuel with
  | O => cset_fuel a
  | S fuel =>
    if mem t (ca_started a) then
      (match cfin_of (ca_fin a) t with Some _ => a | None => cset_cyc a end)
    else
    let d := G t in
    let a := fold_left (cvisit fuel) (cd_calc d) (cstarted a t) in
    let df := merged_with (ca_vals a) d in
    let tds := cd_task_dep d ++ calc_task_deps_with (ca_vals a) d in
    let a := fold_left (cvisit fuel) tds a in
    let deps := cd_calc d ++ tds in
    let s := ca_s a in
    if cdep_ign a deps || status_is_ignore (s_db s) t then cfinish a s t 3 [] else
    if cdep_bad a deps then cfinish a (step s (Remove t)) t 4 [] else
    let s0 := set_def s t df in
    let s1 := step s0 (Check t) in
    match g_status (check md5 v s0 t) with
    | Error => cfinish a (step s1 (Remove t)) t 4 []
    | Crash => cfinish a s1 t 98 []
    | UpToDate => cfinish a s1 t 2 (get_values (s_db s1) t)                    (* runner.py 156 *)
    | Run =>
        if fails t then cfinish a (step s1 (Remove t)) t 1 [] else
        let s3 := step s1 (SaveOk t) in
        cfinish a s3 t (csave_code s3) (save_extra_values (s_db s1) df)         (* task.values after save_extra_values *)
    end
  end.

Definition cacc0 (s : state) : cacc :=
  {| ca_s := s; ca_started := []; ca_fin := []; ca_vals := fun _ => []; ca_cyc := false; ca_fuel := false |}.
Definition crun_acc (fuel : nat) (s : state) (sel : list name) : cacc := fold_left (cvisit fuel) sel (cacc0 s).

End Run.

(* ---- run-level histories ---- *)
Inductive cop :=
| CP (o : op)                                  (* file operations, SetChecker, Remove (= forget t), Ignore *)
| CSetDef (t : name) (d : cdef)                (* the dodo file changed *)
| CRun (sel : list name) (failing : list name).

Record cstate := {
  cs_s : state;
  cs_defs : name -> cdef;
  cs_out : list Z                              (* per run: t; code for every finished task in order, then -8 (or -9 cycle / -10 fuel) *)
}.
Definition cinit : cstate := {| cs_s := init; cs_defs := fun _ => empty_cdef; cs_out := [] |}.
Definition crun_fuel : nat := 12.

Section CHistory.
Variable md5 : N -> N.
Variable size_of : N -> Z.
Variable v : ver.

Definition cstep (g : cstate) (o : cop) : cstate :=
  match o with
  | CP o => {| cs_s := step md5 size_of v (cs_s g) o; cs_defs := cs_defs g; cs_out := cs_out g |}
  | CSetDef t d => {| cs_s := cs_s g; cs_defs := upd (cs_defs g) t d; cs_out := cs_out g |}
  | CRun sel failing =>
      let a := crun_acc md5 size_of v (cs_defs g) (fun t => mem t failing) crun_fuel (cs_s g) sel in
      {| cs_s := ca_s a; cs_defs := cs_defs g;
         cs_out := cs_out g ++ flat_map (fun tc => [zN (fst tc); snd tc]) (ca_fin a)
                            ++ [if ca_fuel a then -10 else if ca_cyc a then -9 else -8] |}
  end.
Definition crun_from (g : cstate) (l : list cop) : cstate := fold_left cstep l g.
Definition crun (l : list cop) : cstate := crun_from cinit l.

(* FS-fresh for run-level histories; the definitions change through CSetDef only, reset-dep is not part of the family *)
Definition cop_ok (g : cstate) (o : cop) : bool :=
  match o with
  | CP (SetDef _ _) | CP (ResetDep _) => false
  | CP o => op_ok size_of (cs_s g) o
  | _ => true
  end.
Fixpoint chist_ok_from (g : cstate) (l : list cop) : bool :=
  match l with [] => true | o :: r => cop_ok g o && chist_ok_from (cstep g o) r end.
Definition chist_ok (l : list cop) : bool := chist_ok_from cinit l.

(* the family has no result_dep items (they would make the provider a task_dep: that is the family of Getargs.v) *)
Definition utd_plain (u : utd) : bool := match u with UResultDep _ => false | _ => true end.
Definition cdef_plain (d : cdef) : bool := forallb utd_plain (uptodate (cd_def d)).
Fixpoint cops_plain (l : list cop) : bool :=
  match l with
  | [] => true
  | CSetDef _ d :: r => cdef_plain d && cops_plain r
  | _ :: r => cops_plain r
  end.

(* the run that `CRun sel failing` makes in the state reached by a history *)
Definition crun_after (l : list cop) (sel failing : list name) : cacc :=
  let g := crun l in crun_acc md5 size_of v (cs_defs g) (fun t => mem t failing) crun_fuel (cs_s g) sel.

End CHistory.

(* what the harness compares: the reports of every run, the logical DB content, the three calc keys of every record *)
Definition calc_z (tasks : list name) (d : db) : list Z :=
  flat_map (fun t => map (fun k => val_z (vget (get_values d t) k)) [k_cfd; k_ctd; k_cutd]) tasks.
Definition cobserve (tasks : list name) (files : list file) (g : cstate) : list Z :=
  cs_out g ++ [-7] ++ db_z tasks files (s_db (cs_s g)) ++ [-6] ++ calc_z tasks (s_db (cs_s g)).
