(* Action.v -- model of doit/action.py (PythonAction.execute result classification, CmdAction
   exit-status classification, the save/set/restore discipline on sys.stdout/sys.stderr and the
   Writer/StringIO capture), doit/task.py Task.execute / Stream._get_out_err.  Definitions only. *)
From DoitV Require Export Base.
Open Scope Z_scope.

(* ---- what an action gives back to Task.execute: None | TaskFailed | TaskError, or nothing at
   all because an exception leaves `execute` (APropagates) ---- *)
Inductive aout := AOk | AFailed | AError | APropagates.
Definition aout_z (a : aout) : Z := match a with AOk => 0 | AFailed => 1 | AError => 2 | APropagates => 3 end.

(* ---- python-action: how the callable ended, by top-level tag ----
   action.py 472-513.  RRaises = the callable raised an Exception subclass.
   RBaseExc = it raised a BaseException that is not an Exception (SystemExit from sys.exit(),
   KeyboardInterrupt, GeneratorExit, a user subclass of BaseException): `except Exception`
   (474) does not apply, the `finally` clause (481-492) runs, the exception leaves execute. *)
Inductive rtag := RTrue | RFalse | RNone | RStr | RDict | RTaskFailed | RTaskError | ROther | RRaises | RBaseExc.
Definition all_rtags := [RTrue; RFalse; RNone; RStr; RDict; RTaskFailed; RTaskError; ROther; RRaises; RBaseExc].

Definition py_classify (t : rtag) : aout :=
  match t with
  | RRaises => AError            (* except Exception -> TaskError("PythonAction Error") *)
  | RBaseExc => APropagates      (* not caught *)
  | RFalse => AFailed            (* returned_value is False *)
  | RTrue | RNone => AOk
  | RStr => AOk                  (* result := value *)
  | RDict => AOk                 (* values := value; result := value *)
  | RTaskFailed => AFailed       (* isinstance(returned_value, (TaskFailed, TaskError)): returned as is *)
  | RTaskError => AError
  | ROther => AError
  end.

(* does the action object get a result / values from this return value? *)
Definition py_sets_result (t : rtag) : bool := match t with RStr | RDict => true | _ => false end.
Definition py_sets_values (t : rtag) : bool := match t with RDict => true | _ => false end.

(* ---- cmd-action: process.returncode (negative = killed by signal), action.py 259-266 ---- *)
Definition cmd_classify (rc : Z) : aout :=
  if rc >? 125 then AError else if negb (rc =? 0) then AFailed else AOk.

(* CmdAction(callable): what computing the command string did (action.py 199-203, expand_action
   154-156): XRaises = the callable raised an Exception -> TaskError; XBaseExc = it raised
   another BaseException -> leaves execute (no process started, no stream touched) *)
Inductive xtag := XString | XRaises | XBaseExc.
Definition cmd_execute (x : xtag) (rc : Z) : aout :=
  match x with XRaises => AError | XBaseExc => APropagates | XString => cmd_classify rc end.

(* ---- Task.execute (task.py 470-483) ----
   One executed action contributes: its outcome, its `result` attribute (None = no result) and its
   `values` dict (association list, later keys win on merge).  An action whose exception
   propagates ends the loop like a failing one (the exception leaves Task.execute; result and
   values keep what the actions before gave). *)
Record act := { a_out : aout; a_result : option Z; a_values : list (Z * Z) }.

Fixpoint dict_set (d : list (Z * Z)) (k v : Z) : list (Z * Z) :=
  match d with
  | [] => [(k, v)]
  | (k', v') :: r => if k' =? k then (k', v) :: r else (k', v') :: dict_set r k v
  end.
Definition dict_update (d u : list (Z * Z)) : list (Z * Z) :=
  fold_left (fun acc kv => dict_set acc (fst kv) (snd kv)) u d.
Fixpoint dict_get (d : list (Z * Z)) (k : Z) : option Z :=
  match d with [] => None | (k', v) :: r => if k' =? k then Some v else dict_get r k end.

Record texec := { x_out : aout; x_result : option Z; x_values : list (Z * Z); x_ran : nat }.

(* result/values the task object had before (task.result = None, task.values = {} for a fresh task) *)
Fixpoint task_execute (acts : list act) (res : option Z) (vals : list (Z * Z)) (ran : nat) : texec :=
  match acts with
  | [] => {| x_out := AOk; x_result := res; x_values := vals; x_ran := ran |}
  | a :: r =>
    match a_out a with
    | AOk => task_execute r (a_result a) (dict_update vals (a_values a)) (S ran)
    | o => {| x_out := o; x_result := res; x_values := vals; x_ran := S ran |}
    end
  end.

(* ---- Stream._get_out_err (task.py 85-98): which streams are shown live ---- *)
Definition live_out (verbosity : Z) : bool := negb (verbosity =? 0) && negb (verbosity =? 1).
Definition live_err (verbosity : Z) : bool := negb (verbosity =? 0).

(* writes of an action: (is_stderr, chunk id), in program order *)
Definition chunks (err : bool) (ws : list (bool * Z)) : list Z :=
  map snd (filter (fun w => Bool.eqb (fst w) err) ws).

(* ---- the process-global stream cells sys.stdout / sys.stderr ----
   The two cells are handled by the same code, independently; the model is one cell, with the
   channel [b] (false = stdout, true = stderr) as a parameter of the step function.

   Values a cell can hold / that can be passed as `out`/`err`:
     SNone        the Python value None (only as `out`/`err` argument: no live stream)
     SOrig        the object that was in the cell when the observed program started
     SLive k      some other file-like object (a sink), named k
     SWriter i f  the Writer created by execution i of a python-action (action.py 447-451): it
                  writes into the StringIO of execution i and then into f (the `out`/`err` it
                  was given), if any

   PythonAction.execute (action.py 430-492), for each cell:
     capture_io:            old := cell; cell := Writer_i(out)          ... finally: cell := old; self.out := StringIO_i.getvalue()
     not capture_io, out:   old := cell; cell := out                    ... finally: cell := old
     not capture_io, None:  untouched
   The `finally` clause is executed however the callable ended, also when it raised an exception
   that `except Exception` does not catch ([Exit i e] carries the way it ended, [e]; RBaseExc
   included).
   [MFail]: _prepare_kwargs raises InvalidTask.  In the code as it was, that call sat between the
   swap and the try/finally (action.py 469), so the restore was skipped; the repaired code computes
   kwargs before the swap.  The flag [legacy] selects the old placement so that the defect stays
   stated (C17_restore_kwargs_legacy_refuted) next to the theorem about the current code. *)
Inductive stream := SNone | SOrig | SLive (k : nat) | SWriter (i : nat) (fwd : stream).
Definition stream_z (s : stream) : Z :=
  match s with SOrig => 0 | SWriter i _ => 1 + znat i | SLive k => 500 + znat k | SNone => -5 end.

Inductive emode := MFail | MCapture (fwd : stream) | MRedirect (tgt : stream) | MKeep.
(* action.py 437-462: what happens to a cell given task.io.capture and the out/err argument *)
Definition mode_for (capture : bool) (live : stream) : emode :=
  if capture then MCapture live else match live with SNone => MKeep | _ => MRedirect live end.

Inductive sop :=
| Enter (i : nat) (mo me : emode)     (* execution i starts: what it does to stdout / to stderr *)
| Write (err : bool) (c : Z)          (* the running code writes chunk c to sys.stderr / sys.stdout *)
| Exit (i : nat) (e : rtag).          (* the callable of execution i ended the way e says *)

Record sstate := mkS {
  s_cell : stream;                    (* the cell *)
  s_saved : nat -> stream;            (* local variable old_stdout of execution i *)
  s_live : nat -> bool;               (* execution i has something to restore *)
  s_cap : nat -> bool;                (* execution i captures (sets self.out in the finally) *)
  s_buf : nat -> list Z;              (* StringIO of execution i *)
  s_attr : nat -> option (list Z);    (* attribute self.out of the action of execution i *)
  s_orig : list Z;                    (* what was written into the original stream *)
  s_sink : nat -> list Z }.           (* what was written into the object SLive k *)
Definition s_init : sstate :=
  mkS SOrig (fun _ => SOrig) (fun _ => false) (fun _ => false) (fun _ => []) (fun _ => None) [] (fun _ => []).
Definition updn {A} (f : nat -> A) (k : nat) (v : A) : nat -> A := fun x => if Nat.eqb x k then v else f x.

Definition add_buf (s : sstate) (i : nat) (c : Z) : sstate :=
  mkS (s_cell s) (s_saved s) (s_live s) (s_cap s) (updn (s_buf s) i (s_buf s i ++ [c])) (s_attr s) (s_orig s) (s_sink s).
Definition add_orig (s : sstate) (c : Z) : sstate :=
  mkS (s_cell s) (s_saved s) (s_live s) (s_cap s) (s_buf s) (s_attr s) (s_orig s ++ [c]) (s_sink s).
Definition add_sink (s : sstate) (k : nat) (c : Z) : sstate :=
  mkS (s_cell s) (s_saved s) (s_live s) (s_cap s) (s_buf s) (s_attr s) (s_orig s) (updn (s_sink s) k (s_sink s k ++ [c])).

(* stream.write(c): Writer.write (action.py 360-363) goes through its writers in order *)
Fixpoint deliver (t : stream) (c : Z) (s : sstate) : sstate :=
  match t with
  | SNone => s
  | SOrig => add_orig s c
  | SLive k => add_sink s k c
  | SWriter i f => deliver f c (add_buf s i c)
  end.

Definition enter_swap (s : sstate) (i : nat) (new : stream) (cap : bool) : sstate :=
  mkS new (updn (s_saved s) i (s_cell s)) (updn (s_live s) i true) (updn (s_cap s) i cap)
      (if cap then updn (s_buf s) i [] else s_buf s) (s_attr s) (s_orig s) (s_sink s).

Definition sstep (legacy b : bool) (s : sstate) (o : sop) : sstate :=
  match o with
  | Enter i mo me =>
      match (if b then me else mo) with
      | MFail =>
          if legacy then mkS (SWriter i SNone) (s_saved s) (s_live s) (s_cap s) (s_buf s) (s_attr s) (s_orig s) (s_sink s)
                                                        (* swapped, never restored *)
          else s                                        (* raises before the swap *)
      | MCapture f => enter_swap s i (SWriter i f) true
      | MRedirect t => enter_swap s i t false
      | MKeep => mkS (s_cell s) (s_saved s) (updn (s_live s) i false) (s_cap s) (s_buf s) (s_attr s) (s_orig s) (s_sink s)
      end
  | Write e c => if Bool.eqb e b then deliver (s_cell s) c s else s
  | Exit i _ =>                                          (* the finally clause: whatever e is *)
      if s_live s i then
        mkS (s_saved s i) (s_saved s) (updn (s_live s) i false) (s_cap s) (s_buf s)
            (if s_cap s i then updn (s_attr s) i (Some (s_buf s i)) else s_attr s) (s_orig s) (s_sink s)
      else s
  end.
Definition srun (legacy b : bool) (ops : list sop) : sstate := fold_left (sstep legacy b) ops s_init.

(* properly nested sequences: each action exits before the enclosing one does (in particular
   sequential execution, and anything a single thread can do) *)
Definition sop_ids (o : sop) : list nat := match o with Enter i _ _ => [i] | Exit i _ => [i] | Write _ _ => [] end.
Definition ids_of (l : list sop) : list nat := flat_map sop_ids l.
(* [i] names one execution of one action (its local variables old_stdout/old_stderr/output), so
   an execution nested inside it has another name *)
Inductive nested : list sop -> Prop :=
| n_nil : nested []
| n_fail i l : nested l -> nested (Enter i MFail MFail :: l)
| n_write e c l : nested l -> nested (Write e c :: l)
| n_app i mo me e l1 l2 : mo <> MFail -> me <> MFail -> nested l1 -> nested l2 -> ~ In i (ids_of l1) ->
                          nested (Enter i mo me :: l1 ++ Exit i e :: l2).

(* what the correspondence check looks at: the cell, self.out of the listed executions (-1 =
   None, else -2 followed by the chunks), the original stream (-3 ...), the listed sinks (-4 ...) *)
Definition attr_z (a : option (list Z)) : list Z := match a with None => [-1] | Some l => -2 :: l end.
Definition observe (ids sinks : list nat) (s : sstate) : list Z :=
  stream_z (s_cell s) :: flat_map (fun i => attr_z (s_attr s i)) ids ++ -3 :: s_orig s
    ++ flat_map (fun k => -4 :: s_sink s k) sinks.

(* ---- one python-action / one task / one run, seen as such a sequence ----
   An action writes [as_ws] and then its callable ends the way [as_tag] says.  Task.execute hands
   every action the streams of Stream._get_out_err(verbosity) -- the cells themselves, looked up
   when the task starts; the runners execute one task at a time starting from the original
   streams, so these are SOrig. *)
Record aspec := { as_id : nat; as_ws : list (bool * Z); as_tag : rtag }.
Definition wops (ws : list (bool * Z)) : list sop := map (fun w => Write (fst w) (snd w)) ws.
Definition live_of (shown : bool) : stream := if shown then SOrig else SNone.
Definition act_ops (capture : bool) (v : Z) (a : aspec) : list sop :=
  Enter (as_id a) (mode_for capture (live_of (live_out v))) (mode_for capture (live_of (live_err v)))
    :: wops (as_ws a) ++ [Exit (as_id a) (as_tag a)].
(* task.py 476-480: the loop ends at the first action that does not succeed *)
Fixpoint task_ops (capture : bool) (v : Z) (acts : list aspec) : list sop :=
  match acts with
  | [] => []
  | a :: r => act_ops capture v a ++ match py_classify (as_tag a) with AOk => task_ops capture v r | _ => [] end
  end.
Fixpoint task_outcome (acts : list aspec) : aout :=
  match acts with
  | [] => AOk
  | a :: r => match py_classify (as_tag a) with AOk => task_outcome r | o => o end
  end.
(* the actions Task.execute starts: the successful prefix and the first unsuccessful one *)
Fixpoint started (acts : list aspec) : list aspec :=
  match acts with
  | [] => []
  | a :: r => a :: match py_classify (as_tag a) with AOk => started r | _ => [] end
  end.
(* a run of tasks that form one dependency chain (runner.py run_tasks; default options: the first
   task that does not succeed ends the run); each task has its own io.capture setting and may have
   teardown actions: registered when the task is started (runner.py 190-191), executed by finish()
   in reverse order of registration (252-260) -- run_all calls finish() in a `finally` clause
   (279-283), so also when an exception escaped from an action.  [tds]: the teardowns registered
   so far.  (Teardown actions whose own exception escapes are not modelled.)
   A run that ends with a user error before any task is started (cmd_run.py 204-208: TaskControl /
   control.process raise InvalidCommand / InvalidTask / InvalidDodoFile; option parsing) is
   [run_ops v [] []] = []: no event.  What the `run` command does to the cells OUTSIDE action
   executions is not part of this model: JsonReporter.__init__ (reporter.py 228-233) installs
   StringIO objects, complete_run (276-280) puts the saved ones back -- see Model/Report.v
   (w_swapped / init / unswap); harness/c17.py part H exercises it. *)
Record tspec := { t_capture : bool; t_acts : list aspec; t_teardown : list aspec }.
Fixpoint run_ops (v : Z) (tasks : list tspec) (tds : list sop) : list sop :=
  match tasks with
  | [] => tds
  | t :: r =>
      let tds' := task_ops (t_capture t) v (t_teardown t) ++ tds in
      task_ops (t_capture t) v (t_acts t) ++
        match task_outcome (t_acts t) with AOk => run_ops v r tds' | _ => tds' end
  end.
Fixpoint run_outcome (tasks : list tspec) : aout :=
  match tasks with
  | [] => AOk
  | t :: r => match task_outcome (t_acts t) with AOk => run_outcome r | o => o end
  end.

(* what one action leaves behind when Task.execute runs it on the original streams *)
Record captured := { c_out : option (list Z); c_err : option (list Z);      (* self.out / self.err *)
                     c_live_out : list Z; c_live_err : list Z;              (* shown on the original streams *)
                     c_cell_out : stream; c_cell_err : stream }.            (* sys.stdout / sys.stderr afterwards *)
Definition py_capture (capture : bool) (verbosity : Z) (ws : list (bool * Z)) (e : rtag) : captured :=
  let ops := act_ops capture verbosity {| as_id := 0; as_ws := ws; as_tag := e |} in
  let so := srun false false ops in
  let se := srun false true ops in
  {| c_out := s_attr so 0%nat; c_err := s_attr se 0%nat; c_live_out := s_orig so; c_live_err := s_orig se;
     c_cell_out := s_cell so; c_cell_err := s_cell se |}.

(* ---- which verbosity a task is executed with: the glue between the command line, the runner and
   Task.execute ----
   task.py 56-82 (Stream): a Stream holds the global verbosity and whether it is forced
   (command line).  Stream(None, f) falls back to Task.DEFAULT_VERBOSITY = 1 and is never forced
   (68-72). *)
Definition DEFAULT_VERBOSITY : Z := 1.
Record vstream := { vs_verbosity : Z; vs_force : bool }.
Definition mk_stream (verbosity : option Z) (force_global : bool) : vstream :=
  match verbosity with
  | Some v => {| vs_verbosity := v; vs_force := force_global |}
  | None => {| vs_verbosity := DEFAULT_VERBOSITY; vs_force := false |}
  end.
(* Stream.effective_verbosity (task.py 74-81); [tv] is the task's `verbosity` attribute, None = not given *)
Definition effective_verbosity (st : vstream) (tv : option Z) : Z :=
  if vs_force st then vs_verbosity st
  else match tv with Some v => v | None => vs_verbosity st end.
(* the `run` command: cmd_base.py 527 (config values of the dodo file / INI become the defaults of
   the options that were not given on the command line), 563 (force_verbosity = the option was
   given on the command line), cmd_run.py 246 (Stream(verbosity, force_verbosity)).
   [cli] = value of -v/--verbosity if given, [cfg] = value of the configuration if any. *)
Definition cmd_stream (cli cfg : option Z) : vstream :=
  mk_stream (match cli with Some v => Some v | None => cfg end)
            (match cli with Some _ => true | None => false end).

(* Runner.select_task (runner.py 107-186), as far as the attribute task.verbosity is concerned:
   a visit that finds node.run_status None (the first one) calls task.overwrite_verbosity
   (runner.py 124-125; task.py 484-485: self.verbosity := stream.effective_verbosity(self.verbosity))
   BEFORE any of its early returns; a later visit (run_status 'run', the else branch 161-177) leaves
   the attribute alone. *)
Definition select_visit (st : vstream) (first : bool) (attr : option Z) : option Z :=
  if first then Some (effective_verbosity st attr) else attr.
(* a task that is executed was visited once -- or twice if it has setup tasks: the first visit ends
   with `return False` (158-160: "dont execute now, execute setup first"), the dispatcher sends the
   task again after its setup tasks (control.py 528-547).  The attribute when Task.execute /
   Task.execute_teardown read it: *)
Definition attr_at_execute (st : vstream) (has_setup : bool) (raw : option Z) : option Z :=
  let a1 := select_visit st true raw in
  if has_setup then select_visit st false a1 else a1.
(* Task.execute hands the attribute to Stream._get_out_err (task.py 493, 506), which compares it
   with 0 and with 1 (91-96): None -- like any other value -- selects the last branch (both streams
   live).  -1 stands for None. *)
Definition verb_arg (attr : option Z) : Z := match attr with Some v => v | None => -1 end.

(* a run of tasks with their own verbosity and setup tasks.  [stask]: one task; [vtask]: a task and
   the tasks named in its `setup` (each used by this task only, without setup tasks of its own).
   Tasks are always executed here (no dependencies, so never up-to-date), default options: the
   setup tasks of a task run in the order given just before it (control.py 538-547), the first
   task that does not succeed ends the run (a task whose setup task failed is not executed). *)
Record stask := { st_verb : option Z; st_capture : bool; st_acts : list aspec; st_teardown : list aspec }.
Record vtask := { vt_task : stask; vt_setup : list stask }.
Definition has_setup (t : vtask) : bool := match vt_setup t with [] => false | _ => true end.
(* execution order: (visited twice?, task) *)
Definition units_of (ts : list vtask) : list (bool * stask) :=
  flat_map (fun t => map (fun s => (false, s)) (vt_setup t) ++ [(has_setup t, vt_task t)]) ts.
Definition exec_verbosity (st : vstream) (u : bool * stask) : Z :=
  verb_arg (attr_at_execute st (fst u) (st_verb (snd u))).
Fixpoint vrun_ops (st : vstream) (us : list (bool * stask)) (tds : list sop) : list sop :=
  match us with
  | [] => tds
  | u :: r =>
      let v := exec_verbosity st u in
      let t := snd u in
      let tds' := task_ops (st_capture t) v (st_teardown t) ++ tds in
      task_ops (st_capture t) v (st_acts t) ++
        match task_outcome (st_acts t) with AOk => vrun_ops st r tds' | _ => tds' end
  end.
Fixpoint vrun_outcome (us : list (bool * stask)) : aout :=
  match us with
  | [] => AOk
  | u :: r => match task_outcome (st_acts (snd u)) with AOk => vrun_outcome r | o => o end
  end.
(* the attribute task.verbosity of every task of the run afterwards, as the argument of
   _get_out_err; -9 for a task the run did not get to *)
Fixpoint vrun_verbs (st : vstream) (us : list (bool * stask)) : list Z :=
  match us with
  | [] => []
  | u :: r => exec_verbosity st u ::
      match task_outcome (st_acts (snd u)) with AOk => vrun_verbs st r | _ => map (fun _ => -9) r end
  end.
