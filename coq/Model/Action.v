(* Action.v -- model of doit/action.py (PythonAction.execute result classification, CmdAction
   exit-status classification, the save/set/restore discipline on sys.stdout/sys.stderr),
   doit/task.py Task.execute / Stream._get_out_err.  Definitions only. *)
From DoitV Require Export Base.
Open Scope Z_scope.

(* ---- what an action returns to Task.execute: None | TaskFailed | TaskError ---- *)
Inductive aout := AOk | AFailed | AError.
Definition aout_z (a : aout) : Z := match a with AOk => 0 | AFailed => 1 | AError => 2 end.

(* ---- python-action: the value the callable produced, by top-level tag ----
   action.py 472-513.  RRaises = the callable raised an Exception subclass. *)
Inductive rtag := RTrue | RFalse | RNone | RStr | RDict | RTaskFailed | RTaskError | ROther | RRaises.
Definition all_rtags := [RTrue; RFalse; RNone; RStr; RDict; RTaskFailed; RTaskError; ROther; RRaises].

Definition py_classify (t : rtag) : aout :=
  match t with
  | RRaises => AError            (* except Exception -> TaskError("PythonAction Error") *)
  | RFalse => AFailed            (* returned_value is False *)
  | RTrue | RNone => AOk
  | RStr => AOk                  (* result := value *)
  | RDict => AOk                 (* values := value; result := value *)
  | RTaskFailed => AFailed       (* isinstance(returned_value, (TaskFailed, TaskError)): returned as is *)
  | RTaskError => AError
  | ROther => AError
  end.

(* does the action object get a result / values from this return value? *)
Definition py_sets_result (t : rtag) : bool := match t with RStr | RDict => true | _ => false end.
Definition py_sets_values (t : rtag) : bool := match t with RDict => true | _ => false end.

(* ---- cmd-action: process.returncode (negative = killed by signal), action.py 259-266 ---- *)
Definition cmd_classify (rc : Z) : aout :=
  if rc >? 125 then AError else if negb (rc =? 0) then AFailed else AOk.

(* ---- Task.execute (task.py 470-483) ----
   One executed action contributes: its outcome, its `result` attribute (None = no result) and its
   `values` dict (association list, later keys win on merge). *)
Record act := { a_out : aout; a_result : option Z; a_values : list (Z * Z) }.

Fixpoint dict_set (d : list (Z * Z)) (k v : Z) : list (Z * Z) :=
  match d with
  | [] => [(k, v)]
  | (k', v') :: r => if k' =? k then (k', v) :: r else (k', v') :: dict_set r k v
  end.
Definition dict_update (d u : list (Z * Z)) : list (Z * Z) :=
  fold_left (fun acc kv => dict_set acc (fst kv) (snd kv)) u d.
Fixpoint dict_get (d : list (Z * Z)) (k : Z) : option Z :=
  match d with [] => None | (k', v) :: r => if k' =? k then Some v else dict_get r k end.

Record texec := { x_out : aout; x_result : option Z; x_values : list (Z * Z); x_ran : nat }.

(* result/values the task object had before (task.result = None, task.values = {} for a fresh task) *)
Fixpoint task_execute (acts : list act) (res : option Z) (vals : list (Z * Z)) (ran : nat) : texec :=
  match acts with
  | [] => {| x_out := AOk; x_result := res; x_values := vals; x_ran := ran |}
  | a :: r =>
    match a_out a with
    | AOk => task_execute r (a_result a) (dict_update vals (a_values a)) (S ran)
    | o => {| x_out := o; x_result := res; x_values := vals; x_ran := S ran |}
    end
  end.

(* ---- Stream._get_out_err (task.py 85-98): which streams are shown live ---- *)
Definition live_out (verbosity : Z) : bool := negb (verbosity =? 0) && negb (verbosity =? 1).
Definition live_err (verbosity : Z) : bool := negb (verbosity =? 0).

(* writes of an action: (is_stderr, chunk id).  With capture on, everything written is captured,
   per stream and in order; the live copy is the same sequence iff the stream is shown. *)
Definition chunks (err : bool) (ws : list (bool * Z)) : list Z :=
  map snd (filter (fun w => Bool.eqb (fst w) err) ws).
Record captured := { c_out : list Z; c_err : list Z; c_live_out : list Z; c_live_err : list Z }.
Definition py_capture (verbosity : Z) (ws : list (bool * Z)) : captured :=
  {| c_out := chunks false ws; c_err := chunks true ws;
     c_live_out := if live_out verbosity then chunks false ws else [];
     c_live_err := if live_err verbosity then chunks true ws else [] |}.

(* ---- the process-global stream cell (sys.stdout; sys.stderr is handled identically) ----
   PythonAction.execute with capture: old := cell; cell := Writer_i; ... finally cell := old.
   [kwargs_fail]: _prepare_kwargs raises InvalidTask.  In the code as it was, that call sat
   between the swap and the try/finally (action.py 469), so the restore was skipped; the repaired
   code computes kwargs before the swap.  The flag [legacy] selects the old placement so that the
   defect stays stated (C17_restore_kwargs_refuted) next to the theorem about the current code. *)
Inductive stream := SOrig | SWriter (i : nat).
Definition stream_z (s : stream) : Z := match s with SOrig => 0 | SWriter i => 1 + znat i end.

Inductive sop := Enter (i : nat) (kwargs_fail : bool) | Exit (i : nat).
Record sstate := { s_cell : stream; s_saved : nat -> stream; s_live : nat -> bool }.
Definition s_init : sstate := {| s_cell := SOrig; s_saved := fun _ => SOrig; s_live := fun _ => false |}.
Definition updn {A} (f : nat -> A) (k : nat) (v : A) : nat -> A := fun x => if Nat.eqb x k then v else f x.

Definition sstep (legacy : bool) (s : sstate) (o : sop) : sstate :=
  match o with
  | Enter i kf =>
      if kf then
        if legacy then {| s_cell := SWriter i; s_saved := s_saved s; s_live := s_live s |}   (* swapped, never restored *)
        else s                                                                               (* raises before the swap *)
      else {| s_cell := SWriter i; s_saved := updn (s_saved s) i (s_cell s); s_live := updn (s_live s) i true |}
  | Exit i =>
      if s_live s i then {| s_cell := s_saved s i; s_saved := s_saved s; s_live := updn (s_live s) i false |} else s
  end.
Definition srun (legacy : bool) (ops : list sop) : sstate := fold_left (sstep legacy) ops s_init.

(* properly nested sequences: each action exits before the enclosing one does (in particular
   sequential execution, and anything a single thread can do) *)
Definition sop_id (o : sop) : nat := match o with Enter i _ => i | Exit i => i end.
(* [i] names one execution of one action (its local variables old_stdout/old_stderr), so an
   execution nested inside it has another name *)
Inductive nested : list sop -> Prop :=
| n_nil : nested []
| n_fail i l : nested l -> nested (Enter i true :: l)
| n_app i l1 l2 : nested l1 -> nested l2 -> ~ In i (map sop_id l1) ->
                  nested (Enter i false :: l1 ++ Exit i :: l2).
