(* ItemObj.v -- an uptodate item as an OBJECT that lives in a process, on top of Status.v.

   Status.v / History.v treat an uptodate item as a value: [eval_utd d t u] and [saver d u] are functions
   of the item's declared input NOW ([UConfig dg]: dg = digest of the configuration at the moment of the
   call) and of the DB.  That is the right reading of a `doit` command line: the dodo file is loaded, the
   item objects are created, used once and dropped with the process.  It is NOT the whole story where the
   dodo namespace outlives one run -- DoitMain(ModuleTaskLoader(ns)).run(..) / doit.api.run_tasks(..)
   called several times by one program, the %doit magic of an IPython session: there the same item
   INSTANCE (created once, outside the task-creator, possibly shared by several tasks) is evaluated in
   many runs while the dict it was given is edited in place between them.

   tools.config_changed (doit/tools.py 49-81) is the item with an attribute that survives a call:
       __init__        self.config = config; self.config_digest = None            (55-58)
       configure_task  task.value_savers.append(lambda: {'_config_changed': self.config_digest})   (71-72)
                       -- the saver reads the ATTRIBUTE when it runs, after the execution
       __call__        self.config_digest = self._calc_digest()                  (76)  <- re-computed at EVERY call
                       last_success = values.get('_config_changed')
                       if last_success is None: return False
                       return last_success == self.config_digest
   [ccobj] is that attribute, [cc_call] / [cc_saver] the two methods, [CCcached] the variant that keeps a
   digest once computed (`if self.config_digest is None: self.config_digest = ...`), kept to state what
   goes wrong with it.  [now] is an oracle: the digest of the configuration as it is when the call is made.
   The other items of Status.v (run_once: a function; result_dep: `setup` overwrites dep_manager/tasks_dict
   at every evaluation, task.py/dependency.py 631-632; bool / None / callable / command) keep nothing
   between two calls.  Definitions only. *)
From DoitV Require Export Base Status.
Open Scope Z_scope.

Record ccobj := { cc_digest : option N }.                 (* self.config_digest *)
Definition cc_new : ccobj := {| cc_digest := None |}.     (* after __init__ *)

Inductive ccver := CCcurrent | CCcached.

(* __call__(task, values) on an object in state [o] while the configuration's digest is [now] *)
Definition cc_call (cv : ccver) (o : ccobj) (now : N) (values : vals) : ccobj * option bool :=
  let dg := match cv, cc_digest o with CCcached, Some d => d | _, _ => now end in
  ({| cc_digest := Some dg |},
   match vget values k_config with
   | Some (Some l) => Some (N.eqb l dg)
   | _ => Some false
   end).
(* the value-saver, run after a successful execution *)
Definition cc_saver (o : ccobj) : vals := [(k_config, cc_digest o)].

(* ---- the life of one instance in a process: calls (with the digest of the configuration at that moment and
   the values the DB holds for the task it is called for) and runs of its saver.  Encoding for the
   correspondence check: call -> [1; verdict 1/0/-1], saver -> [2; digest saved or -1 for None] ---- *)
Inductive cev := CCall (now : N) (values : vals) | CSave.
Definition ob_z (x : option bool) : Z := match x with Some true => 1 | Some false => 0 | None => -1 end.
Definition on_z (x : option N) : Z := match x with Some n => zN n | None => -1 end.
Fixpoint cc_life (cv : ccver) (o : ccobj) (evs : list cev) : list Z :=
  match evs with
  | [] => []
  | CCall now values :: r => let '(o', b) := cc_call cv o now values in [1; ob_z b] ++ cc_life cv o' r
  | CSave :: r => [2; on_z (cc_digest o)] ++ cc_life cv o r
  end.
(* the same events when every call is made on an instance created for it (what a new process per run does) *)
Fixpoint cc_life_fresh (cv : ccver) (o : ccobj) (evs : list cev) : list Z :=
  match evs with
  | [] => []
  | CCall now values :: r => let '(o', b) := cc_call cv cc_new now values in [1; ob_z b] ++ cc_life_fresh cv o' r
  | CSave :: r => [2; on_z (cc_digest o)] ++ cc_life_fresh cv o r
  end.

(* ---- the items of one task evaluated by get_status (dependency.py 625-661: in order, every item, whatever
   the others answer) on the instances [os] the task-creator handed out for them (one per item; only a
   config_changed item looks at its instance), and the value-savers run after the execution ---- *)
Definition eval_utd_obj (cv : ccver) (d : db) (t : name) (u : utd) (o : ccobj) : ccobj * option bool :=
  match u with
  | UConfig now => cc_call cv o now (get_values d t)
  | _ => (o, eval_utd d t u)
  end.
Definition saver_obj (d : db) (u : utd) (o : ccobj) : vals :=
  match u with
  | UConfig _ => cc_saver o
  | _ => saver d u
  end.
Fixpoint eval_items_obj (cv : ccver) (d : db) (t : name) (us : list utd) (os : list ccobj) : list ccobj * list (option bool) :=
  match us, os with
  | u :: us', o :: os' =>
      let '(o', b) := eval_utd_obj cv d t u o in
      let '(os'', bs) := eval_items_obj cv d t us' os' in (o' :: os'', b :: bs)
  | _, _ => ([], [])
  end.
(* Task.save_extra_values (task.py 459-462) with the savers of these instances *)
Definition save_extra_values_obj (d : db) (df : tdef) (os : list ccobj) : vals :=
  fold_left (fun acc uo => vupdate acc (saver_obj d (fst uo) (snd uo))) (combine (uptodate df) os) (act_values df).
