(* Status.v -- model of doit/dependency.py: MD5Checker / TimestampChecker (385-432),
   Dependency.save_success (528-560), get_values/get_result (562-589), remove_success, ignore,
   status_is_ignore (591-602), Dependency.get_status (604-724); the uptodate helpers run_once,
   config_changed (doit/tools.py 37-81) and result_dep (doit/task.py 619-674, single-task form)
   with their value-savers (Task.save_extra_values, task.py 459-462).  Definitions only.

   Conventions
   * a file is a small number; the file system is an oracle [fsys]; [md5] is a Section variable
     (the digest oracle; injectivity is not assumed anywhere in this file).
   * Python raises TypeError when a state saved by one checker is handed to the other one
     (MD5Checker.check_modified unpacks a float, MD5Checker.get_state indexes a float): the model
     makes that an explicit outcome ([None] of [check_modified], [GSCrash], status [Crash],
     save outcome [SaveCrash]) instead of hiding it.
   * [ver] selects the code version.  [current] is the code in /repo (HEAD, after the four `fix:`
     commits this model led to); [legacy] is the code before them, kept so that the defects
     stay stated (Properties/C03.v, Properties/C10.v, `..._legacy_refuted`) next to the theorems about
     the current code:
       fixA (6d84766): the dep-set comparison of get_status is also made when the saved 'deps:' is
              empty (`previous is not None` instead of `previous`);
       fixB (f6ac8a0): save_success drops the task's record first when another checker wrote it;
       fixC (the `fix:` commit on the loop `for dep in task.file_dep:` of get_status): a file
              dependency that is not in the saved 'deps:' list is listed in `changed` whatever state
              an older execution left for it (save_success never drops the entries of files that
              left file_dep), `or (previous_set is not None and dep not in previous_set)`.
       fixL (the `fix:` commit on DependencyStatus.add_reason / set_reason): the status of a
              DependencyStatus is decided by the FIRST reason handed to add_reason / set_reason --
              the point where get_log=False stops -- and later reasons are only logged (`_final`);
              the two log-only entries 'added_file_dep' / 'removed_file_dep' are written without
              deciding anything.  Before it every call assigned `self.status`, so that with
              get_log=True (`info`) the LAST reason won: a changed file_dep after a missing one turned
              'error' into 'run', a missing file_dep after a false uptodate item / missing target /
              ... turned 'run' into 'error' (Properties/C20.v, C20_info_agrees_legacy_refuted).
              Only the accumulate-all mode is concerned: with get_log=False both versions are the
              same function (StatusP.get_status_nolog_fixL_irrelevant).
   Line numbers refer to doit/dependency.py with the repair fixC, before fixL (which adds 9 lines to
   DependencyStatus and 2 to get_status: add 9 resp. 11 for the file at HEAD). *)
From DoitV Require Export Base.
Open Scope Z_scope.

Definition file := N.
Record meta := { mtime : Z; size : Z; content : N }.
Definition fsys := file -> option meta.
Definition exists_ (fs : fsys) (f : file) : bool := match fs f with Some _ => true | None => false end.

Inductive ck := MD5 | TS.
Definition ck_eqb (a b : ck) : bool := match a, b with MD5, MD5 | TS, TS => true | _, _ => false end.
Definition ck_z (c : ck) : Z := match c with MD5 => 1 | TS => 2 end.

(* state saved per file: MD5Checker (timestamp, size, md5) | TimestampChecker mtime *)
Inductive fstate := MD5state (m s : Z) (d : N) | TSstate (m : Z).

Record ver := { fixA : bool; fixB : bool; fixC : bool; fixL : bool }.
Definition current : ver := {| fixA := true; fixB := true; fixC := true; fixL := true |}.
Definition legacy : ver := {| fixA := false; fixB := false; fixC := false; fixL := false |}.

(* ---- task values: dict str -> int|None, keys coded as numbers ---- *)
Definition vals := list (N * option N).
Fixpoint vget (v : vals) (k : N) : option (option N) :=
  match v with [] => None | (k', x) :: r => if N.eqb k' k then Some x else vget r k end.
Fixpoint vset (v : vals) (k : N) (x : option N) : vals :=
  match v with
  | [] => [(k, x)]
  | (k', x') :: r => if N.eqb k' k then (k', x) :: r else (k', x') :: vset r k x
  end.
Definition vupdate (v u : vals) : vals := fold_left (fun acc kx => vset acc (fst kx) (snd kx)) u v.
Definition k_runonce : N := 0%N.                       (* 'run-once' *)
Definition k_config : N := 1%N.                        (* '_config_changed' *)
Definition k_user (i : N) : N := (2 * i + 2)%N.        (* keys produced by the task's actions *)
Definition k_result (t : name) : N := (2 * t + 3)%N.   (* '_result:<task>' *)

(* ---- uptodate items (task.py 298-323; evaluated in get_status 625-661) ---- *)
Inductive utd :=
| UBool (b : bool)
| UNone
| UOpaque (r : option bool)   (* callable / shell command: oracle; Some b = its truth value, None = returned None *)
| URunOnce                    (* tools.run_once *)
| UConfig (digest : N)        (* tools.config_changed; digest = the string / md5 of the dict (oracle) *)
| UResultDep (src : name).    (* task.result_dep on a task without sub-tasks *)

(* ---- task definition, as far as Dependency looks at it ---- *)
Record tdef := {
  file_dep : list file;      (* iteration order of the Python set task.file_dep *)
  targets : list file;
  uptodate : list utd;
  act_values : vals;         (* task.values after the actions ran (fresh Task: {} + dicts returned) *)
  act_result : option N      (* id of task.result when truthy (a str: saved as its md5); None = falsy *)
}.
Definition empty_def : tdef :=
  {| file_dep := []; targets := []; uptodate := []; act_values := []; act_result := None |}.

(* ---- per-task DB record (keys 'deps:', 'checker:', <path>, '_values_:', 'result:', 'ignore:') ---- *)
Record rec := {
  r_deps : option (list file);
  r_checker : option ck;
  r_saved : file -> option fstate;
  r_values : vals;
  r_result : option N;
  r_ignore : bool
}.
Definition empty_rec : rec :=
  {| r_deps := None; r_checker := None; r_saved := fun _ => None; r_values := []; r_result := None; r_ignore := false |}.
Definition db := name -> option rec.
Definition empty_db : db := fun _ => None.
Definition getrec (d : db) (t : name) : rec := match d t with Some r => r | None => empty_rec end.   (* backend.get on a missing key = None *)
Definition remove (d : db) (t : name) : db := upd d t None.
Definition remove_all (d : db) : db := empty_db.

Definition set_deps r x := {| r_deps := x; r_checker := r_checker r; r_saved := r_saved r; r_values := r_values r; r_result := r_result r; r_ignore := r_ignore r |}.
Definition set_checker r x := {| r_deps := r_deps r; r_checker := x; r_saved := r_saved r; r_values := r_values r; r_result := r_result r; r_ignore := r_ignore r |}.
Definition set_saved r f x := {| r_deps := r_deps r; r_checker := r_checker r; r_saved := upd (r_saved r) f x; r_values := r_values r; r_result := r_result r; r_ignore := r_ignore r |}.
Definition set_values r x := {| r_deps := r_deps r; r_checker := r_checker r; r_saved := r_saved r; r_values := x; r_result := r_result r; r_ignore := r_ignore r |}.
Definition set_result r x := {| r_deps := r_deps r; r_checker := r_checker r; r_saved := r_saved r; r_values := r_values r; r_result := x; r_ignore := r_ignore r |}.
Definition set_ignore r x := {| r_deps := r_deps r; r_checker := r_checker r; r_saved := r_saved r; r_values := r_values r; r_result := r_result r; r_ignore := x |}.

Definition get_values (d : db) (t : name) : vals := r_values (getrec d t).          (* 562-568 *)
Definition get_result (d : db) (t : name) : option N := r_result (getrec d t).      (* 585-590 *)
Definition remove_success (d : db) (t : name) : db := remove d t.                   (* 592-594 *)
Definition ignore (d : db) (t : name) : db := upd d t (Some (set_ignore (getrec d t) true)).   (* 596-598 *)
Definition status_is_ignore (d : db) (t : name) : bool := r_ignore (getrec d t).    (* 600-602 *)

Definition set_eqb (a b : list file) : bool := forallb (fun x => mem x b) a && forallb (fun x => mem x a) b.

Inductive status := UpToDate | Run | Error | Crash.
Definition status_z (s : status) : Z := match s with UpToDate => 0 | Run => 1 | Error => 2 | Crash => 98 end.
Definition status_eqb (a b : status) : bool := Z.eqb (status_z a) (status_z b).

Inductive gs := GSKeep | GSNew (s : fstate) | GSCrash.
Inductive save_out := SaveDone | SaveMissing (f : file) | SaveCrash.

(* reasons of get_status(get_log=True) (DependencyStatus.reasons) *)
Record reasons := {
  rs_uptodate_false : list nat;             (* positions of the items that evaluated false *)
  rs_no_deps : bool;
  rs_missing_target : list file;
  rs_checker_changed : option (ck * ck);    (* (previous, configured) *)
  rs_added : option (list file);
  rs_removed : option (list file);
  rs_missing_file_dep : list file;
  rs_changed_file_dep : list file
}.
Definition no_reasons : reasons :=
  {| rs_uptodate_false := []; rs_no_deps := false; rs_missing_target := []; rs_checker_changed := None;
     rs_added := None; rs_removed := None; rs_missing_file_dep := []; rs_changed_file_dep := [] |}.

Record gs_result := { g_status : status; g_changed : list file; g_reasons : reasons; g_db : db }.

(* outcome of the loop over file_dep in get_status (702-716) *)
Inductive floop := FLDone (changed missing : list file) | FLError (f : file) | FLCrash.
Inductive fv := FMissing | FChanged | FSame | FCrash.

Section Status.
Variable md5 : N -> N.
Variable v : ver.

(* ---- checkers ---- *)
(* check_modified: None = TypeError (MD5Checker handed a float), 396-410 / 428-429 *)
Definition check_modified (c : ck) (st : meta) (s : fstate) : option bool :=
  match c, s with
  | MD5, MD5state m sz d =>
      Some (if mtime st =? m then false                     (* 1 - same timestamp: unmodified *)
            else if negb (size st =? sz) then true          (* 2 - other size: modified *)
            else negb (N.eqb d (md5 (content st))))         (* 3 - digest *)
  | MD5, TSstate _ => None
  | TS, TSstate m => Some (negb (mtime st =? m))
  | TS, MD5state _ _ _ => Some true                         (* float != list *)
  end.

(* get_state for an existing file (a missing one raises FileNotFoundError before anything else), 413-421 / 431-432 *)
Definition state_of (c : ck) (st : meta) : fstate :=
  match c with MD5 => MD5state (mtime st) (size st) (md5 (content st)) | TS => TSstate (mtime st) end.
Definition get_state (c : ck) (st : meta) (cur : option fstate) : gs :=
  match c with
  | TS => GSNew (state_of TS st)
  | MD5 => match cur with
           | Some (TSstate _) => GSCrash                                     (* current_state[0] on a float *)
           | Some (MD5state m _ _) => if m =? mtime st then GSKeep           (* "return None": keep the old state *)
                                      else GSNew (state_of MD5 st)
           | None => GSNew (state_of MD5 st)
           end
  end.

(* ---- uptodate items ---- *)
Definition eval_utd (d : db) (t : name) (u : utd) : option bool :=
  match u with
  | UBool b => Some b
  | UNone => None
  | UOpaque r => r
  | URunOnce =>                                  (* values.get('run-once', False) *)
      match vget (get_values d t) k_runonce with
      | Some (Some x) => Some (negb (N.eqb x 0))
      | Some None => None
      | None => Some false
      end
  | UConfig dg =>                                (* tools.py 71-77 *)
      match vget (get_values d t) k_config with
      | Some (Some l) => Some (N.eqb l dg)
      | _ => Some false
      end
  | UResultDep src =>                            (* task.py 660-674 *)
      match vget (get_values d t) (k_result src) with
      | Some (Some l) => Some (match get_result d src with Some r => N.eqb l r | None => false end)
      | _ => Some false
      end
  end.
(* value-savers registered by the items (run when the task succeeded) *)
Definition saver (d : db) (u : utd) : vals :=
  match u with
  | URunOnce => [(k_runonce, Some 1%N)]
  | UConfig dg => [(k_config, Some dg)]
  | UResultDep src => [(k_result src, get_result d src)]
  | _ => []
  end.
(* Task.save_extra_values on a fresh Task whose actions produced act_values *)
Definition save_extra_values (d : db) (df : tdef) : vals :=
  fold_left (fun acc u => vupdate acc (saver d u)) (uptodate df) (act_values df).

(* ---- save_success, 528-560.  [result] = result_hash if given, else the md5 of a truthy task.result ---- *)
Fixpoint save_files (c : ck) (fs : fsys) (r : rec) (deps : list file) : rec * save_out :=
  match deps with
  | [] => (r, SaveDone)
  | f :: rest =>
      match fs f with
      | None => (r, SaveMissing f)                       (* os.path.getmtime raises FileNotFoundError *)
      | Some st =>
          match get_state c st (r_saved r f) with
          | GSCrash => (r, SaveCrash)
          | GSKeep => save_files c fs r rest
          | GSNew s => save_files c fs (set_saved r f (Some s)) rest
          end
      end
  end.
Definition wipe_if_other_checker (c : ck) (r : rec) : rec :=
  match r_checker r with
  | Some p => if fixB v && negb (ck_eqb p c) then empty_rec else r
  | None => r
  end.
Definition save_success_rec (c : ck) (fs : fsys) (r0 : rec) (deps : list file) (values : vals) (result : option N) : rec * save_out :=
  let r0' := wipe_if_other_checker c r0 in
  let r1 := set_values r0' values in
  let r2 := match result with Some h => set_result r1 (Some h) | None => r1 end in
  let r3 := set_checker r2 (Some c) in
  let '(r4, o) := save_files c fs r3 deps in
  match o with
  | SaveDone => (set_deps r4 (Some deps), SaveDone)
  | _ => (r4, o)                                          (* exception: what was set so far stays *)
  end.
Definition save_success (c : ck) (fs : fsys) (d : db) (t : name) (deps : list file) (values : vals) (result : option N) : db * save_out :=
  let '(r, o) := save_success_rec c fs (getrec d t) deps values result in (upd d t (Some r), o).

(* ---- get_status, 604-724 ---- *)
(* the saved state of one file against the file system: os.stat fails | no saved state / modified |
   unmodified | TypeError *)
Definition file_verdict (c : ck) (fs : fsys) (r : rec) (f : file) : fv :=
  match fs f with
  | None => FMissing
  | Some st =>
      match r_saved r f with
      | None => FChanged
      | Some s => match check_modified c st s with
                  | None => FCrash
                  | Some true => FChanged
                  | Some false => FSame
                  end
      end
  end.
(* `previous_set is not None and dep not in previous_set` (693, 716) *)
Definition outside_saved_deps (r : rec) (f : file) : bool :=
  match r_deps r with Some p => negb (mem f p) | None => false end.
(* one file_dep inside the loop (705-718): `state is None or (previous_set is not None and dep not in
   previous_set) or check_modified(dep, file_stat, state)`, in that order (a dependency outside the saved
   set is listed without its old state being compared: no TypeError for it).  Before fixC: [file_verdict]. *)
Definition dep_verdict (c : ck) (fs : fsys) (r : rec) (f : file) : fv :=
  match fs f with
  | None => FMissing
  | Some st =>
      match r_saved r f with
      | None => FChanged
      | Some s => if fixC v && outside_saved_deps r f then FChanged else
                  match check_modified c st s with
                  | None => FCrash
                  | Some true => FChanged
                  | Some false => FSame
                  end
      end
  end.
Fixpoint check_files (c : ck) (fs : fsys) (r : rec) (get_log : bool) (deps changed missing : list file) : floop :=
  match deps with
  | [] => FLDone (rev changed) (rev missing)
  | f :: rest =>
      match dep_verdict c fs r f with
      | FMissing => if get_log then check_files c fs r get_log rest changed (f :: missing) else FLError f
      | FChanged => check_files c fs r get_log rest (f :: changed) missing
      | FSame => check_files c fs r get_log rest changed missing
      | FCrash => FLCrash
      end
  end.

Fixpoint false_positions (l : list (option bool)) (i : nat) : list nat :=
  match l with
  | [] => []
  | Some false :: r => i :: false_positions r (S i)
  | _ :: r => false_positions r (S i)
  end.
Definition evaluated (l : list (option bool)) : list bool :=
  flat_map (fun x => match x with Some b => [b] | None => [] end) l.
Definition diff (a b : list file) : list file := filter (fun x => negb (mem x b)) a.

(* DependencyStatus.status after the loop and the final `set_reason('changed_file_dep', changed)` (720-722).
   [decided_before]: add_reason / set_reason was called before the loop (uptodate_false, has_no_dependencies,
   missing_target, checker_changed: all 'run'); [before_loop]: the status when the loop is entered.
   legacy: every add_reason / set_reason call assigns the status, the last one wins (the final
   'changed_file_dep' after the 'missing_file_dep' of the loop).
   fixL: the first call decides (`_final`): the ones before the loop, then the first missing file_dep of the
   loop ('error'), then 'changed_file_dep' ('run'); the dep-set comparison only assigns 'run' without deciding.
   With get_log=False nothing was decided before the loop and [missing] is empty: the same value in both. *)
Definition final_status (decided_before : bool) (before_loop : status) (changed missing : list file) : status :=
  if fixL v
  then (if decided_before then Run else if negb (is_nil missing) then Error
        else if negb (is_nil changed) then Run else before_loop)
  else (if negb (is_nil changed) then Run else if negb (is_nil missing) then Error else before_loop).

Definition get_status (c : ck) (fs : fsys) (d : db) (t : name) (df : tdef) (get_log : bool) : gs_result :=
  let ev := map (eval_utd d t) (uptodate df) in
  let falses := false_positions ev 0 in
  let rs0 := if get_log then {| rs_uptodate_false := falses; rs_no_deps := false; rs_missing_target := [];
                                rs_checker_changed := None; rs_added := None; rs_removed := None;
                                rs_missing_file_dep := []; rs_changed_file_dep := [] |} else no_reasons in
  let utd_false := negb (is_nil falses) in
  (* 663-665: any uptodate check is false *)
  if negb get_log && utd_false then {| g_status := Run; g_changed := []; g_reasons := rs0; g_db := d |} else
  (* 667-670: no dependencies *)
  let nodeps := is_nil (file_dep df) && is_nil (evaluated ev) in
  if negb get_log && nodeps then {| g_status := Run; g_changed := []; g_reasons := rs0; g_db := d |} else
  (* 673-678: targets *)
  let missing_t := filter (fun x => negb (exists_ fs x)) (targets df) in
  let target_missing := negb (is_nil missing_t) in
  if negb get_log && target_missing then {| g_status := Run; g_changed := file_dep df; g_reasons := rs0; g_db := d |} else
  (* 680-689: checker changed: the record is removed *)
  let prev_ck := r_checker (getrec d t) in
  let ck_changed := match prev_ck with Some p => negb (ck_eqb p c) | None => false end in
  let d1 := if ck_changed then remove d t else d in
  if negb get_log && ck_changed then {| g_status := Run; g_changed := file_dep df; g_reasons := rs0; g_db := d1 |} else
  (* 691-700: set of file_dep *)
  let r := getrec d1 t in
  let deps_changed :=
    match r_deps r with
    | None => false
    | Some [] => fixA v && negb (set_eqb [] (file_dep df))          (* legacy: `if previous_set and ...` skipped an empty saved list *)
    | Some p => negb (set_eqb p (file_dep df))
    end in
  let before_loop := if utd_false || nodeps || target_missing || ck_changed || deps_changed then Run else UpToDate in
  let changed_so_far := if target_missing || ck_changed then file_dep df else [] in
  (* 702-722: each file *)
  match check_files c fs r get_log (file_dep df) [] [] with
  | FLCrash => {| g_status := Crash; g_changed := changed_so_far; g_reasons := rs0; g_db := d1 |}
  | FLError f => {| g_status := Error; g_changed := changed_so_far; g_reasons := rs0; g_db := d1 |}
  | FLDone changed missing =>
      let st := final_status (utd_false || nodeps || target_missing || ck_changed) before_loop changed missing in
      let rs := if get_log then
                  {| rs_uptodate_false := falses; rs_no_deps := nodeps; rs_missing_target := missing_t;
                     rs_checker_changed := if ck_changed then match prev_ck with Some p => Some (p, c) | None => None end else None;
                     rs_added := if deps_changed then Some (diff (file_dep df) (match r_deps r with Some p => p | None => [] end)) else None;
                     rs_removed := if deps_changed then Some (diff (match r_deps r with Some p => p | None => [] end) (file_dep df)) else None;
                     rs_missing_file_dep := missing; rs_changed_file_dep := changed |}
                else no_reasons in
      {| g_status := st; g_changed := changed; g_reasons := rs; g_db := d1 |}
  end.

(* ---- what Runner.process_task_result does with a successful execution (runner.py 177-192):
   save_extra_values; save_success; FileNotFoundError -> remove_success (via _handle_task_error) ---- *)
Definition process_success (c : ck) (fs : fsys) (d : db) (t : name) (df : tdef) : db * save_out :=
  let '(d', o) := save_success c fs d t (file_dep df) (save_extra_values d df) (act_result df) in
  match o with
  | SaveMissing _ => (remove_success d' t, o)
  | _ => (d', o)
  end.

(* ---- cmd_resetdep.py 47-70, for one task; outcome: 0 failed(missing dep), 1 skip, 2 processed, 98 TypeError ---- *)
Definition reset_dep (c : ck) (fs : fsys) (d : db) (t : name) (df : tdef) : db * Z :=
  let values := get_values d t in
  let result := get_result d t in
  if negb (forallb (exists_ fs) (file_dep df)) then (d, 0) else
  let g := get_status c fs d t df false in
  match g_status g with
  | Crash => (g_db g, 98)
  | UpToDate => (g_db g, 1)
  | _ => let '(d', o) := save_success c fs (g_db g) t (file_dep df) values result in
         (d', match o with SaveDone => 2 | _ => 98 end)
  end.

End Status.

(* ---- encodings used by the correspondence check ---- *)
Definition bitmask (l : list file) : Z := fold_left (fun acc f => Z.lor acc (Z.shiftl 1 (Z.of_N f))) l 0.
Definition fstate_z (s : option fstate) : list Z :=
  match s with
  | None => [0; 0; 0; 0]
  | Some (MD5state m sz d) => [1; m; sz; zN d]
  | Some (TSstate m) => [2; m; 0; 0]
  end.
