(* Getargs.v -- one `doit run --continue T..` over tasks that take values from other tasks:
   `getargs` (doit/task.py 418-436: one implicit result_dep(provider, setup_dep=True) per provider,
   appended to `uptodate`; the provider becomes a SETUP-task) and explicit `uptodate=[result_dep(p)]`
   (task.py 640-690: the provider becomes a task_dep).  On top of Status.v / History.v: a run is
   the sequence of the primitive operations Check / SaveOk / Remove of History.v, in the order the
   serial runner reaches them (doit/control.py TaskDispatcher._add_task 425-548, doit/runner.py
   Runner.select_task 108-173, _get_task_args 75-105, process_task_result 177-192):

     visit t  =  already created (control.py _gen_node): nothing
                 every task_dep of t is visited (and finished) first
                 select_task: ignored (own flag / an ignored task_dep) | a failed task_dep: failure |
                              get_status: error -> failure, up-to-date -> skipped,
                              run -> every setup-task of t is visited now (control.py 530-546), THEN
                                     second select_task: ignored / failed setup-task, _get_task_args
                                     (provider without record or without the key: failure),
                                     execute, and on success save_extra_values + save_success.

   The value saver of result_dep reads the provider's result when it is CALLED, i.e. at SaveOk --
   after the setup-tasks ran (task.py 685-688, "get latest value after execution of dependent
   task"): that is [saver] of Status.v evaluated in the DB of the moment of the SaveOk.
   Cycles are rejected by doit before anything runs (control.py 395-401): [ra_cyc] marks them, the
   theorems exclude them; so does [ra_fuel] (out of fuel).  Definitions only. *)
From DoitV Require Export Base Status History.
Open Scope Z_scope.

(* a task as the dodo file gives it *)
Record rdef := {
  rd_def : tdef;                   (* file_dep, targets, uptodate AS WRITTEN (explicit result_dep items included), what the actions return *)
  rd_getargs : list (name * N)     (* getargs entries (provider, i) = ('T<provider>', 'u<i>'); providers in the order of task.setup_tasks *)
}.
Definition empty_rdef : rdef := {| rd_def := empty_def; rd_getargs := [] |}.

Fixpoint nodupn (l : list name) : list name :=
  match l with [] => [] | x :: r => x :: rem x (nodupn r) end.
Definition setup_tasks (d : rdef) : list name := nodupn (map fst (rd_getargs d)).
Definition task_deps (d : rdef) : list name :=
  flat_map (fun u => match u with UResultDep src => [src] | _ => [] end) (uptodate (rd_def d)).
(* what Dependency sees: Task.__init__ extends `uptodate` by the result_dep items of getargs (task.py 234-236) *)
Definition eff (d : rdef) : tdef :=
  {| file_dep := file_dep (rd_def d); targets := targets (rd_def d);
     uptodate := uptodate (rd_def d) ++ map UResultDep (setup_tasks d);
     act_values := act_values (rd_def d); act_result := act_result (rd_def d) |}.

(* Runner._get_task_args for single tasks: dep_manager.get_value raises when the provider has no record
   or its saved values lack the key (dependency.py 570-583) *)
Definition arg_ok (d : db) (pk : name * N) : bool :=
  match d (fst pk) with
  | None => false
  | Some r => match vget (r_values r) (k_user (snd pk)) with Some _ => true | None => false end
  end.
Definition args_ok (d : db) (l : list (name * N)) : bool := forallb (arg_ok d) l.

(* final codes of a task in a run: 0 executed+saved, 1 executed+failed, 2 skipped up-to-date, 3 skipped ignored,
   4 failed without being executed (dependency error, unmet dependency, getargs error), 98 TypeError *)
Record racc := {
  ra_s : state;
  ra_started : list name;          (* nodes created so far *)
  ra_fin : list (name * Z);        (* final report of each finished task, in order *)
  ra_cyc : bool;                   (* a task was reached again before it finished: cyclic dependencies *)
  ra_fuel : bool                   (* out of fuel *)
}.
Definition with_s (a : racc) (s : state) : racc :=
  {| ra_s := s; ra_started := ra_started a; ra_fin := ra_fin a; ra_cyc := ra_cyc a; ra_fuel := ra_fuel a |}.
Definition started (a : racc) (t : name) : racc :=
  {| ra_s := ra_s a; ra_started := t :: ra_started a; ra_fin := ra_fin a; ra_cyc := ra_cyc a; ra_fuel := ra_fuel a |}.
Definition finish (a : racc) (s : state) (t : name) (c : Z) : racc :=
  {| ra_s := s; ra_started := ra_started a; ra_fin := ra_fin a ++ [(t, c)]; ra_cyc := ra_cyc a; ra_fuel := ra_fuel a |}.
Definition set_cyc (a : racc) : racc :=
  {| ra_s := ra_s a; ra_started := ra_started a; ra_fin := ra_fin a; ra_cyc := true; ra_fuel := ra_fuel a |}.
Definition set_fuel (a : racc) : racc :=
  {| ra_s := ra_s a; ra_started := ra_started a; ra_fin := ra_fin a; ra_cyc := ra_cyc a; ra_fuel := true |}.

Fixpoint fin_of (l : list (name * Z)) (t : name) : option Z :=
  match l with [] => None | (t', c) :: r => if N.eqb t' t then Some c else fin_of r t end.
(* ExecNode.parent_status (control.py 329-333) *)
Definition is_failure (c : Z) : bool := (c =? 1) || (c =? 4) || (c =? 98).
Definition dep_bad (a : racc) (deps : list name) : bool :=
  existsb (fun d => match fin_of (ra_fin a) d with Some c => is_failure c | None => false end) deps.
Definition dep_ign (a : racc) (deps : list name) : bool :=
  existsb (fun d => match fin_of (ra_fin a) d with Some c => c =? 3 | None => false end) deps.

Section Run.
Variable md5 : N -> N.
Variable size_of : N -> Z.
Variable v : ver.
Variable G : name -> rdef.
Variable fails : name -> bool.     (* the actions of the task fail in this run *)

Notation step := (step md5 size_of v).

Definition save_code (s : state) : Z :=
  match s_log s with OSave _ SaveDone :: _ => 0 | _ => 1 end.   (* FileNotFoundError in save_success: reported as a failure *)

Fixpoint visit (fuel : nat) (a : racc) (t : name) : racc :=
  match fuel with
  | O => set_fuel a
  | S fuel =>
    if mem t (ra_started a) then
      (match fin_of (ra_fin a) t with Some _ => a | None => set_cyc a end)
    else
    let a := fold_left (visit fuel) (task_deps (G t)) (started a t) in
    let s := ra_s a in
    if dep_ign a (task_deps (G t)) || status_is_ignore (s_db s) t then finish a s t 3 else
    if dep_bad a (task_deps (G t)) then finish a (step s (Remove t)) t 4 else
    let s1 := step s (Check t) in
    match g_status (check md5 v s t) with
    | Error => finish a (step s1 (Remove t)) t 4
    | Crash => finish a s1 t 98
    | UpToDate => finish a s1 t 2
    | Run =>
        let a := fold_left (visit fuel) (setup_tasks (G t)) (with_s a s1) in
        let s2 := ra_s a in
        if dep_ign a (setup_tasks (G t)) then finish a s2 t 3 else
        if dep_bad a (setup_tasks (G t)) then finish a (step s2 (Remove t)) t 4 else
        if negb (args_ok (s_db s2) (rd_getargs (G t))) then finish a (step s2 (Remove t)) t 4 else
        if fails t then finish a (step s2 (Remove t)) t 1 else
        let s3 := step s2 (SaveOk t) in
        finish a s3 t (save_code s3)
    end
  end.

Definition run_acc (fuel : nat) (s : state) (sel : list name) : racc :=
  fold_left (visit fuel) sel {| ra_s := s; ra_started := []; ra_fin := []; ra_cyc := false; ra_fuel := false |}.

End Run.

(* ---- run-level histories: primitive operations, definitions with getargs, whole runs ---- *)
Inductive gop :=
| GP (o : op)                                  (* file operations, SetChecker, Remove (= forget t), Ignore *)
| GSetDef (t : name) (d : rdef)
| GRun (sel : list name) (failing : list name).

Record gstate := {
  gs_s : state;
  gs_defs : name -> rdef;
  gs_out : list Z                              (* per run: t; code for every finished task in order, then -8 (or -9 cycle / -10 fuel) *)
}.
Definition ginit : gstate := {| gs_s := init; gs_defs := fun _ => empty_rdef; gs_out := [] |}.
Definition run_fuel : nat := 12.

Section GHistory.
Variable md5 : N -> N.
Variable size_of : N -> Z.
Variable v : ver.

Definition gstep (g : gstate) (o : gop) : gstate :=
  match o with
  | GP o => {| gs_s := step md5 size_of v (gs_s g) o; gs_defs := gs_defs g; gs_out := gs_out g |}
  | GSetDef t d =>
      {| gs_s := step md5 size_of v (gs_s g) (SetDef t (eff d)); gs_defs := upd (gs_defs g) t d; gs_out := gs_out g |}
  | GRun sel failing =>
      let a := run_acc md5 size_of v (gs_defs g) (fun t => mem t failing) run_fuel (gs_s g) sel in
      {| gs_s := ra_s a; gs_defs := gs_defs g;
         gs_out := gs_out g ++ flat_map (fun tc => [zN (fst tc); snd tc]) (ra_fin a)
                            ++ [if ra_fuel a then -10 else if ra_cyc a then -9 else -8] |}
  end.
Definition grun_from (g : gstate) (l : list gop) : gstate := fold_left gstep l g.
Definition grun (l : list gop) : gstate := grun_from ginit l.

(* FS-fresh for run-level histories ([op_ok] of History.v for every file operation); the definitions change through
   GSetDef only (a bare SetDef would bypass getargs) *)
Definition gop_ok (g : gstate) (o : gop) : bool :=
  match o with
  | GP (SetDef _ _) => false
  | GP o => op_ok size_of (gs_s g) o
  | _ => true
  end.
Fixpoint ghist_ok_from (g : gstate) (l : list gop) : bool :=
  match l with [] => true | o :: r => gop_ok g o && ghist_ok_from (gstep g o) r end.
Definition ghist_ok (l : list gop) : bool := ghist_ok_from ginit l.

(* the run that `GRun sel failing` makes in the state reached by a history *)
Definition run_after (l : list gop) (sel failing : list name) : racc :=
  let g := grun l in run_acc md5 size_of v (gs_defs g) (fun t => mem t failing) run_fuel (gs_s g) sel.

End GHistory.

Definition gobserve (tasks : list name) (files : list file) (g : gstate) : list Z :=
  gs_out g ++ [-7] ++ db_z tasks files (s_db (gs_s g)).
