(* JsonText.v -- the last step of JsonReporter.complete_run (doit/reporter.py 272-293):

       json.dump(json_data, self.outstream)

   i.e. which CHARACTERS the document consists of and what happens when they are written to a text
   stream that can only take the characters of its codec.  Model/Report.v stops one step earlier (the
   document is an abstract item [ODoc] whose write always succeeds, texts are tokens); here the texts are
   what they are in the implementation: Python str values = lists of code points 0 .. 0x10FFFF, lone
   surrogates included (os.fsdecode gives U+DC80..U+DCFF for bytes that are not UTF-8).  Definitions only.

   json_data (reporter.py 284-289) has a fixed shape:
       {'tasks': [TaskResult.to_dict(), ...], 'out': str, 'err': str}
   TaskResult.to_dict (195-202):
       {'name': str, 'result': str|None, 'out': str|None, 'err': str|None, 'error': str|None,
        'started': str|None, 'elapsed': float|None}
   json.dump with its defaults (json/__init__.py 120-180, json/encoder.py): ensure_ascii=True,
   separators ', ' and ': ', keys in insertion order, None -> null, str -> encode_basestring_ascii,
   float -> float.__repr__ (an oracle here: the text of the number is an input of the model).

   Not modelled: the granularity (chunks of _make_iterencode) at which a FAILING write would stop --
   C19_json_text_write_never_fails shows that no write of this document fails. *)
From DoitV Require Import Base.
From Coq Require Import String Ascii.
Open Scope N_scope.

Definition text := list N.

(* a literal of the Python source *)
Fixpoint t (s : string) : text :=
  match s with EmptyString => [] | String a r => N_of_ascii a :: t r end.

(* ---------------- str -> JSON string, json/encoder.py 37-70 (py_encode_basestring_ascii; the C
   accelerator c_encode_basestring_ascii implements the same table) ---------------- *)
Definition hexd (d : N) : N := if d <? 10 then 48 + d else 87 + d.          (* '{:x}': 0-9 a-f *)
Definition hex4 (n : N) : text :=
  [hexd (n / 4096 mod 16); hexd (n / 256 mod 16); hexd (n / 16 mod 16); hexd (n mod 16)].
Definition uesc (n : N) : text := 92 :: 117 :: hex4 n.                      (* backslash u + 4 lower-case hex digits *)

(* ESCAPE_ASCII: everything outside space .. tilde, the backslash and the double quote are replaced;
   ESCAPE_DCT: the seven short escapes, \u00XX for the other control characters; replace(): \uXXXX below
   0x10000, else the UTF-16 surrogate pair of the code point *)
Definition printable (c : N) : bool := (32 <=? c) && (c <=? 126).
Definition esc_char (c : N) : text :=
  if c =? 34 then [92; 34] else                 (* the double quote *)
  if c =? 92 then [92; 92] else                 (* the backslash *)
  if c =? 10 then [92; 110] else                (* \n *)
  if c =? 13 then [92; 114] else                (* \r *)
  if c =? 9 then [92; 116] else                 (* \t *)
  if c =? 12 then [92; 102] else                (* \f *)
  if c =? 8 then [92; 98] else                  (* \b *)
  if printable c then [c] else
  if c <? 65536 then uesc c else
  let v := c - 65536 in
  uesc (55296 + (v / 1024) mod 1024) ++ uesc (56320 + v mod 1024).
Definition esc_body (s : text) : text := flat_map esc_char s.
Definition esc_string (s : text) : text := 34 :: esc_body s ++ [34].

(* ---------------- the document ---------------- *)
Record jtask := {
  jt_name : text;
  jt_result : option text;      (* 'success' / 'fail' / 'up-to-date' / 'ignore' / None *)
  jt_out : option text;         (* None until set_result joined the captured output of the actions *)
  jt_err : option text;
  jt_error : option text;       (* exception.get_msg() of the failure *)
  jt_started : option text;     (* str(datetime.utcnow()) *)
  jt_elapsed : option text      (* float.__repr__ of the elapsed time: text of a JSON number (oracle) *)
}.
Record jtdoc := { jd_tasks : list jtask; jd_out : text; jd_err : text }.

Definition null : text := t "null".
Definition sep : text := t ", ".
Definition opt_str (o : option text) : text := match o with None => null | Some s => esc_string s end.
Definition opt_num (o : option text) : text := match o with None => null | Some s => s end.
Definition key (k : string) : text := esc_string (t k) ++ t ": ".

Definition dumps_task (r : jtask) : text :=
  t "{" ++ key "name" ++ esc_string (jt_name r) ++ sep ++ key "result" ++ opt_str (jt_result r) ++ sep ++
  key "out" ++ opt_str (jt_out r) ++ sep ++ key "err" ++ opt_str (jt_err r) ++ sep ++
  key "error" ++ opt_str (jt_error r) ++ sep ++ key "started" ++ opt_str (jt_started r) ++ sep ++
  key "elapsed" ++ opt_num (jt_elapsed r) ++ t "}".

Fixpoint join (s : text) (l : list text) : text :=
  match l with
  | [] => []
  | x :: r => match r with [] => x | _ => x ++ s ++ join s r end
  end.

Definition dumps_doc (d : jtdoc) : text :=
  t "{" ++ key "tasks" ++
  (match jd_tasks d with [] => t "[]" | l => t "[" ++ join sep (map dumps_task l) ++ t "]" end) ++ sep ++
  key "out" ++ esc_string (jd_out d) ++ sep ++ key "err" ++ esc_string (jd_err d) ++ t "}".

(* the texts of numbers are made of printable ASCII characters (float.__repr__: digits . e + - inf nan) *)
Definition num_ok (r : jtask) : bool :=
  match jt_elapsed r with None => true | Some s => forallb printable s end.
Definition nums_ok (d : jtdoc) : bool := forallb num_ok (jd_tasks d).

(* ---------------- a text stream with errors='strict' ---------------- *)
(* a (stateless) codec: the bytes of a character, None = UnicodeEncodeError *)
Definition codec_t := N -> option (list N).
(* (an exception was raised, the bytes that reached the stream before it) *)
Fixpoint write (enc : codec_t) (s : text) : bool * list N :=
  match s with
  | [] => (false, [])
  | c :: r => match enc c with
              | None => (true, [])
              | Some b => let (e, o) := write enc r in (e, b ++ o)
              end
  end.

Definition is_surrogate (c : N) : bool := (55296 <=? c) && (c <=? 57343).
Definition codec_ascii : codec_t := fun c => if c <? 128 then Some [c] else None.
Definition codec_latin1 : codec_t := fun c => if c <? 256 then Some [c] else None.
Definition codec_utf8 : codec_t := fun c =>
  if c <? 128 then Some [c] else
  if c <? 2048 then Some [192 + c / 64; 128 + c mod 64] else
  if is_surrogate c then None else
  if c <? 65536 then Some [224 + c / 4096; 128 + (c / 64) mod 64; 128 + c mod 64] else
  if c <? 1114112 then Some [240 + c / 262144; 128 + (c / 4096) mod 64; 128 + (c / 64) mod 64; 128 + c mod 64]
  else None.
Definition codec (k : N) : codec_t :=
  match k with 0 => codec_ascii | 1 => codec_latin1 | _ => codec_utf8 end.

(* ---------------- the reader: json/decoder.py 69-127 (py_scanstring, strict), entered after the
   opening quote: (the str, what follows the closing quote); None = JSONDecodeError ---------------- *)
Definition unhexd (c : N) : option N :=
  if (48 <=? c) && (c <=? 57) then Some (c - 48) else
  if (97 <=? c) && (c <=? 102) then Some (c - 87) else
  if (65 <=? c) && (c <=? 70) then Some (c - 55) else None.
Definition unhex4 (a b c d : N) : option N :=
  match unhexd a, unhexd b, unhexd c, unhexd d with
  | Some x, Some y, Some z, Some w => Some (((x * 16 + y) * 16 + z) * 16 + w)
  | _, _, _, _ => None
  end.
(* BACKSLASH table *)
Definition unescape (e : N) : option N :=
  if e =? 34 then Some 34 else if e =? 92 then Some 92 else if e =? 47 then Some 47 else
  if e =? 98 then Some 8 else if e =? 102 then Some 12 else if e =? 110 then Some 10 else
  if e =? 114 then Some 13 else if e =? 116 then Some 9 else None.
Definition is_high (u : N) : bool := (55296 <=? u) && (u <=? 56319).
Definition is_low (u : N) : bool := (56320 <=? u) && (u <=? 57343).
Definition comb (hi lo : N) : N := 65536 + (hi - 55296) * 1024 + (lo - 56320).
Definition push (c : N) (x : option (text * text)) : option (text * text) :=
  match x with Some (s, r) => Some (c :: s, r) | None => None end.

Fixpoint scan (s : text) : option (text * text) :=
  match s with
  | [] => None                                            (* Unterminated string *)
  | c :: r =>
    if c =? 34 then Some ([], r) else
    if c <? 32 then None else                             (* Invalid control character *)
    if negb (c =? 92) then push c (scan r) else
    match r with
    | [] => None
    | e :: r1 =>
      if negb (e =? 117) then
        match unescape e with Some ch => push ch (scan r1) | None => None end
      else
        match r1 with
        | a :: b :: c3 :: d :: r2 =>
          match unhex4 a b c3 d with
          | None => None
          | Some u =>
            if is_high u then                             (* 0xd800 <= uni <= 0xdbff and the next two characters are backslash u *)
              match r2 with
              | b1 :: r2a =>
                if b1 =? 92 then
                  match r2a with
                  | u1 :: r2b =>
                    if u1 =? 117 then
                      match r2b with
                      | a2 :: b2 :: c2 :: d2 :: r3 =>
                        match unhex4 a2 b2 c2 d2 with
                        | None => None
                        | Some u2 => if is_low u2 then push (comb u u2) (scan r3) else push u (scan r2)
                        end
                      | _ => None
                      end
                    else push u (scan r2)
                  | [] => push u (scan r2)
                  end
                else push u (scan r2)
              | [] => push u (scan r2)
              end
            else push u (scan r2)
          end
        | _ => None
        end
    end
  end.

(* what the reader makes of the code points of a str that went through esc_string: a high half followed
   by a low half is one character in the \u notation *)
Fixpoint merge (s : text) : text :=
  match s with
  | [] => []
  | h :: r => match r with
              | l :: r' => if is_high h && is_low l then comb h l :: merge r' else h :: merge r
              | [] => [h]
              end
  end.
Fixpoint no_pair (s : text) : bool :=
  match s with
  | [] => true
  | h :: r => match r with l :: _ => negb (is_high h && is_low l) && no_pair r | [] => true end
  end.
Definition code_point (c : N) : bool := c <? 1114112.

(* ---------------- encoding for the correspondence check ---------------- *)
Definition enc_written (x : bool * list N) : list Z := zb (fst x) :: map zN (snd x).
Definition enc_scan (x : option (text * text)) : list Z :=
  match x with None => [0]%Z | Some (s, r) => [1%Z; znat (List.length r)] ++ map zN s end.
