(* Model/Inspect.v -- the commands that only LOOK at the tasks, as steps of a C13 history.

   "After `ignore T`, T ... are skipped on every later run UNTIL FORGOTTEN": between the `ignore` and a
   later run a user gives other commands -- `list [--status]`, `info T`, `clean [-n]` -- each with its own
   options, among them --check_file_uptodate (the file checker of THAT command, which may differ from
   the one that wrote the records and from the one of the next run).  None of them is `forget`.

   This file turns the models of cmd_list.py / cmd_info.py (Model/Introspect.v, written for C20) into
   steps of the command histories of Model/Commands.v: same task table (a Commands.table), same
   [cmd_out] (outcome, lines, DB afterwards) so that Commands.observe_cmd / next_run apply to what they
   leave.  The DB afterwards is what is ON DISK when the process ends: neither command calls
   dep_manager.close(), so what get_status removed in memory (a record written under another checker,
   dependency.py 680-689) is gone from the file with the dbm backend only (Introspect.persisted).

   Nothing here is new decision logic: list_step / info_step are Introspect.list_cmd / info_cmd at HEAD
   ([icurrent]) seen through [cmd_out]; [clean_step] is `clean` without --forget on tasks that have
   no clean actions (the only form the C13 check uses): it does not touch the DB. *)
From DoitV Require Import Base Status History Commands.
From DoitV Require Introspect.
Open Scope Z_scope.

(* a row of the loader's table as cmd_list / cmd_info see the Task object; no task name of the C13
   check starts with '_' *)
Definition ltask_of (e : name * ctask) : Introspect.ltask :=
  {| Introspect.l_name := fst e; Introspect.l_private := false;
     Introspect.l_subtask_of := c_subtask_of (snd e);
     Introspect.l_task_dep := c_task_dep (snd e);
     Introspect.l_calc_dep := c_calc_dep (snd e);
     Introspect.l_def := c_def (snd e) |}.
Definition ltable (tb : table) : Introspect.table := map ltask_of tb.

(* the values the calc_dep tasks of the C13 check save name no file_dep / calc_dep / task_dep *)
Definition nocv : name -> Introspect.cvals := fun _ => Introspect.no_cvals.

(* the task lines `list` wrote: (task, letter: 0 none | 1 I | 2 U | 3 R | 4 E) *)
Fixpoint letters (ls : list Introspect.lline) : list (name * Z) :=
  match ls with
  | [] => []
  | Introspect.LTask n st :: r => (n, Introspect.enc_letter st) :: letters r
  | _ :: r => letters r
  end.

Section Inspect.
Variable md5 : N -> N.
Variable v : ver.
Variable name_ltb : name -> name -> bool.      (* oracle: `<` on the task-name strings (sorted(print_list)) *)

Definition list_res (tb : table) (o : Introspect.lopts) (c : ck) (fs : fsys) (d : db) : Introspect.lres :=
  Introspect.list_cmd md5 v name_ltb Introspect.icurrent nocv (ltable tb) o c fs d.
Definition info_res (tb : table) (pos : list name) (hide : bool) (c : ck) (fs : fsys) (d : db) : Introspect.ires :=
  Introspect.info_cmd md5 v Introspect.icurrent nocv (ltable tb) pos hide c fs d.

(* `doit list ...` in a process of its own, on backend [b] *)
Definition list_step (b : Introspect.backend) (tb : table) (o : Introspect.lopts) (c : ck) (fs : fsys) (d : db) : cmd_out :=
  match list_res tb o c fs d with
  | Introspect.LOk ls d' => {| co_res := COk; co_log := letters ls; co_db := Introspect.persisted b d d' |}
  | Introspect.LInvalid n => fail_out (CInvalid n) d
  | Introspect.LKeyErr _ => fail_out CKeyError d
  | Introspect.LCrash ls d' => {| co_res := CCrash; co_log := letters ls; co_db := Introspect.persisted b d d' |}
  end.

(* `doit info ...`: one line (task, status: -1 hidden | 0 up-to-date | 1 run | 2 error | 3 ignored);
   "must select *one* task" is a message only *)
Definition info_step (b : Introspect.backend) (tb : table) (pos : list name) (hide : bool) (c : ck) (fs : fsys) (d : db) : cmd_out :=
  match info_res tb pos hide c fs d with
  | Introspect.IOk st _ _ d' =>
      {| co_res := COk; co_log := map (fun n => (n, Introspect.istatus_z st)) pos; co_db := Introspect.persisted b d d' |}
  | Introspect.IInvalidCmd => fail_out CNoTask d
  | Introspect.IKeyErr _ => fail_out CKeyError d
  | Introspect.ICrash d' => {| co_res := CCrash; co_log := []; co_db := Introspect.persisted b d d' |}
  end.

(* `doit clean [-n] [-c] [-a] [names]` (no --forget) of tasks without clean actions *)
Definition clean_step (d : db) : cmd_out := fail_out COk d.

(* ---- any number of them in a row, each with its own task table (the dodo file may have been edited),
   options, checker and file system ---- *)
Inductive insp :=
| IList (tb : table) (o : Introspect.lopts) (c : ck) (fs : fsys)
| IInfo (tb : table) (pos : list name) (hide : bool) (c : ck) (fs : fsys)
| IClean.
Definition insp_step (b : Introspect.backend) (d : db) (i : insp) : db :=
  match i with
  | IList tb o c fs => co_db (list_step b tb o c fs d)
  | IInfo tb pos hide c fs => co_db (info_step b tb pos hide c fs d)
  | IClean => co_db (clean_step d)
  end.
Definition insp_steps (b : Introspect.backend) (l : list insp) (d : db) : db := fold_left (insp_step b) l d.

End Inspect.
