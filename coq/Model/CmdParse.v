(* CmdParse.v -- model of doit/cmdparse.py (CmdOption, CmdParse, DefaultUpdate) and of the part of
   CPython's Lib/getopt.py it is built on (getopt, do_longs, long_has_args, do_shorts,
   short_has_arg; read from /root/.pyenv/versions/3.12.1/lib/python3.12/getopt.py); and of the two
   passes DoitMain.run / Command.parse_execute make over the command line (doit/doit_cmd.py 208-310,
   doit/cmd_base.py 78-150, 451-455, 510-513, 524-528: section "the two passes over the command line").
   Definitions only.

   Strings are Coq [string]s (bytes).  Modelled concretely: all of getopt, option lookup, bool
   conversion (str2boolean, ASCII lower()), list conversion (split on ',', strip of ASCII white
   space, empties dropped), str conversion, choices validation, the DefaultUpdate dictionary with
   its _non_default_keys, the option defaults held by the parser object (the mutable state
   [pstate]).  Oracle (Section variable [conv]): every other `type` callable (int, custom types):
   [conv n s = None] stands for `type(s)` raising ValueError.
   Outcomes: [Ok], [ParseError] (CmdParseError -> exit code 3 in doit_cmd.py 293-310) and
   [Crash] (any other exception escaping, e.g. TypeError/AttributeError/KeyError). *)
From Coq Require Export String Ascii.
From DoitV Require Export Base.

(* ------------------------------------------------------------------ strings *)
Definition sapp (a b : string) : string := String.append a b.
Definition s1 (c : ascii) : string := String c EmptyString.
Definition ch_dash : ascii := "-"%char.
Definition ch_eq : ascii := "="%char.
Definition ch_colon : ascii := ":"%char.
Definition ch_comma : ascii := ","%char.
Definition aeqb (a b : ascii) : bool := Ascii.eqb a b.
Definition seqb (a b : string) : bool := String.eqb a b.
Definition sempty (s : string) : bool := match s with EmptyString => true | _ => false end.

Fixpoint sprefix (p s : string) : bool :=           (* s.startswith(p) *)
  match p with
  | EmptyString => true
  | String c p' => match s with
                   | EmptyString => false
                   | String d s' => aeqb c d && sprefix p' s'
                   end
  end.
Fixpoint sends_with (c : ascii) (s : string) : bool :=   (* s.endswith(c) *)
  match s with
  | EmptyString => false
  | String d EmptyString => aeqb d c
  | String _ r => sends_with c r
  end.
Fixpoint sdrop_last (s : string) : string :=              (* s[:-1] *)
  match s with
  | EmptyString => EmptyString
  | String _ EmptyString => EmptyString
  | String d r => String d (sdrop_last r)
  end.
Definition smem (s : string) (l : list string) : bool := existsb (seqb s) l.

(* opt.index('=') / opt[:i], opt[i+1:]   (getopt.py do_longs) *)
Fixpoint split_eq (s : string) : string * option string :=
  match s with
  | EmptyString => (EmptyString, None)
  | String c r => if aeqb c ch_eq then (EmptyString, Some r)
                  else let (a, b) := split_eq r in (String c a, b)
  end.

(* str.lower() restricted to what decides membership in _boolean_states: A-Z -> a-z.  (No
   non-ASCII character lower-cases to a letter occurring in 1/yes/true/on/0/no/false/off, so the
   restriction does not change the answer for UTF-8 input.) *)
Definition lower_ascii (c : ascii) : ascii :=
  let n := N_of_ascii c in
  if (N.leb 65 n && N.leb n 90)%bool then ascii_of_N (n + 32) else c.
Fixpoint slower (s : string) : string :=
  match s with EmptyString => EmptyString | String c r => String (lower_ascii c) (slower r) end.

(* str.strip() for ASCII input: \t \n \v \f \r, \x1c-\x1f and space *)
Definition is_ws (c : ascii) : bool :=
  let n := N_of_ascii c in
  ((N.leb 9 n && N.leb n 13) || (N.leb 28 n && N.leb n 32))%bool.
Fixpoint lstrip (s : string) : string :=
  match s with EmptyString => EmptyString | String c r => if is_ws c then lstrip r else s end.
Fixpoint rstrip (s : string) : string :=
  match s with
  | EmptyString => EmptyString
  | String c r => let r' := rstrip r in
                  if (is_ws c && sempty r')%bool then EmptyString else String c r'
  end.
Definition sstrip (s : string) : string := rstrip (lstrip s).

(* s.split(c): always at least one part *)
Fixpoint split_on (c : ascii) (s : string) : list string :=
  match s with
  | EmptyString => [EmptyString]
  | String d r => if aeqb d c then EmptyString :: split_on c r
                  else match split_on c r with
                       | [] => [s1 d]
                       | p :: ps => String d p :: ps
                       end
  end.

(* ------------------------------------------------------------------ getopt.py *)
(* short_has_arg: None = GetoptError("option -c not recognized") *)
Fixpoint short_has_arg (c : ascii) (so : string) : option bool :=
  match so with
  | EmptyString => None
  | String d r =>
      if (aeqb c d && negb (aeqb d ch_colon))%bool
      then Some (match r with String e _ => aeqb e ch_colon | EmptyString => false end)
      else short_has_arg c r
  end.

(* one element of the result of getopt: (option as written back, e.g. "-x" / "--name", argument) *)
Definition optval := (string * string)%type.

(* do_shorts on one token (without its leading '-'); [next] = the following argument if any.
   Result: the (opt, value) pairs and whether [next] was consumed.  None = GetoptError. *)
Fixpoint do_shorts (optstring so : string) (next : option string) : option (list optval * bool) :=
  match optstring with
  | EmptyString => Some ([], false)
  | String c rest =>
      match short_has_arg c so with
      | None => None                                                (* not recognized *)
      | Some true =>
          if sempty rest then
            match next with
            | None => None                                          (* requires argument *)
            | Some a => Some ([(String ch_dash (s1 c), a)], true)
            end
          else Some ([(String ch_dash (s1 c), rest)], false)
      | Some false =>
          match do_shorts rest so next with
          | None => None
          | Some (os, used) => Some ((String ch_dash (s1 c), EmptyString) :: os, used)
          end
      end
  end.

(* long_has_args: None = GetoptError (not recognized / not a unique prefix) *)
Definition long_has_args (opt : string) (lo : list string) : option (bool * string) :=
  let poss := filter (sprefix opt) lo in
  match poss with
  | [] => None
  | p :: more =>
      if smem opt poss then Some (false, opt)
      else if smem (sapp opt (s1 ch_eq)) poss then Some (true, opt)
      else match more with
           | _ :: _ => None
           | [] => if sends_with ch_eq p then Some (true, sdrop_last p) else Some (false, p)
           end
  end.

(* do_longs on one token (without its leading '--') *)
Definition do_longs (body : string) (lo : list string) (next : option string) : option (list optval * bool) :=
  let (name, optarg) := split_eq body in
  match long_has_args name lo with
  | None => None
  | Some (has_arg, full) =>
      let o := String ch_dash (String ch_dash full) in
      if has_arg then
        match optarg with
        | Some a => Some ([(o, a)], false)
        | None => match next with
                  | None => None                                    (* requires argument *)
                  | Some a => Some ([(o, a)], true)
                  end
        end
      else match optarg with
           | Some _ => None                                         (* must not have an argument *)
           | None => Some ([(o, EmptyString)], false)
           end
  end.

(* classification of args[0] in the loop of getopt() *)
Inductive tok := TPos | TEnd | TLong (body : string) | TShort (body : string).
Definition classify (a : string) : tok :=
  match a with
  | String c r =>
      if aeqb c ch_dash then
        match r with
        | EmptyString => TPos                                       (* "-" alone *)
        | String d r' => if aeqb d ch_dash
                         then (if sempty r' then TEnd else TLong r')
                         else TShort r
        end
      else TPos
  | EmptyString => TPos
  end.

Definition gstep (so : string) (lo : list string) (a : tok) (next : option string) : option (list optval * bool) :=
  match a with
  | TLong b => do_longs b lo next
  | TShort b => do_shorts b so next
  | _ => Some ([], false)
  end.

Definition prepend (os : list optval) (r : option (list optval * list string)) :=
  match r with None => None | Some (os', args) => Some (os ++ os', args) end.

(* getopt.getopt(args, shortopts, longopts): None = GetoptError *)
Fixpoint getopt (so : string) (lo : list string) (args : list string) : option (list optval * list string) :=
  match args with
  | [] => Some ([], [])
  | a :: rest =>
      match classify a with
      | TPos => Some ([], args)
      | TEnd => Some ([], rest)
      | t =>
          match rest with
          | [] => match gstep so lo t None with
                  | None => None
                  | Some (os, _) => Some (os, [])
                  end
          | b :: rest' =>
              match gstep so lo t (Some b) with
              | None => None
              | Some (os, true) => prepend os (getopt so lo rest')
              | Some (os, false) => prepend os (getopt so lo rest)
              end
          end
      end
  end.

(* ------------------------------------------------------------------ CmdOption *)
(* `type`: bool and list are special-cased by the code, str is the default; anything else
   (int, a custom callable) goes through the oracle *)
Inductive ty := TBool | TList | TStr | TOther (n : N).
Inductive value := VNone | VBool (b : bool) | VInt (z : Z) | VStr (s : string) | VList (l : list string).

Record cmd_option := {
  o_name : name;
  o_ty : ty;
  o_default : value;
  o_short : string;
  o_long : string;
  o_inverse : string;
  o_choices : list string;       (* keys of dict(choices) *)
  o_env : option name            (* env_var; None also stands for '' *)
}.
Definition set_opt_default (o : cmd_option) (v : value) : cmd_option :=
  {| o_name := o_name o; o_ty := o_ty o; o_default := v; o_short := o_short o; o_long := o_long o;
     o_inverse := o_inverse o; o_choices := o_choices o; o_env := o_env o |}.

Inductive outcome (A : Type) := Ok (a : A) | ParseError | Crash.
Arguments Ok {A} a.
Arguments ParseError {A}.
Arguments Crash {A}.

Definition is_bool (t : ty) : bool := match t with TBool => true | _ => false end.
Definition is_list (t : ty) : bool := match t with TList => true | _ => false end.

(* _boolean_states[str_val.lower()]  (cmdparse.py 135-144) *)
Definition str2boolean (s : string) : option bool :=
  let l := slower s in
  if (seqb l "1" || seqb l "yes" || seqb l "true" || seqb l "on")%bool then Some true
  else if (seqb l "0" || seqb l "no" || seqb l "false" || seqb l "off")%bool then Some false
  else None.

(* [p.strip() for p in s.split(',')] without the empty ones  (cmdparse.py 155-156) *)
Definition str2list (s : string) : list string :=
  filter (fun p => negb (sempty p)) (map sstrip (split_on ch_comma s)).

Section WithConv.
Variable conv : N -> string -> option value.     (* type(str_val); None = ValueError *)

(* validate_choice (120-132): `value not in self.choices` on a dict with str keys, for every item
   when the value is a list (repair 424a4bf), for the value itself otherwise *)
Definition validate_choice (o : cmd_option) (v : value) : outcome value :=
  match o_choices o with
  | [] => Ok v
  | cs => match v with
          | VStr s => if smem s cs then Ok v else ParseError
          | VList l => if forallb (fun s => smem s cs) l then Ok v else ParseError
          | _ => ParseError
          end
  end.
(* the function before 424a4bf: `given_value not in self.choices` with a list -> TypeError (unhashable) *)
Definition validate_choice_legacy (o : cmd_option) (v : value) : outcome value :=
  match o_choices o with
  | [] => Ok v
  | cs => match v with
          | VStr s => if smem s cs then Ok v else ParseError
          | VList _ => Crash
          | _ => ParseError
          end
  end.

(* str2type (146-166): values that are not str are taken as they are *)
Definition str2type (o : cmd_option) (v : value) : outcome value :=
  match v with
  | VStr s =>
      match o_ty o with
      | TBool => match str2boolean s with Some b => validate_choice o (VBool b) | None => ParseError end
      | TList => validate_choice o (VList (str2list s))
      | TStr => validate_choice o (VStr s)
      | TOther n => match conv n s with Some x => validate_choice o x | None => ParseError end
      end
  | _ => validate_choice o v
  end.

(* ------------------------------------------------------------------ CmdParse *)
(* the parser object: its options in the order of the OrderedDict; the only thing that ever
   changes is each option's `default` *)
Definition pstate := list cmd_option.

(* OrderedDict((o.name, o) for o in options): a repeated name keeps the first position and the
   last option object *)
Fixpoint od_set (st : pstate) (o : cmd_option) : pstate :=
  match st with
  | [] => [o]
  | p :: r => if N.eqb (o_name p) (o_name o) then o :: r else p :: od_set r o
  end.
Definition mk_parser (opts : list cmd_option) : pstate := fold_left od_set opts [].

Fixpoint find_opt (st : pstate) (k : name) : option cmd_option :=
  match st with [] => None | o :: r => if N.eqb (o_name o) k then Some o else find_opt r k end.
Fixpoint set_default_in (st : pstate) (k : name) (v : value) : pstate :=
  match st with
  | [] => []
  | o :: r => if N.eqb (o_name o) k then set_opt_default o v :: r else o :: set_default_in r k v
  end.

(* get_short (262-272), get_long (274-287) *)
Fixpoint get_short (st : pstate) : string :=
  match st with
  | [] => EmptyString
  | o :: r =>
      if sempty (o_short o) then get_short r
      else sapp (o_short o) (if is_bool (o_ty o) then get_short r else String ch_colon (get_short r))
  end.
Fixpoint get_long (st : pstate) : list string :=
  match st with
  | [] => []
  | o :: r =>
      if sempty (o_long o) then get_long r
      else (if is_bool (o_ty o) then o_long o else sapp (o_long o) (s1 ch_eq))
           :: (if sempty (o_inverse o) then get_long r else o_inverse o :: get_long r)
  end.

(* get_option (289-299) *)
Fixpoint get_option (st : pstate) (s : string) : option (cmd_option * bool) :=
  match st with
  | [] => None
  | o :: r =>
      if (seqb s (String ch_dash (o_short o)) || seqb s (String ch_dash (String ch_dash (o_long o))))%bool
      then Some (o, false)
      else if seqb s (String ch_dash (String ch_dash (o_inverse o))) then Some (o, true)
      else get_option r s
  end.

(* overwrite_defaults (301-309); on an exception the options handled so far keep their new default *)
Fixpoint overwrite_defaults (st : pstate) (cfg : list (name * value)) : outcome unit * pstate :=
  match cfg with
  | [] => (Ok tt, st)
  | (k, v) :: r =>
      match find_opt st k with
      | None => overwrite_defaults st r
      | Some o =>
          match str2type o v with
          | Ok x => overwrite_defaults (set_default_in st k x) r      (* set_default copies a list *)
          | ParseError => (ParseError, st)
          | Crash => (Crash, st)
          end
      end
  end.

(* ------------------------------------------------------------------ DefaultUpdate (12-54) *)
Record params := { d_items : list (name * value); d_nd : list name }.
Definition d_empty : params := {| d_items := []; d_nd := [] |}.
Fixpoint items_set (l : list (name * value)) (k : name) (v : value) : list (name * value) :=
  match l with
  | [] => [(k, v)]
  | (k', v') :: r => if N.eqb k' k then (k', v) :: r else (k', v') :: items_set r k v
  end.
Fixpoint items_get (l : list (name * value)) (k : name) : option value :=
  match l with [] => None | (k', v) :: r => if N.eqb k' k then Some v else items_get r k end.
Definition d_get (d : params) (k : name) : option value := items_get (d_items d) k.
Definition d_set_default (d : params) (k : name) (v : value) : params :=
  {| d_items := items_set (d_items d) k v; d_nd := d_nd d |}.
Definition d_setitem (d : params) (k : name) (v : value) : params :=
  {| d_items := items_set (d_items d) k v; d_nd := addset k (d_nd d) |}.
Definition update_defaults (d : params) (u : list (name * value)) : params :=
  fold_left (fun d kv => if mem (fst kv) (d_nd d) then d else d_set_default d (fst kv) (snd kv)) u d.

(* ------------------------------------------------------------------ parse_only / parse *)
(* the loop of parse_only (333-344).  [legacy] selects the code before the repairs b063765 and 424a4bf
   in this loop: `params[this.name].append(val)` -- the list appended to is the option's own default
   object unless the environment replaced it, and the key is not marked non-default -- and no
   validation of the item against the choices of a list option. *)
Fixpoint apply_opts (legacy : bool) (st : pstate) (d : params) (opts : list optval)
  : outcome params * pstate :=
  match opts with
  | [] => (Ok d, st)
  | (o, v) :: r =>
      match get_option st o with
      | None => (Crash, st)                                          (* this is None *)
      | Some (this, inv) =>
          let k := o_name this in
          match o_ty this with
          | TBool => apply_opts legacy st (d_setitem d k (VBool (negb inv))) r
          | TList =>
              match (if legacy then Ok (VStr v) else validate_choice this (VStr v)) with
              | ParseError => (ParseError, st)
              | Crash => (Crash, st)
              | Ok _ =>
                  match d_get d k with
                  | Some (VList l) =>
                      let nv := VList (l ++ [v]) in
                      if legacy then
                        if mem k (d_nd d) then apply_opts legacy st (d_set_default d k nv) r
                        else apply_opts legacy (set_default_in st k nv) (d_set_default d k nv) r
                      else apply_opts legacy st (d_setitem d k nv) r
                  | _ => (Crash, st)                                 (* KeyError / TypeError *)
                  end
              end
          | _ => match str2type this (VStr v) with
                 | Ok x => apply_opts legacy st (d_setitem d k x) r
                 | ParseError => (ParseError, st)
                 | Crash => (Crash, st)
                 end
          end
      end
  end.

(* parse_only (312-346).  Line 321 `params = params if params else {}` replaces an empty DefaultUpdate
   (parser without options) by a plain dict with the same (no) items; only the type of the returned
   object differs, which the model does not represent (see [scenario]). *)
Definition parse_only_gen (legacy : bool) (st : pstate) (d : params) (argv : list string)
  : outcome (params * list string) * pstate :=
  match getopt (get_short st) (get_long st) argv with
  | None => (ParseError, st)
  | Some (opts, args) =>
      match apply_opts legacy st d opts with
      | (Ok d', st') => (Ok (d', args), st')
      | (ParseError, st') => (ParseError, st')
      | (Crash, st') => (Crash, st')
      end
  end.

(* parse (349-375): defaults, then the environment, then the command line *)
Definition defaults_phase (st : pstate) : params :=
  fold_left (fun d o => d_set_default d (o_name o) (o_default o)) st d_empty.

Fixpoint env_phase (env : name -> option string) (opts : pstate) (d : params) : outcome params :=
  match opts with
  | [] => Ok d
  | o :: r =>
      match o_env o with
      | None => env_phase env r d
      | Some e =>
          match env e with
          | None => env_phase env r d
          | Some s => match str2type o (VStr s) with
                      | Ok x => env_phase env r (d_setitem d (o_name o) x)
                      | ParseError => ParseError
                      | Crash => Crash
                      end
          end
      end
  end.

Definition parse_gen (legacy : bool) (st : pstate) (env : name -> option string) (argv : list string)
  : outcome (params * list string) * pstate :=
  match env_phase env st (defaults_phase st) with
  | Ok d => parse_only_gen legacy st d argv
  | ParseError => (ParseError, st)
  | Crash => (Crash, st)
  end.

Definition parse := parse_gen false.
Definition parse_only := parse_only_gen false.

End WithConv.

(* ------------------------------------------------------------------ the two passes over the command line
   doit/doit_cmd.py DoitMain.run (232-310), process_args (208-221); doit/cmd_base.py Command.__init__
   (78-105), Command.cmdparser (113-124), Command.parse_execute (141-150), DoitCmdBase.get_options
   (451-455), get_backends (510-513), DoitCmdBase.execute (524-528).

   `doit [loader options] [sub-command] [options of the command] [positional ...]`:
   pass 1 (run 263-271) parses the options of the task loader (task_loader.cmd_options: -f/--file,
   -d/--dir, -k/--seek-file for the DodoTaskLoader) that precede the sub-command name, with a parser of
   its own and NO dictionary of defaults; what it finds is handed to the command as `opt_vals`;
   pass 2 (parse_execute) parses what follows the sub-command name with the parser of the command
   (declared defaults overwritten by the configuration, then the environment, then the command line)
   and then writes `opt_vals` over the result, key by key: `for key, val in self.opt_vals.items():
   params[key] = val` (repair 7ef8d1a; before it: `params.update(self.opt_vals)`). *)

(* dict.update(other): existing keys keep their position, new keys are appended.  On a DefaultUpdate
   it is the C-level dict.update: __setitem__ is not called, _non_default_keys is NOT extended *)
Definition items_update (l u : list (name * value)) : list (name * value) :=
  fold_left (fun l kv => items_set l (fst kv) (snd kv)) u l.
Definition dict_update (d : params) (u : list (name * value)) : params :=
  {| d_items := items_update (d_items d) u; d_nd := d_nd d |}.
(* for key, val in other.items(): d[key] = val -- through DefaultUpdate.__setitem__: every key is
   marked non-default *)
Definition dict_assign (d : params) (u : list (name * value)) : params :=
  fold_left (fun d kv => d_setitem d (fst kv) (snd kv)) u d.

(* process_args (208-221): every argument that does not start with '-' and contains '=' is a command
   line variable (name, value) and is taken out of the arguments; an empty argument stays (repair
   16042b9: `not arg.startswith('-')`; `arg[0]` raised IndexError before) *)
Fixpoint process_args (args : list string) : list (string * string) * list string :=
  match args with
  | [] => ([], [])
  | a :: r =>
      let (vs, rest) := process_args r in
      if sprefix (s1 ch_dash) a then (vs, a :: rest)
      else match split_eq a with
           | (n, Some v) => ((n, v) :: vs, rest)
           | (_, None) => (vs, a :: rest)
           end
  end.

(* a sub-command: its name, whether it is a DoitCmdBase (a command that loads tasks: its options are
   base_options + the options of the loader + its own, and `execute` merges DOIT_CONFIG) or a plain
   Command (its own options only), and its own cmd_options *)
Record command := { cm_name : string; cm_task : bool; cm_opts : list cmd_option }.

Record cli := {
  c_base : list cmd_option;                          (* DoitCmdBase.base_options *)
  c_backend : name * list string;                    (* get_backends: option whose choices are replaced, the names of the backends *)
  c_loader : list cmd_option;                        (* task_loader.cmd_options *)
  c_cmds : list command;                             (* sub_cmds (get_cmds) *)
  c_config : list (string * list (name * value))     (* self.config: section -> items (extra_config, then INI/TOML files) *)
}.

Fixpoint find_cmd (cs : list command) (nm : string) : option command :=
  match cs with [] => None | c :: r => if seqb (cm_name c) nm then Some c else find_cmd r nm end.
Fixpoint cfg_section (cfg : list (string * list (name * value))) (s : string) : list (name * value) :=
  match cfg with [] => [] | (n, items) :: r => if seqb n s then items else cfg_section r s end.

(* Command.__init__ 96-101: GLOBAL, updated with the section named after the command *)
Definition config_vals (cfg : list (string * list (name * value))) (nm : string) : list (name * value) :=
  items_update (items_update [] (cfg_section cfg "GLOBAL")) (cfg_section cfg nm).

(* run 276-282: the first argument if it names a sub-command, 'run' otherwise *)
Definition select_cmd (cs : list command) (args : list string) : string * list string :=
  match args with
  | a :: r => match find_cmd cs a with Some _ => (a, r) | None => ("run"%string, args) end
  | [] => ("run"%string, [])
  end.

Definition set_opt_choices (o : cmd_option) (cs : list string) : cmd_option :=
  {| o_name := o_name o; o_ty := o_ty o; o_default := o_default o; o_short := o_short o; o_long := o_long o;
     o_inverse := o_inverse o; o_choices := cs; o_env := o_env o |}.
Definition set_choices_in (st : pstate) (k : name) (cs : list string) : pstate :=
  map (fun o => if N.eqb (o_name o) k then set_opt_choices o cs else o) st.

(* what a command observes: params as handed to `execute` (= what loader.setup receives), params after
   DoitCmdBase.execute merged DOIT_CONFIG (update_defaults, 528), the positional arguments *)
Record run_obs := { r_cmd : string; r_setup : params; r_final : params; r_pos : list string }.

Section TwoPass.
Variable conv : N -> string -> option value.

(* run 263-271.  parse_only without `params` starts from a plain empty dict: only the options that
   are written end up in it; a list option finds no list to extend (KeyError, not caught: Crash).
   A CmdParseError (an option the loader does not know, an ill-typed value) is "normal": nothing is
   taken from the command line and everything is left to the command *)
Definition pre_parse (lst : pstate) (all_args : list string) : outcome (list (name * value) * list string) :=
  match fst (parse_only conv lst d_empty all_args) with
  | Ok (d, args) => Ok (d_items d, args)
  | ParseError => Ok ([], all_args)
  | Crash => Crash
  end.

(* Command.parse_execute (141-153), up to the call of self.execute(params, args).  A parser without
   options returns a plain dict (cmdparse.py 321), which keeps no non-default marks *)
Definition parse_execute (st : pstate) (opt_vals : list (name * value)) (env : name -> option string)
           (in_args : list string) : outcome (params * list string) * pstate :=
  match parse conv st env in_args with
  | (Ok (d, args), st') => (Ok ((if is_nil st then dict_update d opt_vals else dict_assign d opt_vals), args), st')
  | r => r
  end.

(* the code before the repair 7ef8d1a: `params.update(self.opt_vals)` -- the keys are not marked *)
Definition parse_execute_update (st : pstate) (opt_vals : list (name * value)) (env : name -> option string)
           (in_args : list string) : outcome (params * list string) * pstate :=
  match parse conv st env in_args with
  | (Ok (d, args), st') => (Ok (dict_update d opt_vals, args), st')
  | r => r
  end.

(* NOT the code: the variant that installs opt_vals as defaults of the parser before parsing
   (`self.cmdparser.overwrite_defaults(self.opt_vals)`), kept to state what goes wrong with it *)
Definition parse_execute_as_defaults (st : pstate) (opt_vals : list (name * value)) (env : name -> option string)
           (in_args : list string) : outcome (params * list string) * pstate :=
  match overwrite_defaults conv st opt_vals with
  | (Ok _, st1) => parse conv st1 env in_args
  | (ParseError, st1) => (ParseError, st1)
  | (Crash, st1) => (Crash, st1)
  end.

(* Command.cmdparser (113-124); for a DoitCmdBase also get_backends (510-513), which runs in the
   constructor and replaces the choices of the option `backend` AFTER the configuration was applied *)
Definition cmd_options_of (cl : cli) (c : command) : list cmd_option :=
  if cm_task c then c_base cl ++ c_loader cl ++ cm_opts c else cm_opts c.
Definition cmd_parser (cl : cli) (c : command) : outcome unit * pstate :=
  match overwrite_defaults conv (mk_parser (cmd_options_of cl c)) (config_vals (c_config cl) (cm_name c)) with
  | (Ok _, st1) => (Ok tt, if cm_task c then set_choices_in st1 (fst (c_backend cl)) (snd (c_backend cl)) else st1)
  | r => r
  end.

(* the command object created and executing in_args (run 284-313): Ok = self.execute is reached with
   these params; ParseError = DoitMain.run returns 3: a CmdParseError or any other Exception raised
   while the command and its parser are built (the parser of a DoitCmdBase is built in its constructor,
   get_backends; since the repair a0cef0e the constructor is called inside the try block) or inside
   parse_execute.  A DoitCmdBase whose parser has no option at all gets a plain dict, on which
   update_defaults does not exist (AttributeError -> 3) *)
Definition exec_cmd (cl : cli) (c : command) (opt_vals : list (name * value)) (env : name -> option string)
           (dodo : list (name * value)) (in_args : list string) : outcome run_obs :=
  match cmd_parser cl c with
  | (Ok _, st1) =>
      match fst (parse_execute st1 opt_vals env in_args) with
      | Ok (p, pos) =>
          if (cm_task c && is_nil st1)%bool then ParseError
          else Ok {| r_cmd := cm_name c; r_setup := p;
                     r_final := if cm_task c then update_defaults p dodo else p; r_pos := pos |}
      | _ => ParseError
      end
  | _ => ParseError
  end.

(* DoitMain.run (232-310); `--version` / `--help` as first argument run no command (250-261) *)
Definition main_run (cl : cli) (env : name -> option string) (dodo : list (name * value))
           (all_args : list string) : outcome run_obs :=
  let special := match all_args with
                 | a :: _ => if (seqb a "--version" || seqb a "--help")%bool then Some a else None
                 | [] => None
                 end in
  match special with
  | Some a => Ok {| r_cmd := a; r_setup := d_empty; r_final := d_empty; r_pos := [] |}
  | None =>
      match pre_parse (mk_parser (c_loader cl)) all_args with
      | Ok (opt_vals, cmd_args) =>
          let (nm, in_args) := select_cmd (c_cmds cl) (snd (process_args cmd_args)) in
          match find_cmd (c_cmds cl) nm with
          | None => ParseError                 (* no 'run' command: KeyError inside the try block -> 3 *)
          | Some c => exec_cmd cl c opt_vals env dodo in_args
          end
      | _ => Crash
      end
  end.

(* ---- several commands, one after the other, in ONE process: one DoitMain object, hence one config
   object handed to every command that is built (run twice through the API, `doit help <cmd>`,
   tabcompletion, which instantiates every command).
   A step either only BUILDS a command object and its parser (what help / tabcompletion do) or is a
   whole DoitMain.run.  The config object is threaded through the steps: `eff cfg nm` is what building
   the command named nm leaves in it.  For the code it is `init_pure`: Command.__init__ 96-101 starts
   config_vals from a fresh dict and only READS the sections (`{}`, then .update(config['GLOBAL']),
   .update(config[name])); nothing else in DoitMain.run writes self.config. *)
Inductive seq_step := SBuild (nm : string) | SRun (argv : list string).
Inductive seq_obs := OBuild (r : outcome unit * pstate) | ORun (r : outcome run_obs) | ONoCmd.

Definition with_config (cl : cli) (cfg : list (string * list (name * value))) : cli :=
  {| c_base := c_base cl; c_backend := c_backend cl; c_loader := c_loader cl; c_cmds := c_cmds cl; c_config := cfg |}.

Definition init_pure (cfg : list (string * list (name * value))) (nm : string) := cfg.

(* NOT the code: the variant `self.config_vals = self.config.get('GLOBAL', {})` followed by
   `.update(self.config[self.name])` -- config_vals IS the GLOBAL section of the shared object, so the
   section of the command is written into it (nothing happens without a GLOBAL section: .get then
   returns a fresh dict).  Kept to state what goes wrong with it (C16_shared_global_refuted) *)
Fixpoint set_section (cfg : list (string * list (name * value))) (s : string) (items : list (name * value))
  : list (string * list (name * value)) :=
  match cfg with
  | [] => []
  | (n, it) :: r => if seqb n s then (n, items) :: r else (n, it) :: set_section r s items
  end.
Definition init_shared (cfg : list (string * list (name * value))) (nm : string) :=
  set_section cfg "GLOBAL" (config_vals cfg nm).

(* the command object a step creates (its name), if any: run 250-261 `--help` creates Help, `--version`
   nothing; 263-271 a crash of pass 1 leaves run before any command exists; 284-291 the selected command
   (a name that is no sub-command: KeyError in get_plugin, before the constructor) *)
Definition built_by (cl : cli) (s : seq_step) : option string :=
  match s with
  | SBuild nm => match find_cmd (c_cmds cl) nm with Some _ => Some nm | None => None end
  | SRun all_args =>
      let special := match all_args with
                     | a :: _ => if seqb a "--version" then Some None
                                 else if seqb a "--help" then Some (Some "help"%string) else None
                     | [] => None
                     end in
      match special with
      | Some r => r
      | None =>
          match pre_parse (mk_parser (c_loader cl)) all_args with
          | Ok (_, cmd_args) =>
              let (nm, _) := select_cmd (c_cmds cl) (snd (process_args cmd_args)) in
              match find_cmd (c_cmds cl) nm with Some _ => Some nm | None => None end
          | _ => None
          end
      end
  end.

Definition step_run (cl : cli) (env : name -> option string) (dodo : list (name * value)) (s : seq_step) : seq_obs :=
  match s with
  | SBuild nm => match find_cmd (c_cmds cl) nm with Some c => OBuild (cmd_parser cl c) | None => ONoCmd end
  | SRun argv => ORun (main_run cl env dodo argv)
  end.

Fixpoint main_seq (eff : list (string * list (name * value)) -> string -> list (string * list (name * value)))
         (cl : cli) (env : name -> option string) (dodo : list (name * value)) (steps : list seq_step) : list seq_obs :=
  match steps with
  | [] => []
  | s :: r => step_run cl env dodo s ::
              main_seq eff (match built_by cl s with
                            | Some nm => with_config cl (eff (c_config cl) nm)
                            | None => cl
                            end) env dodo r
  end.

End TwoPass.

(* ------------------------------------------------------------------ observation encoding
   (used only by the correspondence check harness/c16.py) *)
Open Scope Z_scope.
Definition str_z (s : string) : list Z :=
  Z.of_nat (String.length s) :: map (fun c => Z.of_N (N_of_ascii c)) (list_ascii_of_string s).
Definition value_z (v : value) : list Z :=
  match v with
  | VNone => [0]
  | VBool b => [1; zb b]
  | VInt z => [2; z]
  | VStr s => 3 :: str_z s
  | VList l => 4 :: Z.of_nat (List.length l) :: flat_map str_z l
  end.
Definition outcome_z {A} (o : outcome A) : Z := match o with Ok _ => 0 | ParseError => 3 | Crash => 98 end.
(* per item in insertion order: key, 1 if the key is in _non_default_keys, value *)
Definition params_z (d : params) : list Z :=
  Z.of_nat (List.length (d_items d))
  :: flat_map (fun kv => zN (fst kv) :: zb (mem (fst kv) (d_nd d)) :: value_z (snd kv)) (d_items d).
Definition mkopt (n : name) (t : ty) (d : value) (s l i : string) (c : list string) (e : option name) : cmd_option :=
  {| o_name := n; o_ty := t; o_default := d; o_short := s; o_long := l; o_inverse := i; o_choices := c; o_env := e |}.
Definition pstate_z (st : pstate) : list Z := flat_map (fun o => value_z (o_default o)) st.
Definition getopt_z (r : option (list optval * list string)) : list Z :=
  match r with
  | None => [3]
  | Some (os, args) => 0 :: Z.of_nat (List.length os) :: flat_map (fun ov => str_z (fst ov) ++ str_z (snd ov)) os
                       ++ Z.of_nat (List.length args) :: flat_map str_z args
  end.

(* the instance of the oracle used by the correspondence check: type 0 = int restricted to
   [ws]* [-] digit+ [ws]* (the harness checks on every string of a case that Python's int agrees),
   type 1 = a custom callable `even` (len(s)//2 when len(s) is even, ValueError otherwise) *)
Fixpoint digits_val (s : string) (acc : Z) : option Z :=
  match s with
  | EmptyString => Some acc
  | String c r => let n := N_of_ascii c in
                  if (N.leb 48 n && N.leb n 57)%bool then digits_val r (acc * 10 + Z.of_N (n - 48)) else None
  end.
Definition int_simple (s : string) : option Z :=
  match sstrip s with
  | EmptyString => None
  | String c r => if aeqb c ch_dash
                  then (if sempty r then None else option_map Z.opp (digits_val r 0))
                  else digits_val (String c r) 0
  end.
Definition conv_ref (n : N) (s : string) : option value :=
  if N.eqb n 0 then option_map VInt (int_simple s)
  else let l := String.length s in
       if Nat.even l then Some (VInt (Z.of_nat (Nat.div2 l))) else None.

Definition env_of (l : list (name * string)) : name -> option string :=
  fun k => match find (fun kv => N.eqb (fst kv) k) l with Some kv => Some (snd kv) | None => None end.

(* the scenario run by the harness on one parser object:
   p = CmdParse(opts); p.overwrite_defaults(cfg); r1 = p.parse(argv); r2 = p.parse(argv);
   r1.update_defaults(dodo).  Observed: outcome + option defaults after every step. *)
Definition scenario (legacy : bool) (opts : list cmd_option) (cfg : list (name * value))
           (env : list (name * string)) (argv : list string) (dodo : list (name * value)) : list Z :=
  let st0 := mk_parser opts in
  let (o1, st1) := overwrite_defaults conv_ref st0 cfg in
  outcome_z o1 :: pstate_z st1 ++
  match o1 with
  | Ok _ =>
      let one (st : pstate) :=
        let (r, st') := parse_gen conv_ref legacy st (env_of env) argv in
        (outcome_z r :: match r with
                        | Ok (d, args) => params_z d ++ Z.of_nat (List.length args) :: flat_map str_z args
                        | _ => []
                        end ++ pstate_z st', (r, st')) in
      let (z2, rs2) := one st1 in
      let (z3, rs3) := one (snd rs2) in
      z2 ++ z3 ++ match fst rs2 with
                  | Ok (d, _) =>
                      (* cmdparse.py 321 `params = params if params else {}`: a parser without options
                         returns a plain (empty) dict, which has no update_defaults -> AttributeError *)
                      if is_nil st1 then [98] else params_z (update_defaults d dodo)
                  | _ => []
                  end
  | _ => []
  end.

(* ---- the two passes: encodings and the scenarios run by harness/c16.py (parts main / parse_execute) *)
Definition run_obs_z (r : outcome run_obs) : list Z :=
  outcome_z r :: match r with
                 | Ok o => str_z (r_cmd o) ++ params_z (r_setup o) ++ params_z (r_final o)
                           ++ Z.of_nat (List.length (r_pos o)) :: flat_map str_z (r_pos o)
                 | _ => []
                 end.
Definition mkcmd (n : string) (t : bool) (os : list cmd_option) : command := {| cm_name := n; cm_task := t; cm_opts := os |}.
Definition mkcli (b : list cmd_option) (bk : name) (bc : list string) (l : list cmd_option) (cs : list command)
           (cfg : list (string * list (name * value))) : cli :=
  {| c_base := b; c_backend := (bk, bc); c_loader := l; c_cmds := cs; c_config := cfg |}.
Definition main_scenario (cl : cli) (env : list (name * string)) (dodo : list (name * value)) (argv : list string) : list Z :=
  run_obs_z (main_run conv_ref cl (env_of env) dodo argv).
(* a sequence of steps on one DoitMain (part seq of harness/c16.py): per step -1 (separator), then for a
   run the encoding of main_scenario, for a build 0 + the defaults of the options of the parser | 3 | 98,
   97 for the name of no command *)
Definition seq_obs_z (o : seq_obs) : list Z :=
  (-1) :: match o with
          | ORun r => run_obs_z r
          | OBuild (Ok _, st) => 0 :: pstate_z st
          | OBuild (ParseError, _) => [3]
          | OBuild (Crash, _) => [98]
          | ONoCmd => [97]
          end.
Definition seq_z (eff : list (string * list (name * value)) -> string -> list (string * list (name * value)))
           (cl : cli) (env : list (name * string)) (dodo : list (name * value)) (steps : list seq_step) : list Z :=
  flat_map seq_obs_z (main_seq conv_ref eff cl (env_of env) dodo steps).
Definition seq_scenario := seq_z init_pure.
(* vars found by process_args: n, then name/value strings *)
Definition process_args_z (args : list string) : list Z :=
  let (vs, rest) := process_args args in
  0 :: Z.of_nat (List.length vs) :: flat_map (fun nv => str_z (fst nv) ++ str_z (snd nv)) vs
  ++ Z.of_nat (List.length rest) :: flat_map str_z rest.
(* cmd = Cmd(config=.., opt_vals=ov); cmd.parse_execute(args) twice on the same object: outcome, params,
   positional, then the defaults of the options of cmd.cmdparser *)
Definition pe_scenario (as_defaults : bool) (opts : list cmd_option) (cfg : list (name * value)) (ov : list (name * value))
           (env : list (name * string)) (argv : list string) : list Z :=
  let st0 := mk_parser opts in
  let (o1, st1) := overwrite_defaults conv_ref st0 cfg in
  outcome_z o1 :: pstate_z st1 ++
  match o1 with
  | Ok _ =>
      let one (st : pstate) :=
        let (r, st') := (if as_defaults then parse_execute_as_defaults else parse_execute) conv_ref st ov (env_of env) argv in
        (outcome_z r :: match r with
                        | Ok (d, args) => params_z d ++ Z.of_nat (List.length args) :: flat_map str_z args
                        | _ => []
                        end ++ pstate_z st', st') in
      let (z2, st2) := one st1 in
      let (z3, _) := one st2 in
      z2 ++ z3
  | _ => []
  end.
