(* Runner.v -- model of doit/runner.py class Runner (serial): select_task, _handle_task_error,
   execute_task, process_task_result, run_tasks, teardown, finish, run_all, and the exit code
   DoitMain.run derives from it.  Definitions only. *)
From DoitV Require Export Base Dispatch.
Open Scope N_scope.

(* what the reporter / dep_manager / action layer observe, in order *)
Inductive event :=
| EGetStatus (k : name)                 (* reporter.get_status *)
| ESkipIgnore (k : name)                (* reporter.skip_ignore *)
| ESkipUpToDate (k : name)              (* reporter.skip_uptodate *)
| EFailure (k : name) (kind : N)        (* reporter.add_failure: 0 TaskFailed 1 TaskError 2 UnmetDependency 3 DependencyError *)
| EExecute (k : name)                   (* reporter.execute_task; the task's actions start right after *)
| ESuccess (k : name)                   (* reporter.add_success *)
| ESave (k : name)                      (* dep_manager.save_success *)
| ERemove (k : name)                    (* dep_manager.remove_success *)
| ETeardown (k : name)                  (* reporter.teardown_task + teardown actions *)
| EClose                                (* dep_manager.close(): DB flushed *)
| ECycleError (path : list name)        (* InvalidDodoFile from _gen_node *)
| EHoldError                            (* InvalidDodoFile from cyclic_hold_error *)
| EInterrupt (k : name).                (* KeyboardInterrupt/SystemExit escaped from k's action *)

Definition kind_failed : N := 0.
Definition kind_error : N := 1.
Definition kind_unmet : N := 2.
Definition kind_dep : N := 3.

Record rstate := { r_d : dstate; r_final : N; r_stop : bool; r_td : list name; r_tr : list event }.

Definition emit (r : rstate) (e : list event) : rstate :=
  {| r_d := r_d r; r_final := r_final r; r_stop := r_stop r; r_td := r_td r; r_tr := r_tr r ++ e |}.
Definition with_d (r : rstate) (d : dstate) : rstate :=
  {| r_d := d; r_final := r_final r; r_stop := r_stop r; r_td := r_td r; r_tr := r_tr r |}.

Section Model.
Variable tasks : name -> option task.
Variable wake_rank : name -> name -> N.
Variable calc_rank : name -> N.
Variable continue_ always : bool.

Notation get_task := (get_task tasks).
Notation node_of := (node_of tasks).

Definition set_status (d : dstate) (k : name) (s : status) : dstate :=
  set_node d k (nd_st (node_of d k) s).

(* Runner._handle_task_error (56-72); [st] = SFailure, or SFailureV when the task's values are set *)
Definition handle_error_gen (st : status) (r : rstate) (k : name) (kind : N) : rstate :=
  {| r_d := set_status (r_d r) k st;
     r_final := if (kind =? kind_failed) && negb (r_final r =? 2) then 1 else 2;
     r_stop := if continue_ then r_stop r else true;
     r_td := r_td r; r_tr := r_tr r ++ [ERemove k; EFailure k kind] |}.
Definition handle_error := handle_error_gen SFailure.

Definition get_args (r : rstate) (k : name) : bool * rstate :=
  if t_argerr (get_task k) then (false, handle_error r k kind_dep) else (true, r).

(* Runner.select_task (101-169 + the check of setup-task results on the second pass) *)
Definition select_task (r : rstate) (k : name) : bool * rstate :=
  let nd := node_of (r_d r) k in let t := get_task k in
  match n_st nd with
  | SNone =>
    let r := emit r [EGetStatus k] in
    if negb (is_nil (n_ign nd)) || t_dbignore t
    then (false, emit (with_d r (set_status (r_d r) k SIgnore)) [ESkipIgnore k])
    else if negb (is_nil (n_bad nd)) then (false, handle_error r k kind_unmet)
    else match t_check t with
      | CkError => (false, handle_error r k kind_dep)
      | ck =>
        let st := if always then SRun else match ck with CkUpToDate => SUpToDate | _ => SRun end in
        let r := with_d r (set_status (r_d r) k st) in
        match st with
        | SUpToDate => (false, emit r [ESkipUpToDate k])
        | _ => if is_nil (t_setup t) then get_args r k else (false, r)
        end
      end
  | _ =>
    (* second selection of a task with setup-tasks (run_status == 'run') *)
    if negb (is_nil (n_ign nd))
    then (false, emit (with_d r (set_status (r_d r) k SIgnore)) [ESkipIgnore k])
    else if negb (is_nil (n_bad nd)) then (false, handle_error r k kind_unmet)
    else get_args r k
  end.

(* Runner.execute_task (172-180): registers the teardown, reports, starts the actions *)
Definition start_task (r : rstate) (k : name) : rstate :=
  {| r_d := r_d r; r_final := r_final r; r_stop := r_stop r;
     r_td := if t_teardown (get_task k) then r_td r ++ [k] else r_td r;
     r_tr := r_tr r ++ [EExecute k] |}.

(* Runner.process_task_result (183-200) for a task whose actions have finished *)
Definition process_result (r : rstate) (k : name) : rstate :=
  match t_outcome (get_task k) with
  | OOk => emit (with_d r (set_status (r_d r) k SSuccess)) [ESave k; ESuccess k]
  | OFail => handle_error r k kind_failed
  | OError => handle_error r k kind_error
  | OSaveErr => handle_error_gen SFailureV r k kind_dep
  | OInterrupt => r     (* not reached: the exception escapes before *)
  | OFailV => handle_error_gen SFailureV r k kind_failed
  end.

Definition is_interrupt (k : name) : bool :=
  match t_outcome (get_task k) with OInterrupt => true | _ => false end.

(* Runner.finish (239-247): flush the DB, run teardowns in reverse order *)
Definition finish (r : rstate) : rstate := emit r (EClose :: map ETeardown (rev (r_td r))).

(* exit code of the process: run_all's final_result, or what DoitMain.run makes of an exception
   that escapes run_all (after finish() ran in its `finally`): InvalidDodoFile -> 3;
   KeyboardInterrupt/SystemExit are not caught by DoitMain.run -> 4 here *)
Inductive stop := StopNormal | StopCycle (path : list name) | StopHold | StopInterrupt (k : name) | StopFuel.
Definition exit_code (r : rstate) (s : stop) : N :=
  match s with StopNormal => r_final r | StopCycle _ | StopHold => 3 | StopInterrupt _ => 4 | StopFuel => 99 end.
(* the exception the caller of run_all sees, after finish() has run *)
Definition stop_marker (s : stop) : list event :=
  match s with StopCycle p => [ECycleError p] | StopHold => [EHoldError] | StopInterrupt k => [EInterrupt k] | _ => [] end.

(* Runner.run_tasks (203-225) + finish *)
Fixpoint serial (fuel : nat) (r : rstate) (last : option name) : rstate * stop :=
  match fuel with O => (r, StopFuel) | S fuel' =>
  if r_stop r then (finish r, StopNormal) else
  match disp_send tasks wake_rank calc_rank fuel (r_d r) last with
  | (DStop, d) => (finish (with_d r d), StopNormal)
  | (DTask k, d) =>
      match select_task (with_d r d) k with
      | (false, r1) => serial fuel' r1 (Some k)
      | (true, r1) =>
          let r2 := start_task r1 k in
          if is_interrupt k then (finish r2, StopInterrupt k)
          else serial fuel' (process_result r2 k) (Some k)
      end
  | (DHold, d) => (finish (with_d r d), StopHold)
  | (DCycle p, d) => (finish (with_d r d), StopCycle p)
  | (DFuel, d) => (with_d r d, StopFuel)
  end end.

Definition r_init (selected : list name) : rstate :=
  {| r_d := disp_init selected; r_final := 0; r_stop := false; r_td := []; r_tr := [] |}.

Definition run_serial (fuel : nat) (selected : list name) : list event * N :=
  let '(r, s) := serial fuel (r_init selected) None in (r_tr r ++ stop_marker s, exit_code r s).

End Model.

(* ---- encoding of traces for the correspondence check ---- *)
Definition enc_event (e : event) : list Z :=
  match e with
  | EGetStatus k => [1; zN k] | ESkipIgnore k => [2; zN k] | ESkipUpToDate k => [3; zN k]
  | EFailure k kd => [4; zN k; zN kd] | EExecute k => [5; zN k] | ESuccess k => [6; zN k]
  | ESave k => [7; zN k] | ERemove k => [8; zN k] | ETeardown k => [9; zN k] | EClose => [10]
  | ECycleError p => [11] | EHoldError => [12] | EInterrupt k => [13]
  end%Z.
Definition enc_trace (tr : list event) : list Z := flat_map enc_event tr.
