(* DeclTable.v -- model of the step from ONE task's dependency attributes as the dodo file declares them to the
   row of the task table the dispatcher works on:
     doit/task.py     Task.__init__ (209-232): setup_tasks = list(setup) (214: a COPY of the container the dodo
                      file handed in), _init_deps (266-283: task_dep / calc_dep are built element by element into
                      fresh containers), uptodate items with configure_task (result_dep.configure_task 650-657:
                      task_dep.append / setup_tasks.append), _init_getargs (418-435: a getargs source that is not
                      a setup-task already becomes one)
     doit/control.py  TaskControl.add_implicit_task_dep (123-133): the producer of a file_dep becomes a task_dep
                      unless it is one already;  _process_calc_dep_results (630-644): values returned by calc_dep tasks
   The point of the model: the row of task k is a function of the declaration of k ALONE.  Whether the dodo file
   writes two declarations with one shared list / tuple / dict object or with two equal ones is not an input.
   Simplification: a file_dep on a target is given by the task that has the target (the targets map of
   Model/Implicit.v collapsed); plain files do not appear.  Definitions only. *)
From DoitV Require Export Base Dispatch Runner.
Open Scope N_scope.

Record dtask := {
  d_task_dep : list name;       (* `task_dep` as written (duplicates kept) *)
  d_setup : list name;          (* `setup` *)
  d_calc_dep : list name;       (* `calc_dep` *)
  d_file_dep : list name;       (* producers of the `file_dep` entries that are some task's target *)
  d_getargs : list name;        (* source tasks of `getargs` *)
  d_result_dep : list name;     (* tasks named by result_dep(...) items of `uptodate` *)
  d_ret_task : list name;       (* values['task_dep'] returned by the task's actions *)
  d_ret_file : list name;       (* producers of values['file_dep'] returned by the task's actions *)
}.

(* the six attributes that make the task depend on another one directly *)
Definition d_direct (d : dtask) : list name :=
  d_task_dep d ++ d_result_dep d ++ d_file_dep d ++ d_calc_dep d ++ d_setup d ++ d_getargs d.

Definition finish_dtask (d : dtask) : task :=
  {| t_task_dep := fold_left add_if_new (d_file_dep d) (d_task_dep d ++ d_result_dep d);
     t_setup := d_setup d ++ fold_left add_if_new (filter (fun s => negb (mem s (d_setup d))) (d_getargs d)) [];
     t_calc_dep := fold_left add_if_new (d_calc_dep d) [];
     t_teardown := false; t_dbignore := false; t_check := CkRun; t_argerr := false; t_outcome := OOk;
     t_calc_new_task := d_ret_task d;
     t_calc_new_impl := d_ret_file d;
     t_calc_new_calc := [] |}.

Definition decl_table (dd : name -> option dtask) (k : name) : option task :=
  match dd k with Some d => Some (finish_dtask d) | None => None end.

Definition get_dtask (dd : name -> option dtask) (k : name) : dtask :=
  match dd k with Some d => d | None => Build_dtask [] [] [] [] [] [] [] [] end.

(* the dependency graph the dodo file declares: t depends on y *)
Inductive decl_dep (dd : name -> option dtask) (t y : name) : Prop :=
| dd_direct : In y (d_direct (get_dtask dd t)) -> decl_dep dd t y
| dd_returned c : In c (d_calc_dep (get_dtask dd t)) ->
                  In y (d_ret_task (get_dtask dd c) ++ d_ret_file (get_dtask dd c)) -> decl_dep dd t y.

Inductive decl_reach (dd : name -> option dtask) : name -> name -> Prop :=
| dr_step x y : decl_dep dd x y -> decl_reach dd x y
| dr_trans x y z : decl_dep dd x y -> decl_reach dd y z -> decl_reach dd x z.

(* ---- for the correspondence check: exit code of the serial run over the declared table, and (exit 0) the
   tasks that were executed, ascending ---- *)
Definition executed (tr : list event) : list name :=
  flat_map (fun e => match e with EExecute k => [k] | _ => [] end) tr.

Fixpoint upto (n : nat) : list name := match n with O => [] | S m => upto m ++ [N.of_nat m] end.

Definition decl_verdict (dd : name -> option dtask) (fuel : nat) (selected : list name) (n : nat) : list Z :=
  let r := run_serial (decl_table dd) (fun _ _ => 0) (fun x => x) false false fuel selected in
  zN (snd r) :: (if N.eqb (snd r) 0 then map zN (filter (fun k => mem k (executed (fst r))) (upto n)) else []).
