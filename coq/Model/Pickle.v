(* Pickle.v -- the inputs of an action executed in a WORKER PROCESS (C10, runner `-n N` with processes).
   Definitions only.  Anchored in
     doit/runner.py 294-311  JobTask: a task created at run time (task.loader is DelayedLoaded, 426-431) is sent
                             to the worker as pickle_dumps(task), i.e. Task.__getstate__ ...
     doit/runner.py 588-589  ... and rebuilt there with pickle.loads(job.task_pickle);
     doit/runner.py 313-318, 582-586  JobTaskPickle: a statically known task is sent as task.pickle_safe_dict()
                             and the worker's own copy of the Task (forked) is updated from it;
     doit/task.py 556-565    Task.__getstate__: a copy of __dict__ with uptodate / value_savers /
                             _action_instances set to None (nothing else);
     doit/task.py 567-580    pickle_safe_dict: __dict__ without _actions, _action_instances, clean_actions, teardown,
                             custom_title, value_savers, uptodate;
     doit/task.py 393-415    init_options [pk_init_options]: `if self.options is None:` the options become the params' defaults, else
                             they are left alone -- called again in the worker by Task.execute (task.py 519);
     doit/runner.py 75-98    _get_task_args (MAIN process, before the job is handed out) [pk_get_task_args]: init_options, then
                             task.options[arg] = value for each getargs entry.
   [ptask]: the attributes of the Task object that decide what an action receives: the definition (file_dep,
   targets), dep_changed as left by the status check, options (None = not initialised), the defaults of the task's
   params, and the callable's parameter names.  [pk_drop] = which attributes the serialisation resets: [drop_none] is
   the code in /repo (both ways of sending a task keep options, dep_changed, file_dep and targets); [drop_options]
   is __getstate__ with `to_pickle['options'] = None` added (a seeded regression, kept so that the need to carry the
   options stays stated: Properties/C10.v C10_pickled_drop_options_refuted); [drop_changed] likewise for dep_changed.
   Not modelled: the pickle codec itself (values are data: identity), unpicklable attributes (InvalidTask), the
   result sent back (update_from_pickle, runner.py 482), cfg_values / command line values of params. *)
From DoitV Require Export Base Status History Inputs.
Open Scope Z_scope.

Record ptask := {
  p_def : tdef;
  p_changed : list file;
  p_options : option (list (N * aval));
  p_defaults : list (N * aval);
  p_params : list N
}.

Record pk_drop := { d_options : bool; d_changed : bool }.
Definition drop_none : pk_drop := {| d_options := false; d_changed := false |}.
Definition drop_options : pk_drop := {| d_options := true; d_changed := false |}.
Definition drop_changed : pk_drop := {| d_options := false; d_changed := true |}.

(* task.py 401-413 *)
Definition pk_init_options (t : ptask) : ptask :=
  match p_options t with
  | Some _ => t
  | None => {| p_def := p_def t; p_changed := p_changed t; p_options := Some (p_defaults t);
               p_defaults := p_defaults t; p_params := p_params t |}
  end.

(* `d[k] = x` on the options dict: an existing key keeps its place *)
Fixpoint oset (o : list (N * aval)) (k : N) (x : aval) : list (N * aval) :=
  match o with
  | [] => [(k, x)]
  | (k', y) :: r => if N.eqb k' k then (k', x) :: r else (k', y) :: oset r k x
  end.

(* runner.py 75-98, main process: [ga] = the getargs entries with the values read from the dependency manager *)
Definition pk_get_task_args (t : ptask) (ga : list (N * aval)) : ptask :=
  let t' := pk_init_options t in
  {| p_def := p_def t'; p_changed := p_changed t';
     p_options := Some (fold_left (fun o kv => oset o (fst kv) (snd kv)) ga (match p_options t' with Some o => o | None => [] end));
     p_defaults := p_defaults t'; p_params := p_params t' |}.

(* [pk_send]: __getstate__ / pickle_safe_dict followed by pickle.loads / update_from_pickle: the worker's Task object *)
Definition pk_send (d : pk_drop) (t : ptask) : ptask :=
  {| p_def := p_def t;
     p_changed := if d_changed d then [] else p_changed t;
     p_options := if d_options d then None else p_options t;
     p_defaults := p_defaults t; p_params := p_params t |}.

(* Task.execute (task.py 519: init_options) then the action's keyword arguments (Inputs.prepare_kwargs) *)
Definition action_kwargs (t : ptask) : list (N * kwval) :=
  let t' := pk_init_options t in
  prepare_kwargs (p_def t') (p_changed t') (match p_options t' with Some o => o | None => [] end) (p_params t').

(* what the action of a task receives when it is executed by the main process / by a worker process *)
Definition kwargs_main (t : ptask) (ga : list (N * aval)) : list (N * kwval) := action_kwargs (pk_get_task_args t ga).
Definition kwargs_worker (d : pk_drop) (t : ptask) (ga : list (N * aval)) : list (N * kwval) := action_kwargs (pk_send d (pk_get_task_args t ga)).
