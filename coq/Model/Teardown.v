(* Teardown.v -- the teardown phase of a run in detail: Runner.teardown (doit/runner.py 248-256) over
   Task.execute_teardown (doit/task.py 502-510), with the OUTCOME of every teardown action as an input.
   Runner.v / Parallel.v treat "report + teardown actions of task k" as one event (ETeardown k / PTdRun k w) whose
   outcome influences nothing; this file shows why that is sound and what happens inside it.
   Definitions only; proofs in Proofs/TeardownP.v, statements in Properties/C11.v.

   An action's outcome as doit classifies it (doit/action.py): TdOk = no BaseFail returned (None / True / str /
   dict; exit status 0), TdFail = a TaskFailed (python action returned False or a TaskFailed; exit status 1..125),
   TdError = a TaskError (exception raised by a python action, wrong return type, exit status > 125, error while
   building the command string). *)
From DoitV Require Import Base.

Inductive tdres := TdOk | TdFail | TdError.

Inductive tdev :=
| TReport (k : name)               (* reporter.teardown_task(task) *)
| TAct (k : name) (j : nat)        (* teardown action number j of task k is executed *)
| TCleanup (k : name).             (* reporter.cleanup_error(SetupError("ERROR: task 'k' teardown action", fail)) *)

Definition td_is_ok (a : tdres) : bool := match a with TdOk => true | _ => false end.

(* Task.execute_teardown: the actions in order; the first BaseFail is returned and ends the loop.
   Result: the events, and whether a failure was returned. *)
Fixpoint exec_teardown (k : name) (j : nat) (acts : list tdres) : list tdev * bool :=
  match acts with
  | [] => ([], false)
  | a :: rest =>
    if td_is_ok a
    then let r := exec_teardown k (S j) rest in (TAct k j :: fst r, snd r)
    else ([TAct k j], true)
  end.

(* one iteration of the loop in Runner.teardown: report, execute, wrap a failure in a SetupError and report it.
   (The wrapping -- CatchedException.__init__ with a BaseFail as `exception`, doit/exceptions.py 60-61 -- only
   copies the reference to the traceback: it cannot fail, whatever the kind of failure.) *)
Definition teardown_one (ka : name * list tdres) : list tdev :=
  let r := exec_teardown (fst ka) 0 (snd ka) in
  TReport (fst ka) :: fst r ++ (if snd r then [TCleanup (fst ka)] else []).

(* Runner.teardown: `for task in reversed(self.teardown_list)`.  tdl = teardown_list in registration order
   (= order in which this runner object started the tasks' actions), each with the outcomes of its actions. *)
Definition teardown (tdl : list (name * list tdres)) : list tdev := flat_map teardown_one (rev tdl).

(* ---- projections used in the statements ---- *)
Definition td_reports (evs : list tdev) : list name :=
  flat_map (fun e => match e with TReport k => [k] | _ => [] end) evs.
Definition td_acts_of (k : name) (evs : list tdev) : list nat :=
  flat_map (fun e => match e with TAct k' j => if N.eqb k' k then [j] else [] | _ => [] end) evs.
Definition td_cleanups (evs : list tdev) : list name :=
  flat_map (fun e => match e with TCleanup k => [k] | _ => [] end) evs.
Definition td_is_act (e : tdev) : bool := match e with TAct _ _ => true | _ => false end.

(* how many actions of a teardown run: all of them, or up to and including the first that is not ok *)
Fixpoint td_ran (acts : list tdres) : nat :=
  match acts with
  | [] => 0
  | a :: rest => if td_is_ok a then S (td_ran rest) else 1
  end.

(* ---- encoding for the correspondence check ---- *)
Definition enc_tdev (e : tdev) : list Z :=
  match e with
  | TReport k => [1; zN k] | TAct k j => [2; zN k; znat j] | TCleanup k => [3; zN k]
  end%Z.
Definition enc_td (evs : list tdev) : list Z := flat_map enc_tdev evs.
Definition tdres_of (z : N) : tdres := match z with 0%N => TdOk | 1%N => TdFail | _ => TdError end.
Definition mk_tdl (l : list (name * list N)) : list (name * list tdres) :=
  map (fun ka => (fst ka, map tdres_of (snd ka))) l.
(* per-worker view of the process flavour: the actions run in the worker; reports and errors reach the main
   process through the result queue (one producer: their order is kept, the interleaving with the actions is not) *)
Definition enc_td_split (evs : list tdev) : list Z :=
  (enc_td (filter td_is_act evs) ++ [-1] ++ enc_td (filter (fun e => negb (td_is_act e)) evs))%Z.
