(* Backends.v -- model of the three DB backends of doit/dependency.py:
     JsonDB   (58-123)   one text file holding the whole DB as one JSON document
     DbmDB    (132-242)  a dbm file task_id -> JSON text of the task's record, decoded cache, dirty set
     SqliteDB (246-352)  table doit(task_id, task_data json), connection with an open transaction,
                         decoded cache, dirty set
   and of the abstract map they are meant to implement.  Definitions only.

   Task ids and record keys ("dependency") are [N]; a stored value is an abstract [Z].
   A record (python dict key -> value) is a total function [N -> option Z]; a decoded DB
   (dict task_id -> dict) is [N -> option trec].  States are compared pointwise, never with [=] on
   functions.  The codec (JSONCodec.encode/decode, 44-54) is a Section variable: the per-record
   codec [enc/dec] used by DbmDB and SqliteDB and the whole-document codec [encdb/decdb] used by
   JsonDB (the same JSONCodec object applied to the dict of dicts).

   Sessions: a backend object is created by the constructor on a file and ends with dump()
   (Dependency.close is the only way doit ends a session).  The operation [Reopen] is
   dump() followed by the constructor on the same file. *)
From DoitV Require Export Base.

(* ---------- python dicts as total functions ---------- *)
Definition trec := N -> option Z.                 (* one task's record: key -> value *)
Definition tmap := N -> option trec.              (* decoded DB: task_id -> record *)
Definition empty {A : Type} : N -> option A := fun _ => None.
Definition del {A : Type} (m : N -> option A) (k : N) : N -> option A :=
  fun x => if N.eqb x k then None else m x.
Definition has {A : Type} (m : N -> option A) (k : N) : bool :=
  match m k with Some _ => true | None => false end.
Definition rget (o : option trec) (k : N) : option Z :=          (* d[t].get(k, None) when t in d *)
  match o with Some r => r k | None => None end.
Definition orempty (o : option trec) : trec := match o with Some r => r | None => empty end.
Definition rset (r : trec) (k : N) (v : Z) : trec := upd r k (Some v).      (* r[k] = v *)
(* if t not in d: d[t] = dflt
   d[t][k] = v *)
Definition setdefault_assign (d : tmap) (t : N) (dflt : trec) (k : N) (v : Z) : tmap :=
  let d1 := if has d t then d else upd d t (Some dflt) in
  upd d1 t (Some (rset (orempty (d1 t)) k v)).

(* equality of dicts = same answer to every lookup (no functional extensionality needed) *)
Definition rec_eq (a b : trec) : Prop := forall k, a k = b k.
Definition orec_eq (a b : option trec) : Prop :=
  match a, b with Some x, Some y => rec_eq x y | None, None => True | _, _ => False end.
Definition map_eq (a b : tmap) : Prop := forall t, orec_eq (a t) (b t).

(* ---------- operations and what the caller observes ---------- *)
Inductive op :=
| Set_ (t k : N) (v : Z)     (* db.set(t, k, v) *)
| Get (t k : N)              (* db.get(t, k) *)
| In_ (t : N)                (* db.in_(t) *)
| Remove (t : N)             (* db.remove(t) *)
| RemoveAll                  (* db.remove_all() *)
| Reopen.                    (* db.dump(); db = Class(name, codec) *)

Inductive obs :=
| OUnit                      (* returned None from a procedure *)
| OVal (v : option Z)        (* result of get *)
| OBool (b : bool)           (* result of in_ *)
| OExc.                      (* the call raised *)
(* encoding used by the correspondence check (harness/c07.py uses value ids >= 100) *)
Definition obs_z (o : obs) : Z :=
  match o with
  | OUnit => (-2)%Z | OVal None => (-1)%Z | OVal (Some v) => v | OBool b => zb b | OExc => 98%Z
  end.

Fixpoint run {S : Type} (step : S -> op -> S * obs) (s : S) (ops : list op) : list obs :=
  match ops with
  | [] => []
  | o :: r => snd (step s o) :: run step (fst (step s o)) r
  end.
Fixpoint exec {S : Type} (step : S -> op -> S * obs) (s : S) (ops : list op) : S :=
  match ops with
  | [] => s
  | o :: r => exec step (fst (step s o)) r
  end.

(* ---------- the abstract persistent map: task -> {key -> value} ---------- *)
Definition spec := tmap.
Definition spec_step (m : spec) (o : op) : spec * obs :=
  match o with
  | Set_ t k v => (upd m t (Some (rset (orempty (m t)) k v)), OUnit)
  | Get t k => (m, OVal (rget (m t) k))
  | In_ t => (m, OBool (has m t))
  | Remove t => (del m t, OUnit)
  | RemoveAll => (empty, OUnit)
  | Reopen => (m, OUnit)                       (* persistence: closing and reopening changes nothing *)
  end.
Definition run_spec (ops : list op) : list obs := run spec_step empty ops.

Section Codec.
  Variable E : Type.                            (* JSON text of one record *)
  Variable enc : trec -> E.                     (* codec.encode(dict) *)
  Variable dec : E -> trec.                     (* codec.decode(text) *)
  Variable F : Type.                            (* JSON text of the whole DB (JsonDB file content) *)
  Variable encdb : tmap -> F.
  Variable decdb : F -> tmap.

  (* ================= JsonDB (dependency.py 58-123) ================= *)
  Record jsondb := { j_file : option F;         (* file content; None = file does not exist *)
                     j_db : tmap }.             (* self._db *)
  (* __init__ 61-68 / _load 70-85 *)
  Definition json_open (file : option F) : jsondb :=
    {| j_file := file; j_db := match file with None => empty | Some f => decdb f end |}.
  (* dump 87-93 *)
  Definition json_dump (s : jsondb) : jsondb := {| j_file := Some (encdb (j_db s)); j_db := j_db s |}.
  (* set 95-99: if task_id not in _db: _db[task_id] = {}; _db[task_id][dependency] = value *)
  Definition json_set (s : jsondb) (t k : N) (v : Z) : jsondb :=
    {| j_file := j_file s; j_db := setdefault_assign (j_db s) t empty k v |}.
  (* get 102-108 *)
  Definition json_get (s : jsondb) (t k : N) : option Z :=
    if has (j_db s) t then rget (j_db s t) k else None.
  (* in_ 111-113 *)
  Definition json_in (s : jsondb) (t : N) : bool := has (j_db s) t.
  (* remove 116-119 *)
  Definition json_remove (s : jsondb) (t : N) : jsondb :=
    {| j_file := j_file s; j_db := if has (j_db s) t then del (j_db s) t else j_db s |}.
  (* remove_all 121-123 *)
  Definition json_remove_all (s : jsondb) : jsondb := {| j_file := j_file s; j_db := empty |}.

  Definition json_step (s : jsondb) (o : op) : jsondb * obs :=
    match o with
    | Set_ t k v => (json_set s t k v, OUnit)
    | Get t k => (s, OVal (json_get s t k))
    | In_ t => (s, OBool (json_in s t))
    | Remove t => (json_remove s t, OUnit)
    | RemoveAll => (json_remove_all s, OUnit)
    | Reopen => (json_open (j_file (json_dump s)), OUnit)
    end.
  Definition json_init : jsondb := json_open None.            (* no file yet *)
  Definition run_json (ops : list op) : list obs := run json_step json_init ops.

  (* ================= DbmDB (dependency.py 132-242) ================= *)
  Record dbmdb := { d_dbm : N -> option E;      (* self._dbm: the dbm file, task_id -> JSON text.  remove /
                                                   remove_all / dump write it directly *)
                    d_db : tmap;                (* self._db: decoded cache *)
                    d_dirty : list N }.         (* self.dirty *)
  (* __init__ 150-174: module.open(name, 'c'); _db = {}; dirty = set() *)
  Definition dbm_open (file : N -> option E) : dbmdb := {| d_dbm := file; d_db := empty; d_dirty := [] |}.
  (* get 204-218; the cache is filled on a hit in _dbm *)
  Definition dbm_get (s : dbmdb) (t k : N) : dbmdb * option Z :=
    match d_db s t with
    | Some r => (s, r k)
    | None =>
      match d_dbm s t with
      | None => (s, None)                                         (* KeyError -> return *)
      | Some e => let r := dec e in
                  ({| d_dbm := d_dbm s; d_db := upd (d_db s) t (Some r); d_dirty := d_dirty s |}, r k)
      end
    end.
  (* set 183-191.  [legacy] = the code before commit 8dbdf07: `if task_id not in self._db:
     self._db[task_id] = {}` without loading the saved record first *)
  Definition dbm_set (legacy : bool) (s : dbmdb) (t k : N) (v : Z) : dbmdb :=
    let s1 := if has (d_db s) t then s else if legacy then s else fst (dbm_get s t k) in
    {| d_dbm := d_dbm s1; d_db := setdefault_assign (d_db s1) t empty k v; d_dirty := addset t (d_dirty s1) |}.
  (* in_ 221-223: self._in_dbm(task_id) or task_id in self.dirty *)
  Definition dbm_in (s : dbmdb) (t : N) : bool := has (d_dbm s) t || mem t (d_dirty s).
  (* remove 226-233 *)
  Definition dbm_remove (s : dbmdb) (t : N) : dbmdb :=
    {| d_dbm := if has (d_dbm s) t then del (d_dbm s) t else d_dbm s;
       d_db := if has (d_db s) t then del (d_db s) t else d_db s;
       d_dirty := if mem t (d_dirty s) then rem t (d_dirty s) else d_dirty s |}.
  (* remove_all 236-242: _db = {}; reopen the file with flag 'n' (always a new empty db); dirty = set() *)
  Definition dbm_remove_all (s : dbmdb) : dbmdb := {| d_dbm := empty; d_db := empty; d_dirty := [] |}.
  (* dump 176-180: for task_id in self.dirty: self._dbm[task_id] = encode(self._db[task_id]);
     None = KeyError (a dirty id without cache entry) *)
  Fixpoint dbm_flush (db : tmap) (dirty : list N) (m : N -> option E) : option (N -> option E) :=
    match dirty with
    | [] => Some m
    | t :: r => match db t with
                | None => None
                | Some rc => dbm_flush db r (upd m t (Some (enc rc)))
                end
    end.
  Definition dbm_dump (s : dbmdb) : option (N -> option E) := dbm_flush (d_db s) (d_dirty s) (d_dbm s).

  Definition dbm_step (legacy : bool) (s : dbmdb) (o : op) : dbmdb * obs :=
    match o with
    | Set_ t k v => (dbm_set legacy s t k v, OUnit)
    | Get t k => (fst (dbm_get s t k), OVal (snd (dbm_get s t k)))
    | In_ t => (s, OBool (dbm_in s t))
    | Remove t => (dbm_remove s t, OUnit)
    | RemoveAll => (dbm_remove_all s, OUnit)
    | Reopen => match dbm_dump s with
                | Some file => (dbm_open file, OUnit)
                | None => (s, OExc)
                end
    end.
  Definition dbm_init : dbmdb := dbm_open empty.
  Definition run_dbm (legacy : bool) (ops : list op) : list obs := run (dbm_step legacy) dbm_init ops.

  (* ================= SqliteDB (dependency.py 246-352) ================= *)
  Record sqlitedb := { q_disk : N -> option E;  (* table doit as of the last commit (what another connection,
                                                   or the next session, sees) *)
                       q_txn : N -> option E;   (* the table as seen through self._conn: q_disk with this
                                                   connection's uncommitted deletes / inserts applied *)
                       q_cache : tmap;          (* self._cache *)
                       q_dirty : list N }.      (* self._dirty *)
  (* __init__ 249-254 *)
  Definition sq_open (disk : N -> option E) : sqlitedb :=
    {| q_disk := disk; q_txn := disk; q_cache := empty; q_dirty := [] |}.
  (* _get_task_data 309-312: the row's task_data run through the "json" converter, or None *)
  Definition sq_data (s : sqlitedb) (t : N) : option trec :=
    match q_txn s t with Some e => Some (dec e) | None => None end.
  (* get 296-307.  [legacy_get] = the code before commit 4c264d2: a miss was cached as {} *)
  Definition sq_get (legacy_get : bool) (s : sqlitedb) (t k : N) : sqlitedb * option Z :=
    match q_cache s t with
    | Some r => (s, r k)
    | None =>
      match sq_data s t with
      | Some r => ({| q_disk := q_disk s; q_txn := q_txn s; q_cache := upd (q_cache s) t (Some r);
                      q_dirty := q_dirty s |}, r k)
      | None => if legacy_get
                then ({| q_disk := q_disk s; q_txn := q_txn s; q_cache := upd (q_cache s) t (Some empty);
                         q_dirty := q_dirty s |}, None)
                else (s, None)
      end
    end.
  (* set 314-320.  [legacy_set] = the code before commit 8dbdf07: `self._cache[task_id] = {}` *)
  Definition sq_set (legacy_set : bool) (s : sqlitedb) (t k : N) (v : Z) : sqlitedb :=
    (* `self._cache[task_id] = self._get_task_data(task_id) or {}`; evaluated only when not cached *)
    let dflt := if legacy_set then empty else orempty (sq_data s t) in
    {| q_disk := q_disk s; q_txn := q_txn s; q_cache := setdefault_assign (q_cache s) t dflt k v;
       q_dirty := addset t (q_dirty s) |}.
  (* in_ 323-329 *)
  Definition sq_in (s : sqlitedb) (t : N) : bool := if has (q_cache s) t then true else has (q_txn s) t.
  (* remove 340-346: the delete is executed inside the connection's transaction (not committed) *)
  Definition sq_remove (s : sqlitedb) (t : N) : sqlitedb :=
    {| q_disk := q_disk s; q_txn := del (q_txn s) t;
       q_cache := if has (q_cache s) t then del (q_cache s) t else q_cache s;
       q_dirty := if mem t (q_dirty s) then rem t (q_dirty s) else q_dirty s |}.
  (* remove_all 348-352 *)
  Definition sq_remove_all (s : sqlitedb) : sqlitedb :=
    {| q_disk := q_disk s; q_txn := empty; q_cache := empty; q_dirty := [] |}.
  (* dump 331-338: insert or replace every dirty id (None = KeyError), commit, close *)
  Definition sq_dump (s : sqlitedb) : option (N -> option E) := dbm_flush (q_cache s) (q_dirty s) (q_txn s).

  Definition sq_step (legacy_get legacy_set : bool) (s : sqlitedb) (o : op) : sqlitedb * obs :=
    match o with
    | Set_ t k v => (sq_set legacy_set s t k v, OUnit)
    | Get t k => (fst (sq_get legacy_get s t k), OVal (snd (sq_get legacy_get s t k)))
    | In_ t => (s, OBool (sq_in s t))
    | Remove t => (sq_remove s t, OUnit)
    | RemoveAll => (sq_remove_all s, OUnit)
    | Reopen => match sq_dump s with
                | Some disk => (sq_open disk, OUnit)
                | None => (s, OExc)
                end
    end.
  Definition sq_init : sqlitedb := sq_open empty.
  Definition run_sqlite (legacy_get legacy_set : bool) (ops : list op) : list obs :=
    run (sq_step legacy_get legacy_set) sq_init ops.

  (* what the theorems assume about the codec: decoding an encoded dict gives an equal dict *)
  Definition codec_ok : Prop := forall r, rec_eq (dec (enc r)) r.
  Definition dbcodec_ok : Prop := forall m, map_eq (decdb (encdb m)) m.
End Codec.

(* ---------- the instance evaluated by the correspondence check: the codec is the identity
   (what JSONCodec does to unicode / nested values is checked on the real objects by the harness) ---------- *)
Definition idr (r : trec) : trec := r.
Definition idm (m : tmap) : tmap := m.
Definition jrun (ops : list op) : list Z := map obs_z (run_json tmap idm idm ops).
Definition drun (legacy : bool) (ops : list op) : list Z := map obs_z (run_dbm trec idr idr legacy ops).
Definition qrun (lg ls : bool) (ops : list op) : list Z := map obs_z (run_sqlite trec idr idr lg ls ops).
Definition srun_ (ops : list op) : list Z := map obs_z (run_spec ops).

(* ================= JsonDB, the text layer under the JSON document (dependency.py 70-93) =================
   _load does open(self.name, 'r').read() and dump does open(self.name, 'w').write(text): no encoding= is
   given, so the text <-> bytes conversion is the one of the locale the process of THAT session runs under
   (locale.getencoding(): ASCII under LC_ALL=C, UTF-8, a legacy 8-bit code page ...).  The file holds bytes;
   two sessions on one file may run under different locales.
     B      the bytes of the file,   L  a locale (its preferred encoding)
     tenc l text = None   <->  text.encode(l) raises UnicodeEncodeError
     tdec l bytes = None  <->  bytes.decode(l) raises UnicodeDecodeError
     trunc  the empty file: open(name, 'w') has truncated the file before write() encodes anything
     locs n the locale of the n-th session (the 0-th creates the file)
   [Reopen] raises (OExc) when dump's write raises -- the file is then left empty and the object lives on --
   or when the constructor of the next session raises in _load; in both cases the caller keeps the old
   object (harness/c07.py does the same). *)
Section JsonText.
  Variable F : Type.
  Variable encdb : tmap -> F.
  Variable decdb : F -> tmap.
  Variable B : Type.
  Variable L : Type.
  Variable tenc : L -> F -> option B.
  Variable tdec : L -> B -> option F.
  Variable trunc : B.
  Variable locs : nat -> L.

  Record jsondb_l := { jl_bytes : option B;     (* the file; None = does not exist *)
                       jl_obj : jsondb F;       (* the JsonDB object (its j_file field is not used here) *)
                       jl_n : nat }.            (* number of the session the object belongs to *)
  Definition jsonl_step (s : jsondb_l) (o : op) : jsondb_l * obs :=
    match o with
    | Reopen =>
      match tenc (locs (jl_n s)) (encdb (j_db F (jl_obj s))) with                    (* dump 87-93 *)
      | None => ({| jl_bytes := Some trunc; jl_obj := jl_obj s; jl_n := jl_n s |}, OExc)
      | Some b =>
        match tdec (locs (S (jl_n s))) b with                                        (* __init__ / _load 61-85 *)
        | None => ({| jl_bytes := Some b; jl_obj := jl_obj s; jl_n := S (jl_n s) |}, OExc)
        | Some f => ({| jl_bytes := Some b; jl_obj := json_open F decdb (Some f); jl_n := S (jl_n s) |}, OUnit)
        end
      end
    | _ => ({| jl_bytes := jl_bytes s; jl_obj := fst (json_step F encdb decdb (jl_obj s) o); jl_n := jl_n s |},
            snd (json_step F encdb decdb (jl_obj s) o))
    end.
  Definition jsonl_init : jsondb_l := {| jl_bytes := None; jl_obj := json_init F decdb; jl_n := 0 |}.
  Definition run_json_text (ops : list op) : list obs := run jsonl_step jsonl_init ops.

  (* what the theorems assume about the text layer: whatever document the codec produces can be written under
     the locale of any session and is read back as the same text under the locale of any session.  (True of
     JSONEncoder() = ensure_ascii=True: the document is pure ASCII and the locale encodings CPython supports
     agree on ASCII; checked on the real class by part D of harness/c07.py, never proved.) *)
  Definition text_ok : Prop :=
    forall m l l', exists b, tenc l (encdb m) = Some b /\ tdec l' b = Some (encdb m).
End JsonText.

(* an instance where the text layer matters: a document is written raw (not \u-escaped); the locale [false]
   is ASCII-only and can neither write nor read a document that names task 1 (a non-ASCII id), the locale
   [true] (UTF-8) can; None = the empty file, not a JSON document *)
Definition raw_tenc (l : bool) (f : tmap) : option (option tmap) :=
  if l then Some (Some f) else if has f 1 then None else Some (Some f).
Definition raw_tdec (l : bool) (b : option tmap) : option tmap :=
  match b with
  | None => None
  | Some f => if l then Some f else if has f 1 then None else Some f
  end.
Definition jrun_raw (locs : nat -> bool) (ops : list op) : list Z :=
  map obs_z (run_json_text tmap idm idm (option tmap) bool raw_tenc raw_tdec None locs ops).
