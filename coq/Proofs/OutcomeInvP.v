(* OutcomeInvP.v -- the CONVERSE of the `recd` / `mrgd` invariants of DispatchInv.v, threaded through
   the dispatcher:
     - every name in a node's bad_deps (resp. ignored_deps) is a dependency of the node's task
       (in its task_dep / calc_dep lists, or a setup-task once the generator reached the setup
       phase) whose status is failure (resp. ignore);
     - the node's dependency lists only contain EFFECTIVE dependencies w.r.t. the current statuses
       ([vcalc] / [vtk] of OutcomeSpec.v: what a calc_dep task returns counts only if its values
       are visible);
     - a node registered in waiting_me of p has p among its dependencies.
   Together with deps_recd / setup_recd / calcs_mrgd (DispatchInv.disp_post) this says that, when a
   task is handed to the runner, bad_deps / ignored_deps are EXACTLY the failed / ignored effective
   dependencies. *)
From DoitV Require Import Base Dispatch Runner DispatchP DispatchInv RunnerTr RunnerP AncP OutcomeSpec.
Open Scope N_scope.

Section O.
Variable tasks : name -> option task.
Variable wake_rank : name -> name -> N.
Variable calc_rank : name -> N.

Notation node_of := (node_of tasks).
Notation st_of := (st_of tasks).
Notation get_task := (get_task tasks).
Notation gen_node := (gen_node tasks).
Notation add_wait_one := (add_wait_one tasks).
Notation add_wait_run := (add_wait_run tasks).
Notation process_calc := (process_calc tasks).
Notation gen_step := (gen_step tasks calc_rank).
Notation set_pc := (set_pc tasks).
Notation AInv := (AInv tasks).
Notation vcalc := (vcalc tasks).
Notation vdep := (vdep tasks).
Notation new_tasks := (new_tasks tasks).

Definition setup_phase (p : pc) : bool := match p with PSetup _ | PSetupWaited | PDone => true | _ => false end.

(* x is something the node (of task me) may wait for / record the outcome of *)
Definition isdep (nd : node) (me x : name) : Prop :=
  In x (n_all_task nd) \/ In x (n_all_calc nd) \/ (In x (t_setup (get_task me)) /\ setup_phase (n_pc nd) = true).

(* y is a task_dep of me, declared or returned by a calc_dep task whose values are visible *)
Definition vtk (st : name -> status) (me y : name) : Prop :=
  In y (t_task_dep (get_task me)) \/
  exists c, vcalc st me c /\ calc_values_visible (st c) = true /\ In y (new_tasks c).

Record onode (st : name -> status) (me : name) (nd : node) : Prop := {
  ob_bad : forall x, In x (n_bad nd) -> is_failst (st x) = true /\ isdep nd me x;
  ob_ign : forall x, In x (n_ign nd) -> st x = SIgnore /\ isdep nd me x;
  ob_calc : forall y, In y (n_all_calc nd) -> vcalc st me y;
  ob_task : forall y, In y (n_all_task nd) -> vtk st me y
}.

Definition OInv (d : dstate) : Prop :=
  (forall me, onode (st_of d) me (node_of d me)) /\
  (forall p w, In w (n_wme (node_of d p)) -> isdep (node_of d w) w p).

(* ---------- statuses ---------- *)
Definition keeps_final (st st' : name -> status) : Prop := forall x, unfinished (st x) = false -> st' x = st x.

Lemma visible_final s : calc_values_visible s = true -> unfinished s = false.
Proof. destruct s; simpl; auto; discriminate. Qed.
Lemma failst_final s : is_failst s = true -> unfinished s = false.
Proof. destruct s; simpl; auto; discriminate. Qed.

Lemma vcalc_mono st st' k c : keeps_final st st' -> vcalc st k c -> vcalc st' k c.
Proof.
  intros K H. induction H as [c H|c c' H IH V Hin].
  - apply vc_static. exact H.
  - eapply vc_more; [exact IH| |exact Hin]. rewrite (K c (visible_final _ V)). exact V.
Qed.
Lemma vtk_mono st st' k y : keeps_final st st' -> vtk st k y -> vtk st' k y.
Proof.
  intros K [H|(c & H & V & Hin)]; [left; exact H|right].
  exists c. split; [eapply vcalc_mono; eauto|]. split; auto. rewrite (K c (visible_final _ V)). exact V.
Qed.
Lemma vdep_mono st st' k y : keeps_final st st' -> vdep st k y -> vdep st' k y.
Proof.
  intros K [H|H|c H V Hin].
  - apply vd_task. exact H.
  - apply vd_calc. eapply vcalc_mono; eauto.
  - eapply vd_dyn; [eapply vcalc_mono; eauto| |exact Hin]. rewrite (K c (visible_final _ V)). exact V.
Qed.

Lemma onode_mono st st' me nd : keeps_final st st' -> onode st me nd -> onode st' me nd.
Proof.
  intros K [A B C D]. split.
  - intros x Hx. destruct (A x Hx) as [F I]. split; auto. rewrite (K x (failst_final _ F)). exact F.
  - intros x Hx. destruct (B x Hx) as [F I]. split; auto. rewrite (K x); [exact F|rewrite F; reflexivity].
  - intros y Hy. eapply vcalc_mono; eauto.
  - intros y Hy. eapply vtk_mono; eauto.
Qed.

Lemma keeps_final_eq st st' : (forall x, st' x = st x) -> keeps_final st st'.
Proof. intros H x _. apply H. Qed.

(* ---------- nodes ---------- *)
Lemma isdep_mono nd nd' me x :
  incl (n_all_task nd) (n_all_task nd') -> incl (n_all_calc nd) (n_all_calc nd') ->
  (setup_phase (n_pc nd) = true -> setup_phase (n_pc nd') = true) ->
  isdep nd me x -> isdep nd' me x.
Proof. intros A B C [H|[H|[H1 H2]]]; [left; auto|right; left; auto|right; right; auto]. Qed.

Lemma onode_keep st me nd nd' :
  n_all_task nd' = n_all_task nd -> n_all_calc nd' = n_all_calc nd ->
  n_bad nd' = n_bad nd -> n_ign nd' = n_ign nd ->
  (setup_phase (n_pc nd) = true -> setup_phase (n_pc nd') = true) ->
  onode st me nd -> onode st me nd'.
Proof.
  intros E1 E2 E3 E4 P [A B C D].
  assert (M : forall x, isdep nd me x -> isdep nd' me x).
  { intros x. apply isdep_mono; auto; [rewrite E1|rewrite E2]; apply incl_refl. }
  split; rewrite ?E1, ?E2, ?E3, ?E4; auto.
  - intros x Hx. destruct (A x Hx). auto.
  - intros x Hx. destruct (B x Hx). auto.
Qed.

Lemma onode_new st pa k : onode st k (new_node tasks pa k).
Proof.
  split; simpl.
  - intros x [].
  - intros x [].
  - intros y Hy. apply vc_static. exact Hy.
  - intros y Hy. left. exact Hy.
Qed.

Lemma onode_parent st me nd x : onode st me nd -> isdep nd me x -> onode st me (parent_status nd x (st x)).
Proof.
  intros [A B C D] I. destruct (st x) eqn:E; simpl; try (split; assumption).
  - split; simpl; auto. intros y Hy. apply in_app_iff in Hy. destruct Hy as [Hy|[<-|[]]].
    + destruct (B y Hy) as [F J]. split; auto.
    + split; auto.
  - split; simpl; auto. intros y Hy. apply in_app_iff in Hy. destruct Hy as [Hy|[<-|[]]].
    + destruct (A y Hy) as [F J]. split; auto.
    + split; [rewrite E; reflexivity|exact I].
  - split; simpl; auto. intros y Hy. apply in_app_iff in Hy. destruct Hy as [Hy|[<-|[]]].
    + destruct (A y Hy) as [F J]. split; auto.
    + split; [rewrite E; reflexivity|exact I].
Qed.

Lemma onode_calc st me nd c : onode st me nd -> vcalc st me c -> onode st me (process_calc nd c (st c)).
Proof.
  intros H Hc. pose proof H as [A B C D].
  destruct (process_calc_incl tasks nd c (st c)) as [I1 I2].
  destruct (process_calc_fields tasks nd c (st c)) as (f1 & _ & _ & _ & _ & _ & f7 & f8 & _).
  assert (M : forall x, isdep nd me x -> isdep (process_calc nd c (st c)) me x).
  { intros x. apply isdep_mono; auto. rewrite f1. auto. }
  split; rewrite ?f7, ?f8.
  - intros x Hx. destruct (A x Hx). auto.
  - intros x Hx. destruct (B x Hx). auto.
  - unfold Dispatch.process_calc. destruct (calc_values_visible (st c)) eqn:V; [|exact C]. simpl.
    intros y Hy. apply in_app_iff in Hy. destruct Hy as [Hy|Hy]; auto.
    apply filter_In in Hy. destruct Hy as [Hy _]. apply fold_add_if_new_In' in Hy. destruct Hy as [[]|Hy].
    eapply vc_more; eauto.
  - unfold Dispatch.process_calc. destruct (calc_values_visible (st c)) eqn:V; [|exact D]. simpl.
    intros y Hy. apply fold_add_if_new_In' in Hy. rewrite in_app_iff in Hy.
    destruct Hy as [[Hy|Hy]|Hy]; auto; right; exists c; (split; [exact Hc|split; [exact V|]]);
      unfold OutcomeSpec.new_tasks; apply in_app_iff; auto.
Qed.

Lemma onode_of d me : OInv d -> onode (st_of d) me (node_of d me).
Proof. intros [H _]. apply H. Qed.

(* one node is replaced; its status field is unchanged *)
Lemma OInv_set d k nd' :
  OInv d -> n_st nd' = st_of d k -> onode (st_of d) k nd' ->
  incl (n_all_task (node_of d k)) (n_all_task nd') -> incl (n_all_calc (node_of d k)) (n_all_calc nd') ->
  (setup_phase (n_pc (node_of d k)) = true -> setup_phase (n_pc nd') = true) ->
  (forall w, In w (n_wme nd') -> In w (n_wme (node_of d k)) \/ isdep (if N.eqb w k then nd' else node_of d w) w k) ->
  OInv (set_node d k nd').
Proof.
  intros [HB HC] Hst Hn I1 I2 P Hw.
  assert (K : keeps_final (st_of d) (st_of (set_node d k nd'))).
  { apply keeps_final_eq. intro x. apply st_set_node_same_st. exact Hst. }
  assert (Hnode : forall z, node_of (set_node d k nd') z = if N.eqb z k then nd' else node_of d z).
  { intro z. destruct (N.eqb_spec z k) as [->|Hne]; [apply node_of_set_same|apply node_of_set_other; exact Hne]. }
  assert (M : forall w x, isdep (node_of d w) w x -> isdep (node_of (set_node d k nd') w) w x).
  { intros w x Hx. rewrite Hnode. destruct (N.eqb_spec w k) as [->|Hne]; auto. eapply isdep_mono; eauto. }
  split.
  - intro me. eapply onode_mono; [exact K|]. rewrite Hnode. destruct (N.eqb_spec me k) as [->|Hne]; auto.
  - intros p w Hin. rewrite Hnode in Hin. destruct (N.eqb_spec p k) as [->|Hne].
    + destruct (Hw w Hin) as [H|H]; [apply M; apply HC; exact H|]. rewrite Hnode. exact H.
    + apply M. apply HC. exact Hin.
Qed.

(* the common case: dependency lists, bad/ignored lists and waiting_me untouched *)
Lemma OInv_keep d k nd' :
  OInv d -> n_st nd' = st_of d k ->
  n_all_task nd' = n_all_task (node_of d k) -> n_all_calc nd' = n_all_calc (node_of d k) ->
  n_bad nd' = n_bad (node_of d k) -> n_ign nd' = n_ign (node_of d k) -> n_wme nd' = n_wme (node_of d k) ->
  (setup_phase (n_pc (node_of d k)) = true -> setup_phase (n_pc nd') = true) ->
  OInv (set_node d k nd').
Proof.
  intros H Hst E1 E2 E3 E4 E5 P. apply OInv_set; auto.
  - eapply onode_keep; eauto. apply onode_of. exact H.
  - rewrite E1. apply incl_refl.
  - rewrite E2. apply incl_refl.
  - intros w Hin. left. rewrite <- E5. exact Hin.
Qed.

Lemma OInv_queues d d' : d_nodes d' = d_nodes d -> OInv d -> OInv d'.
Proof.
  intros E [HB HC].
  assert (En : forall z, node_of d' z = node_of d z) by (intro z; unfold Dispatch.node_of; rewrite E; reflexivity).
  assert (Es : forall z, st_of d' z = st_of d z) by (intro z; unfold Dispatch.st_of; rewrite En; reflexivity).
  split.
  - intro me. rewrite En. eapply onode_mono; [|apply HB]. apply keeps_final_eq. exact Es.
  - intros p w. rewrite !En. apply HC.
Qed.

(* the runner gives a final (or `run`) status to a task that had none *)
Lemma OInv_status d k s : OInv d -> unfinished (st_of d k) = true -> OInv (set_status tasks d k s).
Proof.
  intros [HB HC] Hu. unfold Runner.set_status.
  assert (K : keeps_final (st_of d) (st_of (set_node d k (nd_st (node_of d k) s)))).
  { intros x Hx. rewrite st_set_node. destruct (N.eqb_spec x k) as [->|Hne]; auto. congruence. }
  assert (Hnode : forall z, node_of (set_node d k (nd_st (node_of d k) s)) z = if N.eqb z k then nd_st (node_of d k) s else node_of d z).
  { intro z. destruct (N.eqb_spec z k) as [->|Hne]; [apply node_of_set_same|apply node_of_set_other; exact Hne]. }
  split.
  - intro me. eapply onode_mono; [exact K|]. rewrite Hnode. destruct (N.eqb_spec me k) as [->|Hne]; auto.
    apply (onode_keep _ _ (node_of d k)); auto.
  - intros p w Hin. rewrite Hnode in Hin. rewrite Hnode.
    assert (Hin' : In w (n_wme (node_of d p))) by (destruct (N.eqb p k) eqn:Ep; [apply N.eqb_eq in Ep; subst; exact Hin|exact Hin]).
    specialize (HC p w Hin'). destruct (N.eqb_spec w k) as [->|Hne]; auto.
Qed.

(* the same, for any state whose nodes are those of d except for the status of k *)
Lemma OInv_status_gen d d' k :
  OInv d -> unfinished (st_of d k) = true ->
  (forall z, node_of d' z = if N.eqb z k then nd_st (node_of d k) (st_of d' k) else node_of d z) -> OInv d'.
Proof.
  intros [HB HC] Hu Hnode.
  assert (K : keeps_final (st_of d) (st_of d')).
  { intros x Hx. unfold Dispatch.st_of at 1. rewrite Hnode. destruct (N.eqb_spec x k) as [->|Hne]; auto. congruence. }
  split.
  - intro me. eapply onode_mono; [exact K|]. rewrite Hnode. destruct (N.eqb_spec me k) as [->|Hne]; auto.
    apply (onode_keep _ _ (node_of d k)); auto.
  - intros p w Hin. rewrite Hnode in Hin. rewrite Hnode.
    assert (Hin' : In w (n_wme (node_of d p))) by (destruct (N.eqb p k) eqn:Ep; [apply N.eqb_eq in Ep; subst; exact Hin|exact Hin]).
    specialize (HC p w Hin'). destruct (N.eqb_spec w k) as [->|Hne]; auto.
Qed.

(* ---------- _gen_node ---------- *)
Lemma gen_node_O d pa k : OInv d -> OInv (snd (gen_node d pa k)).
Proof.
  intros H. unfold Dispatch.gen_node. destruct (d_nodes d k) eqn:E.
  - destruct pa as [a|]; [destruct (mem k a)|]; exact H.
  - simpl. assert (En : node_of d k = new_node tasks [] k) by (unfold Dispatch.node_of; rewrite E; reflexivity).
    apply OInv_set; [exact H| | | | | |].
    + unfold Dispatch.st_of. rewrite En. reflexivity.
    + apply onode_new.
    + rewrite En. simpl. apply incl_refl.
    + rewrite En. simpl. apply incl_refl.
    + rewrite En. simpl. auto.
    + simpl. intros w [].
Qed.

(* ---------- _node_add_wait_run ---------- *)
Definition okdep (calc : bool) (nd : node) (me x : name) : Prop :=
  if calc then In x (n_all_calc nd) else isdep nd me x.

Lemma okdep_isdep calc nd me x : okdep calc nd me x -> isdep nd me x.
Proof. destruct calc; simpl; auto. intros H. right; left. exact H. Qed.

Lemma add_wait_one_frame d me x calc :
  n_pc (node_of (add_wait_one d me x calc) me) = n_pc (node_of d me) /\
  incl (n_all_task (node_of d me)) (n_all_task (node_of (add_wait_one d me x calc) me)) /\
  incl (n_all_calc (node_of d me)) (n_all_calc (node_of (add_wait_one d me x calc) me)).
Proof.
  unfold Dispatch.add_wait_one. destruct (unfinished (st_of d x)).
  - rewrite node_of_set_same.
    set (d1 := set_node d x _).
    assert (Hnd1 : exists w, node_of d1 me = nd_wme (node_of d me) w).
    { unfold d1. destruct (N.eqb_spec me x) as [->|Hne].
      - rewrite node_of_set_same. eexists; reflexivity.
      - rewrite node_of_set_other by auto. exists (n_wme (node_of d me)). destruct (node_of d me); reflexivity. }
    destruct Hnd1 as [w1 ->]. destruct calc; simpl; repeat split; apply incl_refl.
  - rewrite node_of_set_same.
    destruct (parent_status_fields (node_of d me) x (st_of d x)) as (f1 & _ & _ & _ & _ & _ & f7 & f8 & _).
    destruct calc.
    + destruct (process_calc_fields tasks (parent_status (node_of d me) x (st_of d x)) x (st_of d x)) as (g1 & _).
      destruct (process_calc_incl tasks (parent_status (node_of d me) x (st_of d x)) x (st_of d x)) as [I1 I2].
      rewrite f7 in I1. rewrite f8 in I2. split; [congruence|auto].
    + rewrite f7, f8. split; [exact f1|split; apply incl_refl].
Qed.

Lemma add_wait_one_O d me x calc :
  OInv d -> okdep calc (node_of d me) me x -> OInv (add_wait_one d me x calc).
Proof.
  intros H Hx. unfold Dispatch.add_wait_one.
  destruct (unfinished (st_of d x)) eqn:Eu.
  - set (nx := node_of d x).
    set (d1 := set_node d x (nd_wme nx (addset me (n_wme nx)))).
    assert (H1 : OInv d1).
    { apply OInv_set; auto; simpl; try apply incl_refl.
      - apply (onode_keep _ _ nx); auto. apply onode_of; exact H.
      - intros w Hw. apply addset_In in Hw. destruct Hw as [->|Hw]; auto. right.
        apply okdep_isdep in Hx. destruct (N.eqb_spec me x) as [->|Hne]; exact Hx. }
    assert (Hnd1 : exists w, node_of d1 me = nd_wme (node_of d me) w).
    { unfold d1. destruct (N.eqb_spec me x) as [->|Hne].
      - rewrite node_of_set_same. eexists; reflexivity.
      - rewrite node_of_set_other by auto. exists (n_wme (node_of d me)). destruct (node_of d me); reflexivity. }
    destruct Hnd1 as [w1 Hnd1].
    assert (Hst1 : st_of d1 me = n_st (node_of d me)) by (unfold Dispatch.st_of; rewrite Hnd1; reflexivity).
    apply OInv_keep; auto; rewrite ?Hst1; rewrite Hnd1; destruct calc; reflexivity || auto.
  - set (nd0 := node_of d me).
    assert (Hn0 : onode (st_of d) me nd0) by (apply onode_of; exact H).
    assert (Hn1 : onode (st_of d) me (parent_status nd0 x (st_of d x))).
    { apply onode_parent; auto. eapply okdep_isdep; eauto. }
    destruct (parent_status_fields nd0 x (st_of d x)) as (f1 & f2 & f3 & f4 & f5 & f6 & f7 & f8 & f9).
    assert (Hwme1 : n_wme (parent_status nd0 x (st_of d x)) = n_wme nd0) by (destruct (st_of d x); reflexivity).
    destruct calc.
    + simpl in Hx.
      destruct (process_calc_fields tasks (parent_status nd0 x (st_of d x)) x (st_of d x)) as (g1 & g2 & g3 & g4 & g5 & g6 & g7 & g8 & g9).
      destruct (process_calc_incl tasks (parent_status nd0 x (st_of d x)) x (st_of d x)) as [I1 I2].
      apply OInv_set; auto.
      * rewrite g5. exact f9.
      * apply onode_calc; auto. apply (ob_calc _ _ _ Hn0). exact Hx.
      * fold nd0. rewrite <- f7. exact I1.
      * fold nd0. rewrite <- f8. exact I2.
      * fold nd0. rewrite g1, f1. auto.
      * intros w Hw. left. fold nd0. rewrite g6, Hwme1 in Hw. exact Hw.
    + apply OInv_set; auto.
      * fold nd0. rewrite f7. apply incl_refl.
      * fold nd0. rewrite f8. apply incl_refl.
      * fold nd0. rewrite f1. auto.
      * intros w Hw. left. fold nd0. rewrite Hwme1 in Hw. exact Hw.
Qed.

Lemma okdep_frame calc nd nd' me y :
  n_pc nd' = n_pc nd -> incl (n_all_task nd) (n_all_task nd') -> incl (n_all_calc nd) (n_all_calc nd') ->
  okdep calc nd me y -> okdep calc nd' me y.
Proof.
  intros P I1 I2. destruct calc; simpl; auto. apply isdep_mono; auto. rewrite P. auto.
Qed.

Lemma add_wait_run_frame l : forall d me calc,
  n_pc (node_of (add_wait_run d me l calc) me) = n_pc (node_of d me) /\
  incl (n_all_task (node_of d me)) (n_all_task (node_of (add_wait_run d me l calc) me)) /\
  incl (n_all_calc (node_of d me)) (n_all_calc (node_of (add_wait_run d me l calc) me)).
Proof.
  induction l as [|x r IH]; intros d me calc; cbn [Dispatch.add_wait_run].
  - split; [reflexivity|split; apply incl_refl].
  - destruct (add_wait_one_frame d me x calc) as (P1 & I1 & J1).
    destruct (IH (add_wait_one d me x calc) me calc) as (P2 & I2 & J2).
    split; [congruence|split; eapply incl_tran; eauto].
Qed.

Lemma add_wait_run_O l : forall d me calc,
  OInv d -> (forall x, In x l -> okdep calc (node_of d me) me x) -> OInv (add_wait_run d me l calc).
Proof.
  induction l as [|x r IH]; intros d me calc H Hl; cbn [Dispatch.add_wait_run]; auto.
  apply IH.
  - apply add_wait_one_O; auto. apply Hl. left. reflexivity.
  - intros y Hy. destruct (add_wait_one_frame d me x calc) as (P1 & I1 & J1).
    eapply okdep_frame; eauto. apply Hl. right. exact Hy.
Qed.

Lemma set_pc_O d me p :
  OInv d -> (setup_phase (n_pc (node_of d me)) = true -> setup_phase p = true) -> OInv (set_pc d me p).
Proof. intros H P. unfold Dispatch.set_pc. apply OInv_keep; auto. Qed.

Lemma gen_node_frame_pc d pa k z : z <> k -> node_of (snd (gen_node d pa k)) z = node_of d z.
Proof. apply gen_node_frame. Qed.

(* ---------- one resumption of the generator ---------- *)
Lemma child_O d me c (p' : pc) :
  OInv d -> d_nodes d me <> None ->
  (setup_phase (n_pc (node_of d me)) = true -> setup_phase p' = true) ->
  OInv (set_pc (snd (gen_node d (Some (n_anc (node_of d me))) c)) me p').
Proof.
  intros H Hme P. apply set_pc_O; [apply gen_node_O; exact H|].
  unfold Dispatch.gen_node. destruct (d_nodes d c) eqn:Ec.
  - destruct (mem c (n_anc (node_of d me))); exact P.
  - simpl. assert (Hne : me <> c) by (intros ->; contradiction). rewrite node_of_set_other by auto. exact P.
Qed.

Lemma gen_step_O fuel : forall d me y d',
  AInv d -> OInv d -> gen_step fuel d me = (y, d') -> OInv d'.
Proof.
  induction fuel as [|fuel IH]; intros d me y d' HA H Hg; cbn [Dispatch.gen_step] in Hg.
  { inversion Hg; subst. exact H. }
  pose proof (anode_of_ok tasks d me HA) as Hme. destruct Hme as [Ac At Apc Apt Aw Awr Ap Aa].
  destruct (n_pc (node_of d me)) as [|rest calcs tks|rest tks| | | |rest| |] eqn:Epc.
  - (* PLoop *)
    eapply IH; [| |exact Hg].
    + apply AInv_set_node; auto. split; simpl; auto.
      * intros z [].
      * intros z [].
      * unfold pc_ok. simpl. split; [apply incl_refl|]. split; auto.
        intros z Hz. apply sort_by_In in Hz. apply Apc. exact Hz.
    + apply OInv_keep; auto. simpl. rewrite Epc. discriminate.
  - (* PCalc *)
    unfold pc_ok in Ap. rewrite Epc in Ap. destruct Ap as (P1 & P2 & P3).
    destruct rest as [|c r].
    + destruct (add_wait_run_A tasks wake_rank calc_rank calcs d me true HA) as (H1 & E1 & E2 & I1 & J1).
      { intros _. exact P2. }
      { intros E; discriminate. }
      eapply IH; [| |exact Hg].
      * apply set_pc_A; auto. unfold pc_ok. simpl. split; [apply incl_refl|]. eapply incl_tran; eauto.
      * apply set_pc_O; [apply add_wait_run_O; [exact H|intros x Hx; simpl; apply P2; exact Hx]|rewrite E1, Epc; discriminate].
    + assert (Hex : d_nodes d me <> None) by (apply (exists_of_pc tasks); rewrite Epc; discriminate).
      assert (He : eff_dep tasks me c) by (apply eff_calc_dep; apply Ac; apply P2; apply P1; left; reflexivity).
      pose proof (child_step tasks d me c (PCalc r calcs tks) HA Hex He) as Hc.
      assert (Hp : pc_ok tasks me (nd_pc (node_of d me) (PCalc r calcs tks))).
      { unfold pc_ok. simpl. split; auto. intros z Hz. apply P1. right; exact Hz. }
      specialize (Hc Hp).
      pose proof (child_O d me c (PCalc r calcs tks) H Hex) as Ho. rewrite Epc in Ho. specialize (Ho ltac:(discriminate)).
      destruct (Dispatch.gen_node tasks d (Some (n_anc (node_of d me))) c) as [[| |] d1]; simpl in Ho.
      * inversion Hg; subst. exact Ho.
      * eapply IH; [exact Hc|exact Ho|exact Hg].
      * inversion Hg; subst. exact H.
  - (* PTask *)
    unfold pc_ok in Ap. rewrite Epc in Ap. destruct Ap as (P1 & P2).
    destruct rest as [|c r].
    + destruct (add_wait_run_A tasks wake_rank calc_rank tks d me false HA) as (H1 & E1 & E2 & I1 & J1).
      { intros E; discriminate. }
      { intros _ z Hz. apply in_app_iff. left. apply P2. exact Hz. }
      assert (O1 : OInv (add_wait_run d me tks false)).
      { apply add_wait_run_O; [exact H|]. intros x Hx. simpl. left. apply P2. exact Hx. }
      set (d1 := add_wait_run d me tks false) in *.
      assert (HL : AInv (set_pc d1 me PLoop)) by (apply set_pc_A; auto; exact I).
      assert (HS : AInv (set_pc d1 me PSelf)) by (apply set_pc_A; auto; exact I).
      assert (OL : OInv (set_pc d1 me PLoop)) by (apply set_pc_O; auto; rewrite E1, Epc; discriminate).
      assert (OS : OInv (set_pc d1 me PSelf)) by (apply set_pc_O; auto; rewrite E1, Epc; discriminate).
      destruct (negb (is_nil (n_pend_calc (node_of d1 me))) || negb (is_nil (n_pend_task (node_of d1 me)))).
      * eapply IH; [exact HL|exact OL|exact Hg].
      * destruct (negb (is_nil (n_wrun (node_of d1 me))) || negb (is_nil (n_wcalc (node_of d1 me)))).
        -- inversion Hg; subst. exact OL.
        -- eapply IH; [exact HS|exact OS|exact Hg].
    + assert (Hex : d_nodes d me <> None) by (apply (exists_of_pc tasks); rewrite Epc; discriminate).
      assert (He : eff_dep tasks me c) by (apply At; apply P2; apply P1; left; reflexivity).
      pose proof (child_step tasks d me c (PTask r tks) HA Hex He) as Hc.
      assert (Hp : pc_ok tasks me (nd_pc (node_of d me) (PTask r tks))).
      { unfold pc_ok. simpl. split; auto. intros z Hz. apply P1. right; exact Hz. }
      specialize (Hc Hp).
      pose proof (child_O d me c (PTask r tks) H Hex) as Ho. rewrite Epc in Ho. specialize (Ho ltac:(discriminate)).
      destruct (Dispatch.gen_node tasks d (Some (n_anc (node_of d me))) c) as [[| |] d1]; simpl in Ho.
      * inversion Hg; subst. exact Ho.
      * eapply IH; [exact Hc|exact Ho|exact Hg].
      * inversion Hg; subst. exact H.
  - (* PSelf *)
    inversion Hg; subst. apply set_pc_O; auto. rewrite Epc. discriminate.
  - (* PAfterSelf *)
    destruct (is_nil (t_setup (get_task me))).
    + inversion Hg; subst. apply set_pc_O; auto.
    + assert (HW : AInv (set_pc d me PAfterSelWait)) by (apply set_pc_A; auto; exact I).
      assert (OW : OInv (set_pc d me PAfterSelWait)) by (apply set_pc_O; auto; rewrite Epc; discriminate).
      destruct (n_st (node_of d me)); try (eapply IH; [exact HW|exact OW|exact Hg]).
      inversion Hg; subst. apply OInv_keep; auto. simpl. rewrite Epc. discriminate.
  - (* PAfterSelWait *)
    assert (OD : OInv (set_pc d me PDone)) by (apply set_pc_O; auto).
    destruct (n_st (node_of d me)); try (inversion Hg; subst; exact OD).
    eapply IH; [| |exact Hg].
    + apply set_pc_A; auto. unfold pc_ok. simpl. apply incl_refl.
    + apply set_pc_O; auto.
  - (* PSetup *)
    unfold pc_ok in Ap. rewrite Epc in Ap.
    destruct rest as [|c r].
    + destruct (add_wait_run_frame (t_setup (get_task me)) d me false) as (E1 & _ & _).
      assert (O1 : OInv (add_wait_run d me (t_setup (get_task me)) false)).
      { apply add_wait_run_O; [exact H|]. intros x Hx. simpl. right; right. split; [exact Hx|]. rewrite Epc. reflexivity. }
      destruct (is_nil (n_wrun (node_of (add_wait_run d me (t_setup (get_task me)) false) me)));
        inversion Hg; subst; apply set_pc_O; auto.
    + assert (Hex : d_nodes d me <> None) by (apply (exists_of_pc tasks); rewrite Epc; discriminate).
      assert (He : eff_dep tasks me c).
      { apply ed_static. unfold static_deps. rewrite !in_app_iff. right; right. apply Ap. left; reflexivity. }
      pose proof (child_step tasks d me c (PSetup r) HA Hex He) as Hc.
      assert (Hp : pc_ok tasks me (nd_pc (node_of d me) (PSetup r))).
      { unfold pc_ok. simpl. intros z Hz. apply Ap. right; exact Hz. }
      specialize (Hc Hp).
      pose proof (child_O d me c (PSetup r) H Hex) as Ho. specialize (Ho ltac:(reflexivity)).
      destruct (Dispatch.gen_node tasks d (Some (n_anc (node_of d me))) c) as [[| |] d1]; simpl in Ho.
      * inversion Hg; subst. exact Ho.
      * eapply IH; [exact Hc|exact Ho|exact Hg].
      * inversion Hg; subst. exact H.
  - (* PSetupWaited *)
    inversion Hg; subst. apply set_pc_O; auto.
  - (* PDone *)
    inversion Hg; subst. exact H.
Qed.

(* ---------- _update_waiting ---------- *)
Lemma wake_node_frame nd fin fs :
  n_pc (wake_node tasks nd fin fs) = n_pc nd /\ n_wme (wake_node tasks nd fin fs) = n_wme nd.
Proof.
  unfold Dispatch.wake_node.
  assert (P : n_pc (parent_status nd fin fs) = n_pc nd /\ n_wme (parent_status nd fin fs) = n_wme nd)
    by (destruct fs; split; reflexivity).
  destruct P as [P1 P2].
  destruct (mem fin (n_wcalc nd)).
  - destruct (process_calc_fields tasks (nd_wait (parent_status nd fin fs) (rem fin (n_wrun (parent_status nd fin fs)))
                 (rem fin (n_wcalc (parent_status nd fin fs)))) fin fs) as (g1 & _ & _ & _ & _ & g6 & _).
    rewrite g1, g6. simpl. auto.
  - simpl. auto.
Qed.

Lemma wake_node_onode st w nd fin :
  onode st w nd -> isdep nd w fin -> (mem fin (n_wcalc nd) = true -> In fin (n_all_calc nd)) ->
  onode st w (wake_node tasks nd fin (st fin)).
Proof.
  intros Hn Hd Hc. unfold Dispatch.wake_node.
  assert (H1 : onode st w (parent_status nd fin (st fin))) by (apply onode_parent; auto).
  set (nw := parent_status nd fin (st fin)) in *.
  assert (H2 : onode st w (nd_wait nw (rem fin (n_wrun nw)) (rem fin (n_wcalc nw)))).
  { apply (onode_keep _ _ nw); auto. }
  destruct (mem fin (n_wcalc nd)) eqn:Em; auto.
  apply onode_calc; auto. apply (ob_calc _ _ _ Hn). apply Hc. reflexivity.
Qed.

Lemma wake_one_O d fin w :
  AInv d -> OInv d -> isdep (node_of d w) w fin -> OInv (wake_one tasks d fin (st_of d fin) w).
Proof.
  intros HA H Hd. unfold Dispatch.wake_one.
  set (nd := node_of d w). set (nw2 := wake_node tasks nd fin (st_of d fin)).
  destruct (wake_node_frame nd fin (st_of d fin)) as [F1 F2]. fold nw2 in F1, F2.
  destruct (wake_node_incl tasks nd fin (st_of d fin)) as [I1 I2]. fold nw2 in I1, I2.
  assert (H1 : OInv (set_node d w nw2)).
  { apply OInv_set; auto.
    - unfold nw2. apply wake_node_st.
    - apply wake_node_onode; auto; [apply onode_of; exact H|].
      intros Em. apply mem_In in Em. apply (a_wcalc _ _ _ (anode_of_ok tasks d w HA)). exact Em.
    - rewrite F1. auto.
    - intros z Hz. left. rewrite F2 in Hz. exact Hz. }
  destruct (wake_ready nd fin nw2 && mem w (d_waiting (set_node d w nw2))); exact H1.
Qed.

Lemma wake_one_isdep d fin fs w z x :
  isdep (node_of d z) z x -> isdep (node_of (wake_one tasks d fin fs w) z) z x.
Proof.
  intros Hd. unfold Dispatch.wake_one.
  set (nd := node_of d w). set (nw2 := wake_node tasks nd fin fs).
  assert (Hn : node_of (set_node d w nw2) z = if N.eqb z w then nw2 else node_of d z).
  { destruct (N.eqb_spec z w) as [->|Hne]; [apply node_of_set_same|apply node_of_set_other; exact Hne]. }
  assert (G : isdep (node_of (set_node d w nw2) z) z x).
  { rewrite Hn. destruct (N.eqb_spec z w) as [->|Hne]; auto.
    destruct (wake_node_frame nd fin fs) as [F1 F2]. destruct (wake_node_incl tasks nd fin fs) as [I1 I2].
    eapply isdep_mono; [exact I1|exact I2| |exact Hd]. unfold nw2. rewrite F1. auto. }
  destruct (wake_ready nd fin nw2 && mem w (d_waiting (set_node d w nw2))); exact G.
Qed.

Lemma wake_O l : forall d fin,
  AInv d -> OInv d -> (forall w, In w l -> isdep (node_of d w) w fin) -> OInv (wake tasks d fin (st_of d fin) l).
Proof.
  induction l as [|w r IH]; intros d fin HA H Hl; cbn [Dispatch.wake]; auto.
  assert (Es : st_of d fin = st_of (wake_one tasks d fin (st_of d fin) w) fin) by (rewrite wake_one_st; reflexivity).
  rewrite Es at 2. apply IH.
  - apply wake_one_A; auto.
  - apply wake_one_O; auto. apply Hl. left. reflexivity.
  - intros z Hz. apply wake_one_isdep. apply Hl. right. exact Hz.
Qed.

Lemma update_waiting_O d p : AInv d -> OInv d -> OInv (update_waiting tasks wake_rank d p).
Proof.
  intros HA H. unfold Dispatch.update_waiting. destruct p as [p|]; auto.
  set (np := node_of d p).
  set (d1 := if n_wsel np then
               let d0 := set_node d p (nd_wsel np false) in
               set_waiting (set_ready d0 (d_ready d0 ++ [p])) (rem p (d_waiting d0))
             else d).
  assert (A1 : AInv d1).
  { unfold d1. destruct (n_wsel np); auto. cbv zeta. eapply AInv_queues; [reflexivity|].
    apply AInv_set_node; auto. apply aok_wsel. apply anode_of_ok. exact HA. }
  assert (O1 : OInv d1).
  { unfold d1. destruct (n_wsel np); auto. cbv zeta. eapply OInv_queues; [reflexivity|].
    apply OInv_keep; auto. }
  assert (Hn : forall z, n_all_task (node_of d1 z) = n_all_task (node_of d z) /\ n_all_calc (node_of d1 z) = n_all_calc (node_of d z) /\
                         n_pc (node_of d1 z) = n_pc (node_of d z) /\ n_wme (node_of d1 z) = n_wme (node_of d z) /\ n_st (node_of d1 z) = n_st (node_of d z)).
  { intro z. unfold d1. destruct (n_wsel np); auto. cbv zeta.
    change (node_of (set_waiting (set_ready (set_node d p (nd_wsel np false)) (d_ready (set_node d p (nd_wsel np false)) ++ [p]))
                       (rem p (d_waiting (set_node d p (nd_wsel np false))))) z) with (node_of (set_node d p (nd_wsel np false)) z).
    destruct (N.eqb_spec z p) as [->|Hne]; [rewrite node_of_set_same; simpl; auto|rewrite node_of_set_other by auto; auto]. }
  assert (Hw : forall w, In w (wake_order wake_rank p (n_wme np)) -> isdep (node_of d1 w) w p).
  { intros w Hin. unfold wake_order in Hin. apply sort_by_In in Hin.
    destruct H as [_ HC]. specialize (HC p w Hin).
    destruct (Hn w) as (e1 & e2 & e3 & _). unfold isdep in *. rewrite e1, e2, e3. exact HC. }
  assert (Es : forall s, n_st np = s -> s = st_of d1 p).
  { intros s <-. unfold Dispatch.st_of. destruct (Hn p) as (_ & _ & _ & _ & e5). rewrite e5. reflexivity. }
  fold d1.
  destruct (n_st np) eqn:Est; auto; rewrite (Es _ eq_refl); apply wake_O; auto.
Qed.

(* ---------- _get_next_node, the dispatcher loop ---------- *)
Lemma next_from_torun_O l : forall d o d', OInv d -> next_from_torun tasks d l = (o, d') -> OInv d'.
Proof.
  induction l as [|x r IH]; intros d o d' H E; simpl in E.
  - inversion E; subst. eapply OInv_queues; [reflexivity|exact H].
  - pose proof (gen_node_O d None x H) as H1.
    destruct (Dispatch.gen_node tasks d None x) as [[| |] d1]; simpl in H1.
    + inversion E; subst. eapply OInv_queues; [reflexivity|exact H1].
    + eapply IH; eauto.
    + eapply IH; eauto.
Qed.

Lemma disp_run_O fuel : forall d y d', AInv d -> OInv d -> disp_run tasks calc_rank fuel d = (y, d') -> OInv d'.
Proof.
  induction fuel as [|fuel IH]; intros d y d' HA H E; cbn [Dispatch.disp_run] in E.
  { inversion E; subst. exact H. }
  destruct (d_cur d) as [me|] eqn:Ecur.
  - destruct (gen_step (S (S fuel)) d me) as [g d1] eqn:Eg.
    destruct (gen_step_A tasks wake_rank calc_rank _ _ _ _ _ HA Eg) as [A1 _].
    pose proof (gen_step_O _ _ _ _ _ HA H Eg) as O1.
    destruct g.
    + eapply IH; [| |exact E]; [eapply AInv_queues; [reflexivity|exact A1]|eapply OInv_queues; [reflexivity|exact O1]].
    + eapply IH; [| |exact E]; [eapply AInv_queues; [reflexivity|exact A1]|eapply OInv_queues; [reflexivity|exact O1]].
    + inversion E; subst. exact O1.
    + eapply IH; [| |exact E]; [eapply AInv_queues; [reflexivity|exact A1]|eapply OInv_queues; [reflexivity|exact O1]].
    + inversion E; subst. exact O1.
    + inversion E; subst. exact O1.
  - destruct (d_ready d) as [|x r] eqn:Er.
    + destruct (next_from_torun tasks d (d_torun d)) as [o d1] eqn:En.
      pose proof (next_from_torun_A tasks _ _ _ _ HA En) as A1.
      pose proof (next_from_torun_O _ _ _ _ H En) as O1.
      destruct o as [x|].
      * eapply IH; [| |exact E]; [eapply AInv_queues; [reflexivity|exact A1]|eapply OInv_queues; [reflexivity|exact O1]].
      * destruct (is_nil (d_waiting d1)); inversion E; subst; exact O1.
    + eapply IH; [| |exact E]; [eapply AInv_queues; [reflexivity|exact HA]|eapply OInv_queues; [reflexivity|exact H]].
Qed.

Theorem disp_send_O fuel d p y d' :
  AInv d -> OInv d -> disp_send tasks wake_rank calc_rank fuel d p = (y, d') -> OInv d'.
Proof.
  intros HA H E. unfold Dispatch.disp_send in E.
  eapply disp_run_O; [| |exact E]; [apply update_waiting_A; auto|apply update_waiting_O; auto].
Qed.

Lemma OInv_init sel : OInv (disp_init sel).
Proof.
  split.
  - intro me. apply onode_new.
  - intros p w Hin. simpl in Hin. destruct Hin.
Qed.

End O.
Print Assumptions disp_send_O.
