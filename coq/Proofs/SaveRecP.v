(* Proofs/SaveRecP.v -- the record Dependency.save_success leaves (Model/SaveRec.v). *)
From DoitV Require Import Base Backends Crash SaveRec.
From Coq Require Import Lia ZifyBool.

Lemma rset_same : forall r k v, rset r k v k = Some v.
Proof. intros. unfold rset, upd. rewrite N.eqb_refl. reflexivity. Qed.

Lemma rset_other : forall r k v x, x <> k -> rset r k v x = r x.
Proof. intros. unfold rset, upd. destruct (N.eqb x k) eqn:E; [apply N.eqb_eq in E; contradiction|reflexivity]. Qed.

Lemma set_all_notin : forall l r k, ~ In k (map fst l) -> set_all r l k = r k.
Proof.
  induction l as [|[k0 v0] l IH]; intros r k Hn; [reflexivity|].
  simpl in *. unfold set_all in *. simpl. rewrite IH by tauto. apply rset_other. intros ->. tauto.
Qed.

Lemma set_all_in : forall l r k v, NoDup (map fst l) -> In (k, v) l -> set_all r l k = Some v.
Proof.
  induction l as [|[k0 v0] l IH]; intros r k v Hd Hin; [destruct Hin|].
  simpl in Hd. inversion Hd as [|? ? Hn Hd']; subst.
  unfold set_all in *. simpl. destruct Hin as [E|Hin].
  - inversion E; subst. fold (set_all (rset r k v) l). rewrite set_all_notin by exact Hn. apply rset_same.
  - apply IH; assumption.
Qed.

Lemma set_all_app : forall a b r, set_all r (a ++ b) = set_all (set_all r a) b.
Proof. intros. unfold set_all. apply fold_left_app. Qed.

(* every pair of the completed execution is in the record, whatever record was found *)
Lemma save_keeps_every_pair : forall chk old pairs k v,
  NoDup (map fst pairs) -> In (k, v) pairs -> k <> KCHK ->
  save_success chk old pairs k = Some v.
Proof.
  intros chk old pairs k v Hd Hin Hk. unfold save_success. rewrite set_all_app.
  rewrite set_all_notin by (simpl; intros [E|[]]; congruence).
  apply set_all_in; assumption.
Qed.

Lemma save_records_checker : forall chk old pairs, save_success chk old pairs KCHK = Some chk.
Proof.
  intros. unfold save_success. rewrite set_all_app. unfold set_all at 1. simpl. apply rset_same.
Qed.

(* nothing of a record written under ANOTHER checker survives *)
Lemma save_other_checker_drops_old : forall chk old pairs c k,
  rget old KCHK = Some c -> c <> chk -> ~ In k (map fst pairs) -> k <> KCHK ->
  save_success chk old pairs k = None.
Proof.
  intros chk old pairs c k Hc Hne Hn Hk. unfold save_success.
  rewrite set_all_notin by (rewrite map_app, in_app_iff; simpl; intuition congruence).
  unfold save_base. rewrite Hc. destruct (Z.eqb c chk) eqn:E; [lia|reflexivity].
Qed.

(* a record of the SAME checker (or one without the key) is updated in place: keys not set again stay *)
Lemma save_same_checker_keeps_old : forall chk old pairs k,
  (rget old KCHK = Some chk \/ rget old KCHK = None) -> ~ In k (map fst pairs) -> k <> KCHK ->
  save_success chk old pairs k = rget old k.
Proof.
  intros chk old pairs k Hc Hn Hk. unfold save_success.
  rewrite set_all_notin by (rewrite map_app, in_app_iff; simpl; intuition congruence).
  unfold save_base. destruct Hc as [Hc|Hc]; rewrite Hc.
  - rewrite Z.eqb_refl. destruct old; reflexivity.
  - destruct old; reflexivity.
Qed.

(* the record after the save does not depend on the old one at all when that was written under another checker *)
Lemma save_other_checker_fresh : forall chk old pairs c,
  rget old KCHK = Some c -> c <> chk -> forall k, save_success chk old pairs k = save_success chk None pairs k.
Proof.
  intros chk old pairs c Hc Hne k. unfold save_success, save_base. rewrite Hc.
  destruct (Z.eqb c chk) eqn:E; [lia|]. reflexivity.
Qed.

(* the guard placed after the values / result pairs loses them: a record under checker 7, a save under checker 8 *)
Lemma late_guard_loses_values :
  exists chk old pre post k v, In (k, v) pre /\ k <> KCHK /\ NoDup (map fst (pre ++ post)) /\
    save_success chk old (pre ++ post) k = Some v /\
    save_success_late_guard chk old pre post k = None.
Proof.
  exists 8%Z, (Some (mk_rec [(0%N, 1%Z); (KCHK, 7%Z)])), [(0%N, 5%Z)], [(3%N, 6%Z)], 0%N, 5%Z.
  repeat split; try (vm_compute; reflexivity).
  - left; reflexivity.
  - discriminate.
  - simpl. repeat constructor; simpl; intuition discriminate.
Qed.
