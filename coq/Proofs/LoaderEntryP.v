(* LoaderEntryP.v -- proofs about Model/LoaderEntry.v *)
From DoitV Require Import Base Loader LoaderP LoaderEntry.
Open Scope Z_scope.

Lemma get_loader_some l : get_loader (Some l) = l.
Proof. destruct l; reflexivity. Qed.

Lemma entry_cmd_names_eq e core plugin : entry_cmd_names e core plugin = (core ++ plugin)%list.
Proof. unfold entry_cmd_names. destruct e; simpl; apply get_loader_some. Qed.

Lemma entry_cmd_names_in e core plugin x :
  In x (entry_cmd_names e core plugin) <-> In x core \/ In x plugin.
Proof. rewrite entry_cmd_names_eq. apply in_app_iff. Qed.

Lemma entry_points_agree fmt fn lv e1 e2 core plugin allow cs :
  entry_load fmt fn lv e1 core plugin allow cs = entry_load fmt fn lv e2 core plugin allow cs /\
  entry_load_tasks fmt lv e1 core plugin allow cs = entry_load_tasks fmt lv e2 core plugin allow cs.
Proof. unfold entry_load, entry_load_tasks. rewrite !entry_cmd_names_eq. split; reflexivity. Qed.

Lemma load_tasks_cmd_clash fmt lv cmds allow cs c :
  In c cs -> In (c_name c) cmds -> load_tasks fmt lv cmds allow cs = Invalid InvalidDodo.
Proof.
  intros Hc Hin. unfold load_tasks.
  assert (X : existsb (fun c => mem_str (c_name c) cmds) cs = true).
  { apply existsb_exists. exists c. split; auto. apply mem_str_In; auto. }
  rewrite X. reflexivity.
Qed.

Lemma entry_cmd_clash fmt fn lv e core plugin allow cs c :
  In c cs -> In (c_name c) core \/ In (c_name c) plugin ->
  entry_load_tasks fmt lv e core plugin allow cs = Invalid InvalidDodo /\
  entry_load fmt fn lv e core plugin allow cs = Invalid InvalidDodo /\
  entry_report e (entry_load_tasks fmt lv e core plugin allow cs) = [3; 0] /\
  entry_report e (entry_load fmt fn lv e core plugin allow cs) = [3; 0].
Proof.
  intros Hc Hin. apply (entry_cmd_names_in e) in Hin.
  assert (A : entry_load_tasks fmt lv e core plugin allow cs = Invalid InvalidDodo)
    by (apply (load_tasks_cmd_clash fmt lv _ allow cs c); auto).
  assert (B : entry_load fmt fn lv e core plugin allow cs = Invalid InvalidDodo)
    by (apply (cmd_clash_rejected fmt fn lv _ allow cs c); auto).
  rewrite A, B. repeat split; reflexivity.
Qed.

Lemma entry_total fmt fn e core plugin allow cs :
  (entry_report e (entry_load fmt fn L2 e core plugin allow cs) = [0; 0] \/
   entry_report e (entry_load fmt fn L2 e core plugin allow cs) = [3; 0]) /\
  (entry_report e (entry_load_tasks fmt L2 e core plugin allow cs) = [0; 0] \/
   entry_report e (entry_load_tasks fmt L2 e core plugin allow cs) = [3; 0]).
Proof.
  unfold entry_load, entry_load_tasks. split.
  - pose proof (load_total fmt fn (entry_cmd_names e core plugin) allow cs) as H.
    destruct (load fmt fn L2 _ allow cs) eqn:E; simpl; auto. exfalso. apply (H c). reflexivity.
  - pose proof (proj1 (load_tasks_safe fmt (entry_cmd_names e core plugin) allow cs)) as H.
    destruct (load_tasks fmt L2 _ allow cs) eqn:E; simpl; auto. exfalso. apply (H c). reflexivity.
Qed.

(* an entry point that is invalid at one of them is invalid at all of them, with the same diagnostic class *)
Lemma entry_invalid_everywhere fmt fn lv e1 e2 core plugin allow cs x :
  entry_load fmt fn lv e1 core plugin allow cs = Invalid x ->
  entry_load fmt fn lv e2 core plugin allow cs = Invalid x /\
  entry_report e2 (entry_load fmt fn lv e2 core plugin allow cs) = [3; 0].
Proof.
  intros H. rewrite (proj1 (entry_points_agree fmt fn lv e2 e1 core plugin allow cs)). rewrite H. split; reflexivity.
Qed.
