(* IgnParP.v -- the parallel runners (MRunner / MThreadRunner model of Model/Parallel.v) never START a
   task the DB marks as ignored, nor one the mark reaches: `~ In (PStart k w) log` for every worker w,
   every schedule, worker count, flavour, selection, --continue / --always-execute, fuel.

   How: one more invariant next to PI (Proofs/ParallelP.v) and PO (Proofs/OutcomeParP.v),
     NS p := every task with a PStart in p_log has t_dbignore = false.
   The only step that logs a PStart is worker_step taking `JTask k` off the job queue; then k is in
   [live p], so (PI: pi_run) its status is `run`, and (PO: po_s, third clause of SIa) a task whose status
   is `run` satisfies `first ... PRun`, whose rule f_run demands t_dbignore = false -- that is the test
   `node.ignored_deps or dep_manager.status_is_ignore(task)` of Runner.select_task, made BEFORE
   always_execute is looked at.  Every other step leaves the PStart events of the log alone.
   For a task the mark only REACHES (task_dep / calc_dep on a marked-closure task) the existing
   IgnWins.parallel_dep_on_ign_never_runs applies. *)
From DoitV Require Import Base Dispatch Runner Parallel DispatchP DispatchInv RunnerTr RunnerP AncP ParallelP
  OutcomeSpec OutcomeInvP OutcomeSerialP OutcomeParP.
From DoitV Require Status History Commands CommandsP.
Open Scope N_scope.

Section Par.
Variable tasks : name -> option task.
Variable wake_rank : name -> name -> N.
Variable calc_rank : name -> N.
Variable continue_ always proc : bool.

Notation st_of := (st_of tasks).
Notation get_task := (get_task tasks).
Notation PI := (PI tasks).
Notation PO := (PO tasks always).
Notation worker_step := (worker_step tasks proc).
Notation main_get := (main_get tasks proc).
Notation join_all := (join_all tasks proc).
Notation next_job_loop := (next_job_loop tasks wake_rank calc_rank continue_ always).
Notation get_next_job := (get_next_job tasks wake_rank calc_rank continue_ always).
Notation start_procs := (start_procs tasks wake_rank calc_rank continue_ always proc).
Notation hand_out := (hand_out tasks wake_rank calc_rank continue_ always).
Notation main_loop := (main_loop tasks wake_rank calc_rank continue_ always proc).
Notation terminate := (terminate proc).
Notation process_result := (process_result tasks continue_).

(* no marked task among the started ones *)
Definition NS (p : pstate) : Prop :=
  forall k, In k (pstarts (p_log p)) -> t_dbignore (get_task k) = false.

(* a task whose status is `run` was selected by select_task's run branch: not marked *)
Lemma run_not_marked p k : PO p -> st_of (r_d (p_r p)) k = SRun -> t_dbignore (get_task k) = false.
Proof.
  intros HO Hs. destruct (po_s _ _ _ HO) as (a & _ & _ & S3).
  destruct (S3 k Hs) as [_ F]. inversion F; assumption.
Qed.

(* ... in particular every task in flight (queued job, running in a worker, result queued) *)
Lemma live_not_marked p k : PI p -> PO p -> In k (live p) -> t_dbignore (get_task k) = false.
Proof. intros HI HO Hk. apply (run_not_marked p k HO). apply (pi_run _ _ HI k Hk). Qed.

Lemma pstarts_sync p : pstarts (p_log (sync p)) = pstarts (p_log p).
Proof. unfold sync. cbn [p_log]. rewrite pstarts_app, pstarts_map_PE, app_nil_r. reflexivity. Qed.

Lemma pstarts_plog p evs : pstarts (p_log (plog p evs)) = pstarts (p_log p) ++ pstarts evs.
Proof. unfold plog. cbn [p_log]. rewrite pstarts_app, pstarts_sync. reflexivity. Qed.

Lemma NS_log p p' : pstarts (p_log p') = pstarts (p_log p) -> NS p -> NS p'.
Proof. intros E H k Hk. rewrite E in Hk. apply H. exact Hk. Qed.

Lemma NS_plog_nostart p evs : (forall t w, ~ In (PStart t w) evs) -> NS p -> NS (plog p evs).
Proof. intros Hn. apply NS_log. rewrite pstarts_plog, (pstarts_none evs Hn), app_nil_r. reflexivity. Qed.

(* ---------- workers ---------- *)
Lemma worker_step_starts p w k :
  In k (pstarts (p_log (worker_step p w))) -> In k (pstarts (p_log p)) \/ In k (live p).
Proof.
  unfold Parallel.worker_step.
  destruct (nth w (p_workers p) WExited) as [|b|] eqn:Ew; auto.
  - destruct (p_jobs p) as [|j js] eqn:Ej; auto.
    destruct j as [t| |].
    + intros H. rewrite pstarts_plog in H. apply in_app_iff in H. destruct H as [H|H].
      * left. destruct proc; exact H.
      * right. simpl in H. destruct H as [<-|[]]. unfold live. rewrite Ej. simpl. left. reflexivity.
    + intros H. left. exact H.
    + intros H. left. destruct proc; [|exact H].
      cbn [p_log with_workers with_results] in H. rewrite pstarts_plog in H. apply in_app_iff in H.
      destruct H as [H|H]; [exact H|].
      exfalso. clear -H. induction (rev (nth w (p_wtd (with_jobs p js)) [])); simpl in H; auto.
  - intros H. left.
    assert (H' : In k (pstarts (p_log (plog p [PEnd b w])))) by (destruct (is_interrupt tasks b); exact H).
    rewrite pstarts_plog in H'. simpl in H'. rewrite app_nil_r in H'. exact H'.
Qed.

Lemma worker_step_NS p w : PI p -> PO p -> NS p -> NS (worker_step p w).
Proof.
  intros HI HO HN k Hk. destruct (worker_step_starts p w k Hk) as [H|H].
  - apply HN. exact H.
  - apply (live_not_marked p k HI HO H).
Qed.

Lemma with_sched_PI p s : PI p -> PI (with_sched p s).
Proof. intros HP. apply (PI_update tasks p); auto. intros x Hx. apply PI_ready_of; auto. Qed.
Lemma with_sched_PO p s : PO p -> PO (with_sched p s).
Proof. intros HP. eapply PO_frame; [|exact HP]. apply frame_same; [reflexivity|auto]. Qed.

Lemma main_get_NS fuel : forall p m p', PI p -> PO p -> NS p -> main_get fuel p = (m, p') -> NS p'.
Proof.
  induction fuel as [|fuel IH]; intros p m p' HI HO HN E; cbn [Parallel.main_get] in E.
  { inversion E; subst. exact HN. }
  set (ws := enabled_workers p (length (p_workers p)) 0) in *.
  destruct ((if negb (is_nil (p_results p)) then 1 else 0) + length ws)%nat eqn:En.
  { inversion E; subst. apply NS_plog_nostart; auto. intros t w [H|[]]. discriminate. }
  destruct (choose (S n) (p_sched p)) as [c s].
  destruct (negb (is_nil (p_results p)) && Nat.eqb c 0).
  - simpl in E. destruct (p_results p) as [|m0 rs] eqn:Er; inversion E; subst; exact HN.
  - eapply IH; [| | |exact E].
    + apply worker_step_PI. apply with_sched_PI. exact HI.
    + eapply PO_frame; [apply worker_step_frame|]. apply with_sched_PO. exact HO.
    + apply worker_step_NS; [apply with_sched_PI; exact HI|apply with_sched_PO; exact HO|exact HN].
Qed.

Lemma join_all_NS fuel : forall p, PI p -> PO p -> NS p -> NS (join_all fuel p).
Proof.
  induction fuel as [|fuel IH]; intros p HI HO HN; cbn [Parallel.join_all]; auto.
  destruct (enabled_workers p (length (p_workers p)) 0) as [|w ws] eqn:Ew; auto.
  destruct (choose (length (w :: ws)) (p_sched p)) as [c s].
  apply IH.
  - apply worker_step_PI. apply with_sched_PI. exact HI.
  - eapply PO_frame; [apply worker_step_frame|]. apply with_sched_PO. exact HO.
  - apply worker_step_NS; [apply with_sched_PI; exact HI|apply with_sched_PO; exact HO|exact HN].
Qed.

(* ---------- the main thread between two dequeues: the log is not touched ---------- *)
Lemma next_job_loop_log fuel : forall p completed g p', next_job_loop fuel p completed = (g, p') -> p_log p' = p_log p.
Proof.
  induction fuel as [|fuel IH]; intros p completed g p' E; cbn [Parallel.next_job_loop] in E.
  { inversion E; subst. reflexivity. }
  destruct (disp_send tasks wake_rank calc_rank (S fuel) (r_d (p_r p)) completed) as [y d].
  destruct y as [k| | |path|]; try (inversion E; subst; reflexivity).
  destruct (select_task tasks continue_ always (with_d (p_r p) d) k) as [b r1].
  destruct b; [inversion E; subst; reflexivity|]. apply IH in E. exact E.
Qed.

Lemma get_next_job_log fuel p completed g p' : get_next_job fuel p completed = (g, p') -> p_log p' = p_log p.
Proof.
  unfold Parallel.get_next_job. destruct (r_stop (p_r p)); [intros E; inversion E; subst; reflexivity|].
  apply next_job_loop_log.
Qed.

Lemma terminate_starts p : pstarts (p_log (terminate p)) = pstarts (p_log p).
Proof.
  unfold Parallel.terminate. destruct (proc && negb (is_nil (p_workers p))); [|reflexivity].
  rewrite pstarts_plog. simpl. rewrite app_nil_r. reflexivity.
Qed.

Lemma start_procs_starts fuel n : forall p e p', start_procs fuel n p = (e, p') -> pstarts (p_log p') = pstarts (p_log p).
Proof.
  induction n as [|n IH]; intros p e p' E; cbn [Parallel.start_procs] in E.
  { inversion E; subst. reflexivity. }
  destruct (get_next_job fuel p None) as [g p1] eqn:Eg. apply get_next_job_log in Eg.
  destruct g as [j| |path|].
  - apply IH in E. rewrite E. cbn [p_log start_worker put_job with_workers with_jobs]. rewrite Eg. reflexivity.
  - inversion E; subst. rewrite Eg. reflexivity.
  - inversion E; subst. rewrite terminate_starts, Eg. reflexivity.
  - inversion E; subst. rewrite Eg. reflexivity.
Qed.

Lemma hand_out_log fuel n : forall p completed e p', hand_out fuel n p completed = (e, p') -> p_log p' = p_log p.
Proof.
  induction n as [|n IH]; intros p completed e p' E; cbn [Parallel.hand_out] in E.
  { inversion E; subst. reflexivity. }
  destruct (get_next_job fuel p completed) as [g p1] eqn:Eg. apply get_next_job_log in Eg.
  destruct g as [j| |path|].
  - apply IH in E. rewrite E. cbn [p_log put_job with_jobs]. exact Eg.
  - apply IH in E. rewrite E. cbn [p_log put_job with_jobs with_counts]. exact Eg.
  - inversion E; subst. exact Eg.
  - inversion E; subst. exact Eg.
Qed.

(* ---------- the main loop ---------- *)
Lemma main_loop_NS fuel : forall p e p', PI p -> PO p -> NS p -> main_loop fuel p = (e, p') -> NS p'.
Proof.
  induction fuel as [|fuel IH]; intros p e p' HPI HP HN E; cbn [Parallel.main_loop] in E.
  { inversion E; subst. exact HN. }
  destruct (p_count p). { inversion E; subst. exact HN. }
  destruct (main_get (S fuel * 4) p) as [m p1] eqn:Em.
  destruct (main_get_PI tasks proc _ _ _ _ HPI Em) as (H1 & Hr & Hrr).
  destruct (main_get_PO tasks always proc _ _ _ _ HP Em) as (O1 & Ha).
  pose proof (main_get_NS _ _ _ _ HPI HP HN Em) as N1.
  destruct m as [[k|k|k|k]|].
  - (* a result *)
    assert (Hk : ready tasks p1 k) by (apply Hr; left; reflexivity).
    destruct (Hrr k eq_refl) as [Hk2 Hk3].
    destruct (process_result_PI tasks continue_ p1 k H1 Hk Hk2 Hk3) as [H2 S2].
    pose proof (process_result_PO tasks continue_ always p1 k H1 O1 Hk Hk2 (Ha k eq_refl)) as O2.
    set (p2 := with_r p1 (process_result (p_r p1) k)) in *.
    destruct (hand_out (S fuel) (S (p_free p2)) (with_counts p2 0 (p_count p2)) (Some k)) as [e2 p3] eqn:Eh.
    assert (H3 : PI p3).
    { eapply hand_out_PI; [| |exact Eh]; [apply with_counts_PI; exact H2|].
      intros k0 Ek. inversion Ek; subst. exact S2. }
    assert (O3 : PO p3).
    { eapply hand_out_PO; [| | |exact Eh]; [apply with_counts_PI; exact H2| |apply with_counts_PO; exact O2].
      intros k0 Ek. inversion Ek; subst. exact S2. }
    assert (N3 : NS p3).
    { apply (NS_log p1); [|exact N1]. rewrite (hand_out_log _ _ _ _ _ _ Eh). reflexivity. }
    assert (NT : NS (terminate p3)) by (apply (NS_log p3); [apply terminate_starts|exact N3]).
    destruct e2; try (inversion E; subst; exact NT).
    destruct (deadlocked p3).
    + inversion E; subst. exact NT.
    + eapply IH; eauto.
  - (* execute report forwarded by a worker process *)
    eapply IH; [| | |exact E].
    + apply PI_emit_main; auto.
      apply RI_exec; [apply (pi_ri _ _ H1)|]. apply (ready_deps _ _ _ (Hr k (or_intror eq_refl))).
    + apply PO_emit_main; auto. intros e0 x0 [<-|[]]. reflexivity.
    + exact N1.
  - (* teardown report *)
    eapply IH; [| | |exact E].
    + apply PI_emit_main; auto. apply RI_emit; [apply (pi_ri _ _ H1)|reflexivity|intros e0 x0 [<-|[]]; reflexivity].
    + apply PO_emit_main; auto. intros e0 x0 [<-|[]]. reflexivity.
    + exact N1.
  - inversion E; subst. apply (NS_log p1); [apply terminate_starts|exact N1].
  - inversion E; subst. apply (NS_log p1); [apply terminate_starts|exact N1].
Qed.

(* ---------- the whole run ---------- *)
Lemma parallel_final_NS fuel nprocs sched sel :
  exists p3 mk, NS p3 /\ marker_ok mk /\
    fst (run_parallel tasks wake_rank calc_rank continue_ always proc fuel nprocs sched sel) = p_log p3 ++ mk.
Proof.
  unfold run_parallel.
  destruct (start_procs fuel nprocs (p_init sched sel)) as [e1 p1] eqn:E1.
  pose proof (start_procs_PI tasks wake_rank calc_rank continue_ always proc fuel nprocs _ _ _ (PI_init tasks sched sel) E1) as H1.
  pose proof (start_procs_PO tasks wake_rank calc_rank continue_ always proc fuel nprocs _ _ _ (PI_init tasks sched sel) (PO_init tasks always sched sel) E1) as O1.
  assert (N1 : NS p1).
  { intros k Hk. rewrite (start_procs_starts _ _ _ _ _ E1) in Hk. destruct Hk. }
  assert (Hfin : forall p2 mk, NS p2 -> marker_ok mk ->
     exists p3 mk', NS p3 /\ marker_ok mk' /\ p_log (sync (with_r p2 (finish (p_r p2)))) ++ mk = p_log p3 ++ mk').
  { intros p2 mk N2 Hm. exists (sync (with_r p2 (finish (p_r p2)))), mk.
    split; [|split; [exact Hm|reflexivity]]. apply (NS_log p2); [|exact N2]. rewrite pstarts_sync. reflexivity. }
  assert (M0 : marker_ok []) by (left; reflexivity).
  assert (M1 : forall e, is_fin e = false -> is_exec e = false -> is_pair_ev e = false -> marker_ok [PE e]) by (intros e A B C; right; exists e; auto).
  destruct e1; try (cbv beta iota zeta delta [fst snd]; apply Hfin; [exact N1|first [exact M0|apply M1; reflexivity]]).
  set (p1' := with_counts p1 (p_free p1) (length (p_workers p1))).
  assert (H1' : PI p1') by (apply with_counts_PI; exact H1).
  assert (O1' : PO p1') by (apply with_counts_PO; exact O1).
  assert (N1' : NS p1') by exact N1.
  destruct (deadlocked p1').
  { cbv beta iota zeta delta [fst snd]. apply Hfin; [apply (NS_log p1'); [apply terminate_starts|exact N1']|apply M1; reflexivity]. }
  destruct (main_loop fuel p1') as [e2 p2] eqn:E2.
  pose proof (main_loop_PI tasks wake_rank calc_rank continue_ always proc fuel _ _ _ H1' E2) as H2.
  pose proof (main_loop_PO tasks wake_rank calc_rank continue_ always proc fuel _ _ _ H1' O1' E2) as O2.
  pose proof (main_loop_NS fuel _ _ _ H1' O1' N1' E2) as N2.
  destruct e2; cbv beta iota zeta delta [fst snd]; apply Hfin; auto; try (apply M1; reflexivity).
  apply (NS_log (join_all (fuel * 4) p2)); [reflexivity|]. apply join_all_NS; assumption.
Qed.

(* no parallel run starts, in any worker, a task the DB marks as ignored *)
Theorem parallel_ignored_never_started fuel nprocs sched sel k w :
  t_dbignore (get_task k) = true ->
  ~ In (PStart k w) (fst (run_parallel tasks wake_rank calc_rank continue_ always proc fuel nprocs sched sel)).
Proof.
  intros Hk Hin. destruct (parallel_final_NS fuel nprocs sched sel) as (p3 & mk & N3 & Hm & E).
  rewrite E in Hin. apply in_app_iff in Hin. destruct Hin as [Hin|Hin].
  - assert (Hs : In k (pstarts (p_log p3))).
    { unfold pstarts. apply in_flat_map. exists (PStart k w). split; [exact Hin|left; reflexivity]. }
    rewrite (N3 k Hs) in Hk. discriminate.
  - destruct Hm as [->|(e0 & -> & _)]; simpl in Hin; [contradiction|]. destruct Hin as [Hin|[]]. discriminate.
Qed.

(* ... nor one the mark reaches (IgnWins.ign_clo: marked, or with a task_dep / calc_dep on such a task) *)
Theorem parallel_ign_never_runs fuel nprocs sched sel k w :
  CommandsP.IgnWins.ign_clo tasks k ->
  ~ In (PStart k w) (fst (run_parallel tasks wake_rank calc_rank continue_ always proc fuel nprocs sched sel)).
Proof.
  intros Hk. destruct Hk as [k Hk|k x Hx Hc].
  - apply parallel_ignored_never_started. exact Hk.
  - apply (CommandsP.IgnWins.parallel_dep_on_ign_never_runs tasks always wake_rank calc_rank continue_ proc fuel nprocs sched sel k w x);
      [apply ed_static, CommandsP.IgnWins.deps12_static; exact Hx|exact Hc].
Qed.

End Par.
Print Assumptions parallel_ign_never_runs.

(* THE STATEMENT for the run on the DB a command left, parallel runners (threads or processes, any worker
   count, any schedule), whatever the options of the run (selection, --continue, --always-execute) and
   the fuel: a task the mark reaches is never started in any worker, every final report it gets is
   skip_ignore, and no task with a task_dep / calc_dep / setup on it is started either *)
Import Status History Commands CommandsP.
Lemma next_run_parallel_ignore_wins_full md5 v wake_rank calc_rank c fs d rt cont always proc fuel nprocs sched sel k :
  ignored_by d rt k ->
  let log := fst (Parallel.run_parallel (run_table md5 v c fs d rt) wake_rank calc_rank cont always proc fuel nprocs sched sel) in
  (forall w, ~ In (Parallel.PStart k w) log) /\
  (forall e, In (Parallel.PE e) log -> RunnerP.is_final_ev k e = true -> e = Runner.ESkipIgnore k) /\
  (forall t ct w, lookup rt t = Some ct -> In k (c_task_dep ct ++ c_calc_dep ct ++ c_setup ct) -> ~ In (Parallel.PStart t w) log).
Proof.
  intros Hk. cbv zeta. split.
  - intros w. apply parallel_ign_never_runs. apply ignored_by_clo. exact Hk.
  - exact (next_run_parallel_ignore_wins md5 v wake_rank calc_rank c fs d rt cont always proc fuel nprocs sched sel k Hk).
Qed.
Print Assumptions next_run_parallel_ignore_wins_full.
