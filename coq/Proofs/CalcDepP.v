(* CalcDepP.v -- proofs about Model/CalcDep.v (calc_dep: dependencies taken from the values of other tasks).
   Part 1: what one run leaves, whatever the order in which the tasks are dispatched ([cinv], an invariant of cvisit):
     the values a finished (executed or up-to-date) task hands over are the values its DB record holds;
     the definition an executed / skipped task was looked at with is declared + calculated from those values;
     an executed task's record is what an execution NOW would write (dep set = declared + calculated).
   Part 2: a run from the state a clean, fully successful run left is a no-op (same reports, equivalent DB). *)
From Coq Require Import ZifyBool.
From DoitV Require Import Base Status History StatusP HistoryP GetargsP RerunP RerunGP CalcDep.
Open Scope Z_scope.

(* ---------- decidable equality of definitions ---------- *)
Lemma list_eqb_sound {A} (eqb : A -> A -> bool) :
  (forall x y, eqb x y = true -> x = y) -> forall a b, list_eqb eqb a b = true -> a = b.
Proof.
  intros H. induction a as [|x a IH]; intros [|y b] E; simpl in E; try discriminate; auto.
  apply andb_true_iff in E. destruct E as [E1 E2]. rewrite (H x y E1), (IH b E2). reflexivity.
Qed.
Lemma list_eqb_refl {A} (eqb : A -> A -> bool) : (forall x, eqb x x = true) -> forall a, list_eqb eqb a a = true.
Proof. intros H. induction a as [|x a IH]; simpl; auto. rewrite H, IH. reflexivity. Qed.

Lemma optN_eqb_sound a b : optN_eqb a b = true -> a = b.
Proof. destruct a, b; simpl; try discriminate; auto. intros H. apply N.eqb_eq in H. congruence. Qed.
Lemma optN_eqb_refl a : optN_eqb a a = true.
Proof. destruct a; simpl; auto. apply N.eqb_refl. Qed.
Lemma optb_eqb_sound a b : optb_eqb a b = true -> a = b.
Proof. destruct a as [[|]|], b as [[|]|]; simpl; try discriminate; auto. Qed.
Lemma optb_eqb_refl a : optb_eqb a a = true.
Proof. destruct a as [[|]|]; reflexivity. Qed.
Lemma utd_eqb_sound a b : utd_eqb a b = true -> a = b.
Proof.
  destruct a, b; simpl; try discriminate; auto; intros H.
  - destruct b0, b; simpl in H; try discriminate; reflexivity.
  - apply optb_eqb_sound in H. congruence.
  - apply N.eqb_eq in H. congruence.
  - apply N.eqb_eq in H. congruence.
Qed.
Lemma utd_eqb_refl a : utd_eqb a a = true.
Proof. destruct a; simpl; auto using optb_eqb_refl, N.eqb_refl. destruct b; reflexivity. Qed.
Lemma kv_eqb_sound a b : kv_eqb a b = true -> a = b.
Proof.
  destruct a as [k x], b as [k' x']. unfold kv_eqb. simpl. intros H. apply andb_true_iff in H. destruct H as [H1 H2].
  apply N.eqb_eq in H1. apply optN_eqb_sound in H2. congruence.
Qed.
Lemma kv_eqb_refl a : kv_eqb a a = true.
Proof. destruct a. unfold kv_eqb. simpl. rewrite N.eqb_refl, optN_eqb_refl. reflexivity. Qed.

Lemma tdef_eqb_sound a b : tdef_eqb a b = true -> a = b.
Proof.
  destruct a as [f1 t1 u1 v1 r1], b as [f2 t2 u2 v2 r2]. unfold tdef_eqb. simpl. intros H.
  repeat (apply andb_true_iff in H; destruct H as [H ?]).
  apply (list_eqb_sound N.eqb) in H; [|intros x y E; apply N.eqb_eq; exact E].
  apply (list_eqb_sound N.eqb) in H3; [|intros x y E; apply N.eqb_eq; exact E].
  apply (list_eqb_sound utd_eqb utd_eqb_sound) in H2.
  apply (list_eqb_sound kv_eqb kv_eqb_sound) in H1.
  apply optN_eqb_sound in H0. congruence.
Qed.
Lemma tdef_eqb_refl a : tdef_eqb a a = true.
Proof.
  unfold tdef_eqb. rewrite !(list_eqb_refl N.eqb N.eqb_refl), (list_eqb_refl utd_eqb utd_eqb_refl),
    (list_eqb_refl kv_eqb kv_eqb_refl), optN_eqb_refl. reflexivity.
Qed.

(* ---------- merging ---------- *)
Definition nord (df : tdef) : Prop := forall src, ~ In (UResultDep src) (uptodate df).

Lemma calc_utd_nord vl src : ~ In (UResultDep src) (calc_utd vl).
Proof.
  unfold calc_utd. destruct (vget vl k_cutd) as [[n|]|]; simpl; try tauto.
  destruct n as [|[p|p|]]; simpl; intros [H|[]]; discriminate.
Qed.

Lemma merge_def_nord df vl : nord df -> nord (merge_def df vl).
Proof. intros H src Hin. simpl in Hin. apply in_app_or in Hin. destruct Hin as [Hin|Hin]; [exact (H src Hin) | exact (calc_utd_nord vl src Hin)]. Qed.

Lemma merged_with_nord vl d : nord (cd_def d) -> nord (merged_with vl d).
Proof.
  unfold merged_with. generalize (cd_def d). induction (cd_calc d) as [|p l IH]; intros df H; simpl; auto.
  apply IH. apply merge_def_nord. exact H.
Qed.

Lemma merged_with_ext vl vl' d : (forall p, In p (cd_calc d) -> vl p = vl' p) -> merged_with vl d = merged_with vl' d.
Proof. intros H. unfold merged_with. apply fold_left_ext_in. intros a p Hp. rewrite (H p Hp). reflexivity. Qed.

Lemma calc_task_deps_ext vl vl' d : (forall p, In p (cd_calc d) -> vl p = vl' p) -> calc_task_deps_with vl d = calc_task_deps_with vl' d.
Proof.
  intros H. unfold calc_task_deps_with. induction (cd_calc d) as [|p l IH]; simpl; auto.
  rewrite (H p) by (simpl; auto). rewrite IH; auto. intros q Hq. apply H. simpl; auto.
Qed.

Lemma merge_def_targets df vl : targets (merge_def df vl) = targets df.
Proof. reflexivity. Qed.
Lemma merged_with_targets vl d : targets (merged_with vl d) = targets (cd_def d).
Proof.
  unfold merged_with. generalize (cd_def d). induction (cd_calc d) as [|p l IH]; intros df; simpl; auto. rewrite IH. reflexivity.
Qed.

(* the file_dep of the merged definition: the declared ones and the calculated ones of every provider, nothing else *)
Lemma add_all_In l new x : In x (add_all l new) <-> In x l \/ In x new.
Proof.
  unfold add_all. revert l. induction new as [|y new IH]; intros l; simpl; [tauto|].
  rewrite IH, addset_In. intuition auto.
Qed.
Lemma merged_with_file_dep vl d x :
  In x (file_dep (merged_with vl d)) <-> In x (file_dep (cd_def d)) \/ exists p, In p (cd_calc d) /\ In x (calc_files (vl p)).
Proof.
  unfold merged_with. generalize (cd_def d). induction (cd_calc d) as [|p l IH]; intros df; simpl.
  - split; [auto | intros [H|[p [[] _]]]; exact H].
  - rewrite IH. simpl. rewrite add_all_In. split.
    + intros [[H|H]|[q [Hq Hx]]]; [left; exact H | right; exists p; auto | right; exists q; auto].
    + intros [H|[q [[<-|Hq] Hx]]]; [left; left; exact H | left; right; exact Hx | right; exists q; auto].
Qed.

Section CalcDepP.
Variable md5 : N -> N.
Variable size_of : N -> Z.
Variable v : ver.
Hypothesis HA : fixA v = true.
Hypothesis HB : fixB v = true.

Notation step := (step md5 size_of v).
Notation check := (check md5 v).
Notation inv := (db_reflects_ghost md5).
Notation set_def := (set_def md5 size_of v).

(* ---------- set_def ---------- *)
Lemma set_def_defs s t df : s_defs (set_def s t df) t = df.
Proof.
  unfold CalcDep.set_def. destruct (tdef_eqb (s_defs s t) df) eqn:E.
  - apply tdef_eqb_sound. exact E.
  - simpl. apply upd_same.
Qed.
Lemma set_def_other s t df x : x <> t -> s_defs (set_def s t df) x = s_defs s x.
Proof. intros H. unfold CalcDep.set_def. destruct (tdef_eqb (s_defs s t) df); auto. simpl. apply upd_other. exact H. Qed.
Lemma set_def_rest s t df :
  s_fs (set_def s t df) = s_fs s /\ s_ck (set_def s t df) = s_ck s /\ s_db (set_def s t df) = s_db s /\
  s_last_ok (set_def s t df) = s_last_ok s.
Proof. unfold CalcDep.set_def. destruct (tdef_eqb (s_defs s t) df); simpl; auto. Qed.
Lemma set_def_inv s t df : inv s -> inv (set_def s t df).
Proof.
  intros H. unfold CalcDep.set_def. destruct (tdef_eqb (s_defs s t) df); exact H.
Qed.
Lemma set_def_same s t : set_def s t (s_defs s t) = s.
Proof. unfold CalcDep.set_def. rewrite tdef_eqb_refl. reflexivity. Qed.

(* ---------- operations that look at one task only ---------- *)
Definition frame_on (t : name) (s s' : state) : Prop :=
  s_fs s' = s_fs s /\ s_ck s' = s_ck s /\
  forall x, x <> t -> s_db s' x = s_db s x /\ s_last_ok s' x = s_last_ok s x /\ s_defs s' x = s_defs s x.

Lemma frame_refl t s : frame_on t s s.
Proof. repeat split; reflexivity. Qed.
Lemma frame_trans t a b c : frame_on t a b -> frame_on t b c -> frame_on t a c.
Proof.
  intros (A1 & A2 & A3) (B1 & B2 & B3). split; [congruence|]. split; [congruence|].
  intros x Hx. destruct (A3 x Hx) as (P & Q & R), (B3 x Hx) as (P' & Q' & R'). repeat split; congruence.
Qed.
Lemma frame_set_def t s df : frame_on t s (set_def s t df).
Proof.
  destruct (set_def_rest s t df) as (E1 & E2 & E3 & E4). split; [exact E1|]. split; [exact E2|].
  intros x Hx. rewrite E3, E4, set_def_other by exact Hx. auto.
Qed.
Lemma frame_step t s o : op_on t o -> frame_on t s (step s o).
Proof.
  intros Ho. destruct (step_on_env md5 size_of v s t o Ho) as (E1 & E2 & E3).
  split; [exact E1|]. split; [exact E3|]. intros x Hx.
  destruct (step_on_frame md5 size_of v s t o x Ho Hx) as [F1 F2]. rewrite E2. auto.
Qed.
Lemma step_on_inv t s o : op_on t o -> inv s -> inv (step s o).
Proof. intros Ho H. apply (step_inv md5 size_of v HB); auto. destruct Ho as [-> | [-> | ->]]; reflexivity. Qed.

Lemma files_as_last_ok_pt s s' t :
  s_fs s' = s_fs s -> s_ck s' = s_ck s -> s_defs s' t = s_defs s t -> s_last_ok s' t = s_last_ok s t ->
  files_as_last_ok md5 s t -> files_as_last_ok md5 s' t.
Proof. unfold files_as_last_ok. intros -> -> -> ->. auto. Qed.

Lemma saved_now_pt s s' t :
  s_fs s' = s_fs s -> s_ck s' = s_ck s -> s_defs s' t = s_defs s t -> s_db s' t = s_db s t -> nord (s_defs s t) ->
  saved_now md5 s t -> saved_now md5 s' t.
Proof.
  intros E1 E2 E3 E4 Hn (S1 & S2 & S3 & S4 & S5). unfold saved_now, getrec. rewrite E1, E2, E3, E4. cbv zeta.
  fold (getrec (s_db s) t). split; [exact S1|]. split; [exact S2|]. split; [|split; [exact S4 | exact S5]].
  rewrite S3. symmetry. apply save_extra_values_ext. intros src Hin. exfalso. exact (Hn src Hin).
Qed.

Lemma uptodate_pt s s' t :
  s_fs s' = s_fs s -> s_ck s' = s_ck s -> s_defs s' t = s_defs s t -> s_db s' t = s_db s t -> nord (s_defs s t) ->
  (g_status (check s' t) = UpToDate <-> g_status (check s t) = UpToDate).
Proof.
  intros E1 E2 E3 E4 Hn. unfold History.check. rewrite E1, E2, E3.
  apply get_status_uptodate_frame; [unfold getrec; rewrite E4; reflexivity|].
  intros u Hu. apply eval_utd_ext; [unfold get_values, getrec; rewrite E4; reflexivity|].
  intros src ->. exfalso. exact (Hn src Hu).
Qed.

(* ---------- a whole run ---------- *)
Variable G : name -> cdef.
Variable fails : name -> bool.
Hypothesis NoRD : forall t, nord (cd_def (G t)).
Notation cvisit := (cvisit md5 size_of v G fails).

Definition cfinished (a : cacc) (t : name) : Prop := cfin_of (ca_fin a) t <> None.
Definition cclean (a : cacc) : Prop := ca_cyc a = false /\ ca_fuel a = false.
Definition ok02 (a : cacc) (t : name) : Prop := cfin_of (ca_fin a) t = Some 0 \/ cfin_of (ca_fin a) t = Some 2.
Definition code_ok (c : Z) : Prop := c = 0 \/ c = 1 \/ c = 2 \/ c = 3 \/ c = 4 \/ c = 98.

Lemma ok02_finished a t : ok02 a t -> cfinished a t.
Proof. intros [H|H]; unfold cfinished; rewrite H; discriminate. Qed.

Lemma cfin_of_app l t c x :
  cfin_of (l ++ [(t, c)]) x = match cfin_of l x with Some c' => Some c' | None => if N.eqb t x then Some c else None end.
Proof. induction l as [|[t' c'] l IH]; simpl; auto. destruct (N.eqb t' x); auto. Qed.

Record cinv (a : cacc) : Prop := {
  ci_ghost : inv (ca_s a);
  ci_started : forall t, cfinished a t -> In t (ca_started a);
  ci_codes : forall t c, cfin_of (ca_fin a) t = Some c -> code_ok c;
  (* what a finished task hands over is what its record holds *)
  ci_vals : forall t, ok02 a t -> ca_vals a t = get_values (s_db (ca_s a)) t;
  ci_files : forall t, ok02 a t -> files_as_last_ok md5 (ca_s a) t;
  (* the definition it was looked at with: declared + what its providers handed over; the providers were executed or up-to-date *)
  ci_def : cclean a -> forall t, ok02 a t ->
           s_defs (ca_s a) t = merged_with (ca_vals a) (G t) /\ (forall p, In p (cd_calc (G t)) -> ok02 a p) /\
           forall d, In d (cd_task_dep (G t) ++ calc_task_deps_with (ca_vals a) (G t)) -> cfinished a d;
  ci_saved : forall t, cfin_of (ca_fin a) t = Some 0 -> saved_now md5 (ca_s a) t /\ nord (s_defs (ca_s a) t);
  ci_utd : forall t, cfin_of (ca_fin a) t = Some 2 -> g_status (check (ca_s a) t) = UpToDate /\ nord (s_defs (ca_s a) t)
}.

Record cext (a a' : cacc) : Prop := {
  ex_started : forall t, In t (ca_started a) -> In t (ca_started a');
  ex_fin : forall t c, cfin_of (ca_fin a) t = Some c -> cfin_of (ca_fin a') t = Some c;
  ex_db : forall t, cfinished a t ->
          s_db (ca_s a') t = s_db (ca_s a) t /\ s_last_ok (ca_s a') t = s_last_ok (ca_s a) t /\
          s_defs (ca_s a') t = s_defs (ca_s a) t /\ ca_vals a' t = ca_vals a t;
  ex_env : s_fs (ca_s a') = s_fs (ca_s a) /\ s_ck (ca_s a') = s_ck (ca_s a);
  ex_cyc : ca_cyc a = true -> ca_cyc a' = true;
  ex_fuel : ca_fuel a = true -> ca_fuel a' = true
}.

Lemma cext_refl a : cext a a.
Proof. constructor; auto. Qed.

Lemma cext_finished a a' t : cext a a' -> cfinished a t -> cfinished a' t.
Proof.
  intros E H. unfold cfinished in *. destruct (cfin_of (ca_fin a) t) as [c|] eqn:F; [|congruence].
  rewrite (ex_fin _ _ E t c F). discriminate.
Qed.
Lemma cext_ok02 a a' t : cext a a' -> ok02 a t -> ok02 a' t.
Proof. intros E [H|H]; [left | right]; apply (ex_fin _ _ E); exact H. Qed.

Lemma cext_trans a b c : cext a b -> cext b c -> cext a c.
Proof.
  intros EA EB. pose proof EA as [A1 A2 A4 A5 A6 A7]. pose proof EB as [B1 B2 B4 B5 B6 B7]. constructor; auto.
  - intros t H. destruct (A4 t H) as (E1 & E2 & E3 & E4).
    destruct (B4 t (cext_finished _ _ _ EA H)) as (F1 & F2 & F3 & F4). repeat split; congruence.
  - destruct A5, B5. split; congruence.
Qed.

Lemma cext_clean a a' : cext a a' -> cclean a' -> cclean a.
Proof.
  intros E [C1 C2]. split.
  - destruct (ca_cyc a) eqn:F; auto. rewrite (ex_cyc _ _ E F) in C1. discriminate.
  - destruct (ca_fuel a) eqn:F; auto. rewrite (ex_fuel _ _ E F) in C2. discriminate.
Qed.

Lemma get_values_pt d d' t : d' t = d t -> get_values d' t = get_values d t.
Proof. intros H. unfold get_values, getrec. rewrite H. reflexivity. Qed.

(* the state changes by operations on a task that is not finished *)
Lemma cinv_frame a t s' :
  cinv a -> ~ cfinished a t -> frame_on t (ca_s a) s' -> inv s' ->
  cinv (cwith_s a s') /\ cext a (cwith_s a s').
Proof.
  intros [I1 I2 I3 I4 I5 I6 I7 I8] Hnf (F1 & F2 & F3) Hinv.
  assert (Hne : forall x, cfinished a x -> x <> t) by (intros x Hx ->; contradiction).
  split.
  - constructor; simpl; auto.
    + intros x Hx. destruct (F3 x (Hne x (ok02_finished _ _ Hx))) as (D1 & D2 & D3).
      rewrite (get_values_pt _ _ _ D1). apply I4; exact Hx.
    + intros x Hx. destruct (F3 x (Hne x (ok02_finished _ _ Hx))) as (D1 & D2 & D3).
      apply (files_as_last_ok_pt (ca_s a)); auto.
    + intros Hc x Hx. destruct (F3 x (Hne x (ok02_finished _ _ Hx))) as (D1 & D2 & D3).
      rewrite D3. apply I6; auto.
    + intros x Hx.
      assert (Hxf : cfinished a x) by (unfold cfinished; rewrite Hx; discriminate).
      destruct (F3 x (Hne x Hxf)) as (D1 & D2 & D3). destruct (I7 x Hx) as [S Nn].
      split; [apply (saved_now_pt (ca_s a)); auto | rewrite D3; exact Nn].
    + intros x Hx.
      assert (Hxf : cfinished a x) by (unfold cfinished; rewrite Hx; discriminate).
      destruct (F3 x (Hne x Hxf)) as (D1 & D2 & D3). destruct (I8 x Hx) as [S Nn].
      split; [apply (uptodate_pt (ca_s a)); auto | rewrite D3; exact Nn].
  - constructor; simpl; auto.
    intros x Hx. destruct (F3 x (Hne x Hx)) as (D1 & D2 & D3). auto.
Qed.

(* the final report of a task that was started and is not finished *)
Lemma cinv_finish a t c vl :
  cinv a -> In t (ca_started a) -> ~ cfinished a t -> code_ok c ->
  (c = 0 \/ c = 2 -> vl = get_values (s_db (ca_s a)) t /\ files_as_last_ok md5 (ca_s a) t) ->
  (cclean a -> c = 0 \/ c = 2 ->
     s_defs (ca_s a) t = merged_with (ca_vals a) (G t) /\ (forall p, In p (cd_calc (G t)) -> ok02 a p) /\
     forall d, In d (cd_task_dep (G t) ++ calc_task_deps_with (ca_vals a) (G t)) -> cfinished a d) ->
  (c = 0 -> saved_now md5 (ca_s a) t /\ nord (s_defs (ca_s a) t)) ->
  (c = 2 -> g_status (check (ca_s a) t) = UpToDate /\ nord (s_defs (ca_s a) t)) ->
  let a' := cfinish a (ca_s a) t c vl in
  cinv a' /\ cext a a' /\ cfinished a' t /\ forall x, cfinished a' x -> cfinished a x \/ x = t.
Proof.
  intros [I1 I2 I3 I4 I5 I6 I7 I8] Hst Hnf Hcode Hvals Hdef Hsaved Hutd a'.
  assert (Hnone : cfin_of (ca_fin a) t = None).
  { unfold cfinished in Hnf. destruct (cfin_of (ca_fin a) t); [exfalso; apply Hnf; discriminate | reflexivity]. }
  assert (Hfin : forall x, cfin_of (ca_fin a') x =
                           match cfin_of (ca_fin a) x with Some c' => Some c' | None => if N.eqb t x then Some c else None end).
  { intros x. unfold a'. simpl. apply cfin_of_app. }
  assert (Hcases : forall x c', cfin_of (ca_fin a') x = Some c' ->
                    (cfin_of (ca_fin a) x = Some c' /\ x <> t) \/ (x = t /\ c' = c)).
  { intros x c' Hx. rewrite Hfin in Hx. destruct (cfin_of (ca_fin a) x) eqn:E.
    - left. split; [congruence|]. intros ->. congruence.
    - destruct (N.eqb_spec t x) as [<-|]; [|discriminate]. right. split; congruence. }
  assert (Hok : forall x, ok02 a' x -> (ok02 a x /\ x <> t) \/ (x = t /\ (c = 0 \/ c = 2))).
  { intros x [Hx|Hx]; destruct (Hcases x _ Hx) as [[E Hne]|[-> <-]]; unfold ok02; auto. }
  assert (Hmono : forall x, ok02 a x -> ok02 a' x).
  { intros x [Hx|Hx]; [left | right]; rewrite Hfin, Hx; reflexivity. }
  assert (Hprov : forall x, ok02 a x -> x <> t).
  { intros x Hx ->. apply Hnf. apply ok02_finished. exact Hx. }
  split; [|split; [|split]].
  - constructor; unfold a'; simpl ca_s; simpl ca_started; simpl ca_vals; simpl ca_cyc; simpl ca_fuel; auto.
    + intros x Hx. unfold cfinished in Hx. fold a' in Hx. rewrite Hfin in Hx.
      destruct (cfin_of (ca_fin a) x) eqn:E; [apply I2; unfold cfinished; rewrite E; discriminate|].
      destruct (N.eqb_spec t x) as [<-|]; [exact Hst | congruence].
    + intros x c' Hx. fold a' in Hx. destruct (Hcases x c' Hx) as [[E _]|[_ ->]]; [apply (I3 x c' E) | exact Hcode].
    + intros x Hx. fold a' in Hx. destruct (Hok x Hx) as [[Hx' Hne]|[-> Hc]].
      * rewrite upd_other by exact Hne. apply I4; exact Hx'.
      * rewrite upd_same. apply Hvals; exact Hc.
    + intros x Hx. fold a' in Hx. destruct (Hok x Hx) as [[Hx' Hne]|[-> Hc]]; [apply I5; exact Hx' | apply Hvals; exact Hc].
    + intros Hcl x Hx. fold a' in Hx. change (cclean a) in Hcl.
      assert (Hdx : s_defs (ca_s a) x = merged_with (ca_vals a) (G x) /\ (forall p, In p (cd_calc (G x)) -> ok02 a p) /\
                    forall d, In d (cd_task_dep (G x) ++ calc_task_deps_with (ca_vals a) (G x)) -> cfinished a d).
      { destruct (Hok x Hx) as [[Hx' Hne]|[-> Hc]]; [apply I6; auto | apply Hdef; auto]. }
      destruct Hdx as (D1 & D2 & D3).
      assert (Hvx : forall p, In p (cd_calc (G x)) -> ca_vals a p = upd (ca_vals a) t vl p).
      { intros p Hp. rewrite upd_other; [reflexivity | apply Hprov, D2, Hp]. }
      split; [|split].
      * rewrite D1. apply merged_with_ext. exact Hvx.
      * intros p Hp. apply Hmono, D2, Hp.
      * intros d Hd. rewrite <- (calc_task_deps_ext _ _ _ Hvx) in Hd. specialize (D3 d Hd).
        unfold cfinished in *. rewrite Hfin. destruct (cfin_of (ca_fin a) d); [discriminate | congruence].
    + intros x Hx. fold a' in Hx. destruct (Hcases x 0 Hx) as [[E _]|[-> Hc]]; [apply I7; exact E | apply Hsaved; auto].
    + intros x Hx. fold a' in Hx. destruct (Hcases x 2 Hx) as [[E _]|[-> Hc]]; [apply I8; exact E | apply Hutd; auto].
  - constructor; unfold a'; simpl ca_s; simpl ca_started; simpl ca_vals; simpl ca_cyc; simpl ca_fuel; auto.
    + intros x c' Hx. fold a'. rewrite Hfin, Hx. reflexivity.
    + intros x Hx. repeat split; auto. apply upd_other. intros ->. contradiction.
  - unfold cfinished. rewrite Hfin, Hnone, N.eqb_refl. discriminate.
  - intros x Hx. unfold cfinished in *. rewrite Hfin in Hx.
    destruct (cfin_of (ca_fin a) x) eqn:E; [left; discriminate|].
    destruct (N.eqb_spec t x) as [<-|]; [right; reflexivity | congruence].
Qed.

(* ... both together: what every branch of cvisit ends with *)
Lemma visit_tail a t s' c vl :
  cinv a -> In t (ca_started a) -> ~ cfinished a t -> frame_on t (ca_s a) s' -> inv s' -> code_ok c ->
  (c = 0 \/ c = 2 -> vl = get_values (s_db s') t /\ files_as_last_ok md5 s' t) ->
  (cclean a -> c = 0 \/ c = 2 ->
     s_defs s' t = merged_with (ca_vals a) (G t) /\ (forall p, In p (cd_calc (G t)) -> ok02 a p) /\
     forall d, In d (cd_task_dep (G t) ++ calc_task_deps_with (ca_vals a) (G t)) -> cfinished a d) ->
  (c = 0 -> saved_now md5 s' t /\ nord (s_defs s' t)) ->
  (c = 2 -> g_status (check s' t) = UpToDate /\ nord (s_defs s' t)) ->
  let a' := cfinish a s' t c vl in
  cinv a' /\ cext a a' /\ cfinished a' t /\ forall x, cfinished a' x -> cfinished a x \/ x = t.
Proof.
  intros Ha Hst Hnf Hfr Hinv Hcode Hvals Hdef Hsaved Hutd a'.
  destruct (cinv_frame a t s' Ha Hnf Hfr Hinv) as [Ha1 E1].
  set (a1 := cwith_s a s') in *.
  change a' with (cfinish a1 (ca_s a1) t c vl).
  destruct (cinv_finish a1 t c vl Ha1 Hst Hnf Hcode Hvals Hdef Hsaved Hutd) as (F1 & F2 & F3 & F4).
  split; [exact F1|]. split; [exact (cext_trans _ _ _ E1 F2)|]. split; [exact F3 | exact F4].
Qed.

Definition newfin (a a' : cacc) : Prop := forall x, cfinished a' x -> cfinished a x \/ ~ In x (ca_started a).
Definition done_or_flag (a : cacc) (t : name) : Prop := cfinished a t \/ ca_cyc a = true \/ ca_fuel a = true.

Lemma newfin_trans a b c : cext a b -> newfin a b -> newfin b c -> newfin a c.
Proof.
  intros E N1 N2 x Hx. destruct (N2 x Hx) as [H|H]; [apply N1; exact H|].
  right. intros Hin. apply H. apply (ex_started _ _ E). exact Hin.
Qed.
Lemma done_or_flag_ext a a' t : cext a a' -> done_or_flag a t -> done_or_flag a' t.
Proof.
  intros E [H|[H|H]]; [left; apply (cext_finished _ _ _ E H) | right; left; apply (ex_cyc _ _ E H) | right; right; apply (ex_fuel _ _ E H)].
Qed.
Lemma done_clean a t : done_or_flag a t -> cclean a -> cfinished a t.
Proof. intros [H|[H|H]] [C1 C2]; auto; congruence. Qed.

Definition good_visit (fuel : nat) : Prop :=
  forall a t, cinv a ->
    cinv (cvisit fuel a t) /\ cext a (cvisit fuel a t) /\ newfin a (cvisit fuel a t) /\ done_or_flag (cvisit fuel a t) t.

Lemma fold_good fuel : good_visit fuel -> forall l a, cinv a ->
  cinv (fold_left (cvisit fuel) l a) /\ cext a (fold_left (cvisit fuel) l a) /\ newfin a (fold_left (cvisit fuel) l a) /\
  forall x, In x l -> done_or_flag (fold_left (cvisit fuel) l a) x.
Proof.
  intros Hg. induction l as [|x l IH]; intros a Ha; simpl.
  - split; [exact Ha|]. split; [apply cext_refl|]. split; [intros y Hy; left; exact Hy | intros y []].
  - destruct (Hg a x Ha) as (A1 & E1 & N1 & D1).
    destruct (IH (cvisit fuel a x) A1) as (A2 & E2 & N2 & D2).
    split; [exact A2|]. split; [exact (cext_trans _ _ _ E1 E2)|]. split; [exact (newfin_trans _ _ _ E1 N1 N2)|].
    intros y [<-|Hy]; [apply (done_or_flag_ext _ _ _ E2 D1) | apply D2; exact Hy].
Qed.

(* flags and the node list alone *)
Lemma cinv_flag a a' :
  cinv a -> ca_s a' = ca_s a -> ca_started a' = ca_started a -> ca_fin a' = ca_fin a -> ca_vals a' = ca_vals a ->
  (cclean a' -> cclean a) -> cinv a'.
Proof.
  intros [I1 I2 I3 I4 I5 I6 I7 I8] Es Est Ef Ev Hc.
  constructor; unfold cfinished, ok02 in *; rewrite ?Es, ?Est, ?Ef, ?Ev; auto.
Qed.
Lemma cext_flag a a' :
  ca_s a' = ca_s a -> (forall x, In x (ca_started a) -> In x (ca_started a')) -> ca_fin a' = ca_fin a -> ca_vals a' = ca_vals a ->
  (ca_cyc a = true -> ca_cyc a' = true) -> (ca_fuel a = true -> ca_fuel a' = true) -> cext a a'.
Proof.
  intros Es Est Ef Ev Hc Hf. constructor; unfold cfinished; rewrite ?Es, ?Ef, ?Ev; auto.
Qed.

Lemma started_ok a t : cinv a -> ~ In t (ca_started a) ->
  cinv (cstarted a t) /\ cext a (cstarted a t) /\ newfin a (cstarted a t) /\ In t (ca_started (cstarted a t)) /\ ~ cfinished (cstarted a t) t.
Proof.
  intros Ha Hn.
  assert (Hnf : ~ cfinished a t) by (intros H; apply Hn, (ci_started _ Ha), H).
  split; [|split; [|split; [|split]]].
  - destruct Ha as [I1 I2 I3 I4 I5 I6 I7 I8]. constructor; simpl; auto.
  - apply cext_flag; simpl; auto.
  - intros x Hx. left. exact Hx.
  - left. reflexivity.
  - exact Hnf.
Qed.

Lemma wrap a b a' t :
  cext a b -> newfin a b -> ~ In t (ca_started a) ->
  cinv a' /\ cext b a' /\ cfinished a' t /\ (forall x, cfinished a' x -> cfinished b x \/ x = t) ->
  cinv a' /\ cext a a' /\ newfin a a' /\ done_or_flag a' t.
Proof.
  intros E N Hn (A & E' & F & Hnew).
  split; [exact A|]. split; [exact (cext_trans _ _ _ E E')|]. split; [|left; exact F].
  intros x Hx. destruct (Hnew x Hx) as [H| ->]; [apply N; exact H | right; exact Hn].
Qed.

(* ---------- cvisit ---------- *)
Lemma cvisit_S fuel a t : cvisit (S fuel) a t =
    if mem t (ca_started a) then (match cfin_of (ca_fin a) t with Some _ => a | None => cset_cyc a end)
    else
    let d := G t in
    let a1 := fold_left (cvisit fuel) (cd_calc d) (cstarted a t) in
    let df := merged_with (ca_vals a1) d in
    let tds := cd_task_dep d ++ calc_task_deps_with (ca_vals a1) d in
    let a2 := fold_left (cvisit fuel) tds a1 in
    let deps := cd_calc d ++ tds in
    let s := ca_s a2 in
    if cdep_ign a2 deps || status_is_ignore (s_db s) t then cfinish a2 s t 3 [] else
    if cdep_bad a2 deps then cfinish a2 (step s (Remove t)) t 4 [] else
    let s0 := set_def s t df in
    let s1 := step s0 (Check t) in
    match g_status (check s0 t) with
    | Error => cfinish a2 (step s1 (Remove t)) t 4 []
    | Crash => cfinish a2 s1 t 98 []
    | UpToDate => cfinish a2 s1 t 2 (get_values (s_db s1) t)
    | Run => if fails t then cfinish a2 (step s1 (Remove t)) t 1 [] else
             let s3 := step s1 (SaveOk t) in cfinish a2 s3 t (csave_code s3) (save_extra_values (s_db s1) df)
    end.
Proof. reflexivity. Qed.

(* a dependency that is finished, neither ignored nor failed, was executed or is up-to-date *)
Lemma deps_ok02 a deps p :
  cinv a -> cdep_ign a deps = false -> cdep_bad a deps = false -> In p deps -> cfinished a p -> ok02 a p.
Proof.
  intros Ha Hi Hb Hin Hf. unfold cfinished in Hf. destruct (cfin_of (ca_fin a) p) as [c|] eqn:E; [|congruence].
  assert (H3 : (c =? 3) = false).
  { destruct (c =? 3) eqn:F; auto. exfalso. assert (X : cdep_ign a deps = true); [|congruence].
    unfold cdep_ign. apply existsb_exists. exists p. rewrite E. auto. }
  assert (Hfl : cis_failure c = false).
  { destruct (cis_failure c) eqn:F; auto. exfalso. assert (X : cdep_bad a deps = true); [|congruence].
    unfold cdep_bad. apply existsb_exists. exists p. rewrite E. auto. }
  unfold cis_failure in Hfl. unfold ok02. rewrite E.
  destruct (ci_codes _ Ha p c E) as [-> | [-> | [-> | [-> | [-> | ->]]]]]; simpl in *; try discriminate; auto.
Qed.

Lemma csave_code_cases s : (csave_code s = 0 /\ match s_log s with OSave _ SaveDone :: _ => True | _ => False end) \/ csave_code s = 1.
Proof. unfold csave_code. destruct (s_log s) as [|[| x [| |] |] l]; auto. Qed.

Lemma op_check t : op_on t (Check t). Proof. left; reflexivity. Qed.
Lemma op_save t : op_on t (SaveOk t). Proof. right; left; reflexivity. Qed.
Lemma op_remove t : op_on t (Remove t). Proof. right; right; reflexivity. Qed.

Lemma visit_good : forall fuel, good_visit fuel.
Proof.
  induction fuel as [|fuel IH]; intros a t Ha.
  - simpl. split; [|split; [|split]].
    + apply (cinv_flag a); auto. intros [_ C]. simpl in C. discriminate.
    + apply cext_flag; simpl; auto.
    + intros x Hx. left. exact Hx.
    + right. right. reflexivity.
  - rewrite cvisit_S. destruct (mem t (ca_started a)) eqn:Est.
    + destruct (cfin_of (ca_fin a) t) as [c|] eqn:Ef.
      * split; [exact Ha|]. split; [apply cext_refl|]. split; [intros x Hx; left; exact Hx|].
        left. unfold cfinished. rewrite Ef. discriminate.
      * split; [|split; [|split]].
        -- apply (cinv_flag a); auto. intros [C _]. simpl in C. discriminate.
        -- apply cext_flag; simpl; auto.
        -- intros x Hx. left. exact Hx.
        -- right. left. reflexivity.
    + cbv zeta. apply mem_false_In in Est.
      destruct (started_ok a t Ha Est) as (Ha0 & E0 & N0 & Hst0 & Hnf0).
      destruct (fold_good fuel IH (cd_calc (G t)) (cstarted a t) Ha0) as (Ha1 & E1 & N1 & D1).
      set (a1 := fold_left (cvisit fuel) (cd_calc (G t)) (cstarted a t)) in *.
      set (df := merged_with (ca_vals a1) (G t)).
      set (tds := cd_task_dep (G t) ++ calc_task_deps_with (ca_vals a1) (G t)).
      destruct (fold_good fuel IH tds a1 Ha1) as (Ha2 & E2 & N2 & D2).
      set (a2 := fold_left (cvisit fuel) tds a1) in *.
      set (deps := cd_calc (G t) ++ tds).
      assert (Ea2 : cext a a2) by exact (cext_trans _ _ _ E0 (cext_trans _ _ _ E1 E2)).
      assert (Na2 : newfin a a2).
      { apply (newfin_trans a a1 a2 (cext_trans _ _ _ E0 E1)); [exact (newfin_trans _ _ _ E0 N0 N1) | exact N2]. }
      assert (Hst1 : In t (ca_started a1)) by (apply (ex_started _ _ E1); exact Hst0).
      assert (Hst2 : In t (ca_started a2)) by (apply (ex_started _ _ E2); exact Hst1).
      assert (Hnf1 : ~ cfinished a1 t).
      { intros H. destruct (N1 t H) as [H'|H']; [exact (Hnf0 H') | exact (H' Hst0)]. }
      assert (Hnf2 : ~ cfinished a2 t).
      { intros H. destruct (N2 t H) as [H'|H']; [exact (Hnf1 H') | exact (H' Hst1)]. }
      assert (Hndf : nord df) by (apply merged_with_nord, NoRD).
      set (s := ca_s a2).
      assert (Hinv : inv s) by exact (ci_ghost _ Ha2).
      (* branches that end without a look at the task *)
      assert (Fin : forall s' c, frame_on t s s' -> inv s' -> code_ok c -> c <> 0 -> c <> 2 ->
                    cinv (cfinish a2 s' t c []) /\ cext a (cfinish a2 s' t c []) /\ newfin a (cfinish a2 s' t c []) /\
                    done_or_flag (cfinish a2 s' t c []) t).
      { intros s' c Hfr Hi' Hc H0 H2. apply (wrap a a2); auto.
        apply (visit_tail a2 t s' c []); auto; intros; lia. }
      destruct (cdep_ign a2 deps || status_is_ignore (s_db s) t) eqn:Eign.
      { apply Fin; [apply frame_refl | exact Hinv | unfold code_ok; lia | lia | lia]. }
      apply orb_false_elim in Eign. destruct Eign as [Eign Eig].
      destruct (cdep_bad a2 deps) eqn:Ebad.
      { apply Fin; [apply frame_step, op_remove | apply (step_on_inv t), Hinv; apply op_remove | unfold code_ok; lia | lia | lia]. }
      set (s0 := set_def s t df).
      set (s1 := step s0 (Check t)).
      assert (Hinv0 : inv s0) by (apply set_def_inv; exact Hinv).
      assert (Hinv1 : inv s1) by (apply (step_on_inv t); [apply op_check | exact Hinv0]).
      assert (Hfr0 : frame_on t s s0) by apply frame_set_def.
      assert (Hfr1 : frame_on t s s1) by (apply (frame_trans t s s0 s1 Hfr0), frame_step, op_check).
      assert (Hd0 : s_defs s0 t = df) by apply set_def_defs.
      assert (Hd1 : s_defs s1 t = df).
      { destruct (step_on_env md5 size_of v s0 t (Check t) (op_check t)) as (_ & Ed & _). unfold s1. rewrite Ed. exact Hd0. }
      (* the providers of a task that is looked at were executed or are up-to-date, and what they handed over is still there *)
      assert (Hprov : cclean a2 -> df = merged_with (ca_vals a2) (G t) /\ (forall p, In p (cd_calc (G t)) -> ok02 a2 p) /\
                                   forall d, In d (cd_task_dep (G t) ++ calc_task_deps_with (ca_vals a2) (G t)) -> cfinished a2 d).
      { intros Hcl. pose proof (cext_clean _ _ E2 Hcl) as Hcl1.
        assert (Hf1 : forall p, In p (cd_calc (G t)) -> cfinished a1 p) by (intros p Hp; apply done_clean; auto).
        assert (Hv : forall p, In p (cd_calc (G t)) -> ca_vals a1 p = ca_vals a2 p).
        { intros p Hp. symmetry. apply (ex_db _ _ E2 p (Hf1 p Hp)). }
        split; [|split].
        - unfold df. apply merged_with_ext. exact Hv.
        - intros p Hp. apply (deps_ok02 a2 deps p Ha2 Eign Ebad); [unfold deps; apply in_or_app; left; exact Hp|].
          apply (cext_finished _ _ _ E2), Hf1, Hp.
        - intros d Hd. rewrite <- (calc_task_deps_ext _ _ _ Hv) in Hd. apply done_clean; auto. }
      destruct (g_status (check s0 t)) eqn:Est0.
      * (* up-to-date *)
        apply (wrap a a2); auto. apply (visit_tail a2 t s1 2 (get_values (s_db s1) t)); auto; [unfold code_ok; lia | | |intros; lia|].
        -- intros _. split; [reflexivity|]. apply (check_keeps_files md5 size_of v HA); auto.
        -- intros Hcl _. rewrite Hd1. apply Hprov, Hcl.
        -- intros _. split; [|rewrite Hd1; exact Hndf].
           assert (Edb : s_db s1 = s_db s0).
           { unfold s1. simpl. unfold History.check in Est0. apply (get_status_uptodate_db md5 v _ _ _ _ _ Est0). }
           destruct (step_on_env md5 size_of v s0 t (Check t) (op_check t)) as (Ef & Ed & Ec).
           rewrite (check_same md5 v s0 s1 t Ef Ed Ec Edb). exact Est0.
      * (* run *)
        destruct (fails t).
        { apply Fin; [apply (frame_trans t s s1 _ Hfr1), frame_step, op_remove | apply (step_on_inv t), Hinv1; apply op_remove
                      | unfold code_ok; lia | lia | lia]. }
        set (s3 := step s1 (SaveOk t)).
        assert (Hinv3 : inv s3) by (apply (step_on_inv t); [apply op_save | exact Hinv1]).
        assert (Hfr3 : frame_on t s s3) by (apply (frame_trans t s s1 s3 Hfr1), frame_step, op_save).
        assert (Hd3 : s_defs s3 t = df).
        { destruct (step_on_env md5 size_of v s1 t (SaveOk t) (op_save t)) as (_ & Ed & _). unfold s3. rewrite Ed. exact Hd1. }
        assert (Hsv : csave_code s3 = 0 -> saved_now md5 s3 t /\ files_as_last_ok md5 s3 t).
        { intros Hc. destruct (csave_code_cases s3) as [[_ Hdone]|Hc1]; [|lia]. split.
          - apply (saveok_saved_now md5 size_of v HB); auto. intros src Hin. exfalso. rewrite Hd1 in Hin. exact (Hndf src Hin).
          - apply (saveok_settles md5 size_of v HB); auto. }
        apply (wrap a a2); auto.
        apply (visit_tail a2 t s3 (csave_code s3) (save_extra_values (s_db s1) df)); auto.
        -- destruct (csave_code_cases s3) as [[-> _]| ->]; unfold code_ok; lia.
        -- intros Hc. assert (Hc0 : csave_code s3 = 0) by (destruct (csave_code_cases s3) as [[? _]|?]; lia).
           destruct (Hsv Hc0) as [(_ & _ & S3 & _) Hfl]. split; [|exact Hfl].
           unfold get_values. rewrite S3, Hd3. apply save_extra_values_ext. intros src Hin. exfalso. exact (Hndf src Hin).
        -- intros Hcl _. rewrite Hd3. apply Hprov, Hcl.
        -- intros Hc. split; [apply Hsv, Hc | rewrite Hd3; exact Hndf].
        -- intros Hc. destruct (csave_code_cases s3) as [[? _]|?]; lia.
      * (* error *)
        apply Fin; [apply (frame_trans t s s1 _ Hfr1), frame_step, op_remove | apply (step_on_inv t), Hinv1; apply op_remove
                    | unfold code_ok; lia | lia | lia].
      * (* crash *)
        apply Fin; [exact Hfr1 | exact Hinv1 | unfold code_ok; lia | lia | lia].
Qed.

(* ---------- a whole run from a state of the invariant ---------- *)
Notation cacc0 := CalcDep.cacc0.
Lemma cacc0_inv s : inv s -> cinv (cacc0 s).
Proof.
  intros Hg. constructor; simpl; auto.
  - intros t c H. discriminate.
  - intros t [H|H]; discriminate.
  - intros t [H|H]; discriminate.
  - intros _ t [H|H]; discriminate.
  - intros t H. discriminate.
  - intros t H. discriminate.
Qed.

Lemma crun_acc_inv fuel s sel :
  inv s ->
  let a := crun_acc md5 size_of v G fails fuel s sel in
  cinv a /\ s_fs (ca_s a) = s_fs s /\ s_ck (ca_s a) = s_ck s /\ (forall x, In x sel -> done_or_flag a x).
Proof.
  intros Hg a. unfold a, crun_acc.
  destruct (fold_good fuel (visit_good fuel) sel (cacc0 s) (cacc0_inv s Hg)) as (A & E & _ & D).
  split; [exact A|]. destruct (ex_env _ _ E) as [E1 E2]. auto.
Qed.

(* the definition a finished task was looked at with, read from the DB at any later moment of the run *)
Lemma def_from_db a t : cinv a -> cclean a -> ok02 a t ->
  s_defs (ca_s a) t = merged_with (get_values (s_db (ca_s a))) (G t) /\
  calc_task_deps_with (ca_vals a) (G t) = calc_task_deps_with (get_values (s_db (ca_s a))) (G t).
Proof.
  intros Ha Hc Ht. destruct (ci_def _ Ha Hc t Ht) as (D1 & D2 & _).
  assert (Hv : forall p, In p (cd_calc (G t)) -> ca_vals a p = get_values (s_db (ca_s a)) p) by (intros p Hp; apply (ci_vals _ Ha), D2, Hp).
  split; [rewrite D1; apply merged_with_ext; exact Hv | apply calc_task_deps_ext; exact Hv].
Qed.

(* T1: what a task that was executed or skipped as up-to-date hands over to its consumers is what its record holds -- whatever the
   selection, i.e. whether it was dispatched before or after the consumer *)
Theorem calc_values_handed_over fuel s sel t :
  inv s -> let a := crun_acc md5 size_of v G fails fuel s sel in
  ok02 a t -> ca_vals a t = get_values (s_db (ca_s a)) t.
Proof. intros Hg a Ht. destruct (crun_acc_inv fuel s sel Hg) as (A & _). apply (ci_vals _ A), Ht. Qed.

(* T2: the dep set an executed task saved is declared + calculated (from the values its providers' records hold) *)
Theorem calc_saved_dep_set fuel s sel t :
  inv s -> let a := crun_acc md5 size_of v G fails fuel s sel in
  cclean a -> cfin_of (ca_fin a) t = Some 0 ->
  let db1 := s_db (ca_s a) in
  let df := merged_with (get_values db1) (G t) in
  s_defs (ca_s a) t = df /\ r_deps (getrec db1 t) = Some (file_dep df) /\ r_checker (getrec db1 t) = Some (s_ck s) /\
  (forall x, In x (file_dep df) <->
             In x (file_dep (cd_def (G t))) \/ exists p, In p (cd_calc (G t)) /\ In x (calc_files (get_values db1 p))) /\
  (forall p, In p (cd_calc (G t)) -> ok02 a p).
Proof.
  intros Hg a Hc Ht db1 df. destruct (crun_acc_inv fuel s sel Hg) as (A & _ & Eck & _). fold a in A, Eck.
  assert (Hok : ok02 a t) by (left; exact Ht).
  destruct (def_from_db a t A Hc Hok) as [D _]. fold db1 in D. fold df in D.
  destruct (ci_saved _ A t Ht) as [(S1 & S2 & _) _]. fold db1 in S1, S2.
  split; [exact D|]. split; [rewrite S2, D; reflexivity|]. split; [rewrite S1, Eck; reflexivity|].
  split; [intros x; apply merged_with_file_dep | apply (ci_def _ A Hc t Hok)].
Qed.

(* T3: the second look at a task the run executed or skipped -- with the definition recomputed from the saved values of its providers,
   as the next run does: the recomputed definition IS the one the run used, and the task is executed again only if it can never be
   up-to-date (an item that is not true, or nothing to depend on) *)
Theorem calc_second_look fuel s sel t :
  inv s -> let a := crun_acc md5 size_of v G fails fuel s sel in
  cclean a -> ok02 a t -> status_is_ignore (s_db (ca_s a)) t = false ->
  (forall x, In x (targets (cd_def (G t))) -> exists_ (s_fs s) x = true) ->
  let s2 := set_def (ca_s a) t (merged_with (get_values (s_db (ca_s a))) (G t)) in
  s2 = ca_s a /\
  (executes md5 v s2 t false = false <-> items_ok (s_db s2) t (s_defs s2 t) /\ some_dep (s_db s2) t (s_defs s2 t)).
Proof.
  intros Hg a Hc Ht Hig Htg s2. destruct (crun_acc_inv fuel s sel Hg) as (A & Efs & _ & _). fold a in A, Efs.
  destruct (def_from_db a t A Hc Ht) as [D _].
  assert (E2 : s2 = ca_s a) by (unfold s2; rewrite <- D; apply set_def_same).
  split; [exact E2|]. rewrite E2.
  assert (Htg' : forall x, In x (targets (s_defs (ca_s a) t)) -> exists_ (s_fs (ca_s a)) x = true).
  { intros x Hx. rewrite Efs. apply Htg. rewrite D, merged_with_targets in Hx. exact Hx. }
  destruct (settled_verdict md5 size_of v (ca_s a) t (ci_ghost _ A) (ci_files _ A t Ht) Htg') as [Hiff Hor].
  unfold executes. rewrite Hig. simpl. fold (check (ca_s a) t). rewrite <- Hiff.
  destruct Hor as [E|E]; rewrite E; split; congruence.
Qed.

End CalcDepP.

(* ================= Part 2: a run from the state a clean, fully successful run left ================= *)
Section CalcRerun.
Variable md5 : N -> N.
Variable size_of : N -> Z.
Variable v : ver.
Hypothesis HA : fixA v = true.
Hypothesis HB : fixB v = true.
Variable G : name -> cdef.
Hypothesis NoRD : forall t, nord (cd_def (G t)).

Notation step := (step md5 size_of v).
Notation check := (check md5 v).
Notation inv := (db_reflects_ghost md5).
Notation stable := (stable md5 v).
Notation executes := (executes md5 v).
Notation set_def := (set_def md5 size_of v).
Notation nofail := (fun _ : name => false).
Notation cvisit := (cvisit md5 size_of v G nofail).
Notation cinv := (cinv md5 v G).

Variable U : name -> Prop.
Variable s1 : state.

(* every task of U is stable, not ignored, its targets exist, the definition in force is the one recomputed from the saved values
   of its providers; U is closed under calc_dep and (declared and calculated) task_dep *)
Record csettled : Prop := {
  cs_inv : inv s1;
  cs_stable : forall t, U t -> stable s1 t;
  cs_targets : forall t, U t -> targets_exist s1 t;
  cs_ignore : forall t, U t -> status_is_ignore (s_db s1) t = false;
  cs_def : forall t, U t -> s_defs s1 t = merged_with (get_values (s_db s1)) (G t);
  cs_calc : forall t p, U t -> In p (cd_calc (G t)) -> U p;
  cs_deps : forall t d, U t -> In d (cd_task_dep (G t) ++ calc_task_deps_with (get_values (s_db s1)) (G t)) -> U d
}.
Hypothesis H1 : csettled.

Record cnear (s : state) : Prop := {
  cn_inv : inv s;
  cn_env : same_env s1 s;
  cn_db : db_equiv (s_db s) (s_db s1);
  cn_stable : forall t, U t -> stable s t
}.

Lemma cnear_refl : cnear s1.
Proof. constructor; [apply (cs_inv H1) | repeat split; reflexivity | apply db_equiv_refl | apply (cs_stable H1)]. Qed.
Lemma cnear_targets s t : cnear s -> U t -> targets_exist s t.
Proof. intros Hn Ut. apply (targets_exist_env s1); [apply (cn_env _ Hn) | apply (cs_targets H1); auto]. Qed.
Lemma cnear_ignore s t : cnear s -> U t -> status_is_ignore (s_db s) t = false.
Proof. intros Hn Ut. rewrite (db_equiv_ignore _ _ t (cn_db _ Hn)). apply (cs_ignore H1); auto. Qed.
Lemma cnear_status s t : cnear s -> U t -> (g_status (check s t) = UpToDate <-> g_status (check s1 t) = UpToDate).
Proof.
  intros Hn Ut. apply (uptodate_iff_ext md5 size_of v s1 s t); [apply (cn_env _ Hn) | apply db_equiv_getrec, (cn_db _ Hn) |].
  intros src _. apply db_equiv_result, (cn_db _ Hn).
Qed.
Lemma cnear_executes s t : cnear s -> U t -> executes s t false = executes s1 t false.
Proof.
  intros Hn Ut. apply (executes_equiv md5 size_of v); auto;
    [apply (cs_inv H1) | apply (cn_inv _ Hn) | apply (cn_env _ Hn) | apply (cn_db _ Hn) | apply (cs_stable H1); auto
     | apply (cn_stable _ Hn); auto | apply (cs_targets H1); auto].
Qed.
Lemma cnear_cases s t : cnear s -> U t ->
  (g_status (check s t) = UpToDate /\ executes s1 t false = false) \/
  (g_status (check s t) = Run /\ saved_now md5 s t /\ executes s1 t false = true).
Proof.
  intros Hn Ut. pose proof (cnear_executes s t Hn Ut) as He. pose proof (cnear_ignore s t Hn Ut) as Hig.
  destruct (stable_status md5 size_of v s t (cn_inv _ Hn) (cn_stable _ Hn t Ut) Hig (cnear_targets s t Hn Ut)) as [[E|[E Hsv]] _].
  - left. split; auto. rewrite <- He. unfold History.executes. fold (check s t). rewrite E. apply andb_false_r.
  - right. split; auto. split; auto. rewrite <- He. unfold History.executes. fold (check s t). rewrite E, Hig. reflexivity.
Qed.
Lemma cnear_check s t : cnear s -> U t -> cnear (step s (Check t)).
Proof.
  intros Hn Ut. pose proof (cnear_ignore s t Hn Ut) as Hig.
  destruct (check_step md5 size_of v HA HB s t (cn_inv _ Hn) (cn_stable _ Hn t Ut) Hig (cnear_targets s t Hn Ut)) as (C1 & C2 & C3 & C4).
  constructor; auto.
  - destruct (cn_env _ Hn) as (E1 & E2 & E3), C3 as (F1 & F2 & F3). repeat split; congruence.
  - rewrite C2. apply (cn_db _ Hn).
  - intros x Ux. apply C4, (cn_stable _ Hn x Ux).
Qed.
Lemma cnear_save s t : cnear s -> saved_now md5 s t -> cnear (step s (SaveOk t)) /\ csave_code (step s (SaveOk t)) = 0.
Proof.
  intros Hn Hsv. destruct (saveok_step md5 size_of v HB s t (cn_inv _ Hn) Hsv) as (S1 & S2 & S3 & S4 & S5).
  split; [|exact S4]. constructor; auto.
  - destruct (cn_env _ Hn) as (E1 & E2 & E3), S3 as (F1 & F2 & F3). repeat split; congruence.
  - eapply db_equiv_trans; [exact S2 | apply (cn_db _ Hn)].
  - intros x Ux. apply S5, (cn_stable _ Hn x Ux).
Qed.

Definition code2 (t : name) (c : Z) : Prop :=
  U t /\ ((c = 0 /\ executes s1 t false = true) \/ (c = 2 /\ executes s1 t false = false)).

Record cinv2 (a : cacc) : Prop := {
  j_near : cnear (ca_s a);
  j_fin : forall t c, cfin_of (ca_fin a) t = Some c -> code2 t c
}.

Lemma cinv2_same a a' : ca_s a' = ca_s a -> ca_fin a' = ca_fin a -> cinv2 a -> cinv2 a'.
Proof. intros Es Ef [J1 J2]. constructor; rewrite ?Es, ?Ef; auto. Qed.

Lemma cinv2_finish a s' t c vl : cinv2 a -> cnear s' -> code2 t c -> cinv2 (cfinish a s' t c vl).
Proof.
  intros [J1 J2] Hn Hc. constructor; simpl; auto.
  intros x c' Hx. rewrite cfin_of_app in Hx. destruct (cfin_of (ca_fin a) x) eqn:E.
  - inversion Hx; subst. apply J2; auto.
  - destruct (N.eqb_spec t x) as [<-|]; [|discriminate]. inversion Hx; subst. auto.
Qed.

Lemma cdep_ign_false a l : cinv2 a -> cdep_ign a l = false.
Proof.
  intros Ha. apply not_true_is_false. intros H. unfold cdep_ign in H. apply existsb_exists in H. destruct H as [d [_ H]].
  destruct (cfin_of (ca_fin a) d) eqn:E; [|discriminate].
  destruct (j_fin _ Ha d z E) as [_ [[-> _]|[-> _]]]; discriminate.
Qed.
Lemma cdep_bad_false a l : cinv2 a -> cdep_bad a l = false.
Proof.
  intros Ha. apply not_true_is_false. intros H. unfold cdep_bad in H. apply existsb_exists in H. destruct H as [d [_ H]].
  destruct (cfin_of (ca_fin a) d) eqn:E; [|discriminate].
  destruct (j_fin _ Ha d z E) as [_ [[-> _]|[-> _]]]; discriminate.
Qed.
Lemma cinv2_ok02 a t : cinv2 a -> cfinished a t -> ok02 a t.
Proof.
  intros Ha Hf. unfold cfinished in Hf. unfold ok02. destruct (cfin_of (ca_fin a) t) as [c|] eqn:E; [|congruence].
  destruct (j_fin _ Ha t c E) as [_ [[-> _]|[-> _]]]; auto.
Qed.

(* the flags of a visit of a task that was not started are those of the accumulator after its dependencies *)
Lemma cvisit_flags fuel a t : mem t (ca_started a) = false ->
  let a1 := fold_left (cvisit fuel) (cd_calc (G t)) (cstarted a t) in
  let a2 := fold_left (cvisit fuel) (cd_task_dep (G t) ++ calc_task_deps_with (ca_vals a1) (G t)) a1 in
  ca_cyc (cvisit (S fuel) a t) = ca_cyc a2 /\ ca_fuel (cvisit (S fuel) a t) = ca_fuel a2.
Proof.
  intros Hm a1 a2. rewrite cvisit_S, Hm. cbv zeta. fold a1. fold a2.
  repeat match goal with
         | |- context [if ?b then _ else _] => destruct b
         | |- context [match g_status ?x with _ => _ end] => destruct (g_status x)
         end; split; reflexivity.
Qed.

Definition good2 (fuel : nat) : Prop :=
  forall a t, cinv a -> cinv2 a -> U t -> cclean (cvisit fuel a t) -> cinv2 (cvisit fuel a t).

Lemma fold2 fuel : good2 fuel -> forall l a, cinv a -> cinv2 a -> (forall x, In x l -> U x) ->
  cclean (fold_left (cvisit fuel) l a) -> cinv2 (fold_left (cvisit fuel) l a).
Proof.
  intros Hg. induction l as [|x l IH]; intros a Ha Hj Hl Hc; simpl in *; auto.
  destruct (visit_good md5 size_of v HA HB G nofail NoRD fuel a x Ha) as (A1 & _).
  destruct (fold_good md5 size_of v G nofail fuel (visit_good md5 size_of v HA HB G nofail NoRD fuel) l _ A1) as (_ & E & _).
  apply IH; auto. apply Hg; auto. apply (cext_clean _ _ E Hc).
Qed.

Lemma visit2 : forall fuel, good2 fuel.
Proof.
  induction fuel as [|fuel IH]; intros a t Ha Hj Ut Hc.
  - simpl in *. destruct Hc as [_ C]. simpl in C. discriminate.
  - destruct (mem t (ca_started a)) eqn:Hm.
    + rewrite cvisit_S, Hm in *. destruct (cfin_of (ca_fin a) t); [exact Hj|]. destruct Hc as [C _]. simpl in C. discriminate.
    + pose proof (visit_good md5 size_of v HA HB G nofail NoRD fuel) as VG.
      destruct (cvisit_flags fuel a t Hm) as [Fc Ff]. cbv zeta in Fc, Ff.
      rewrite cvisit_S, Hm. cbv zeta.
      pose proof Hm as Est. apply mem_false_In in Est.
      destruct (started_ok md5 v G a t Ha Est) as (Ha0 & E0 & N0 & Hst0 & Hnf0).
      destruct (fold_good md5 size_of v G nofail fuel VG (cd_calc (G t)) (cstarted a t) Ha0) as (Ha1 & E1 & N1 & D1).
      set (a1 := fold_left (cvisit fuel) (cd_calc (G t)) (cstarted a t)) in *.
      set (tds := cd_task_dep (G t) ++ calc_task_deps_with (ca_vals a1) (G t)) in *.
      destruct (fold_good md5 size_of v G nofail fuel VG tds a1 Ha1) as (Ha2 & E2 & N2 & D2).
      set (a2 := fold_left (cvisit fuel) tds a1) in *.
      assert (Hc2 : cclean a2) by (destruct Hc as [C1 C2]; split; congruence).
      assert (Hc1 : cclean a1) by exact (cext_clean _ _ E2 Hc2).
      assert (Hj0 : cinv2 (cstarted a t)) by (apply (cinv2_same a); auto).
      assert (Hj1 : cinv2 a1).
      { apply (fold2 fuel IH); auto. intros p Hp. apply (cs_calc H1 t p Ut Hp). }
      (* what the providers hand over is what s1 holds *)
      assert (Hv : forall p, In p (cd_calc (G t)) -> ca_vals a1 p = get_values (s_db s1) p).
      { intros p Hp. assert (Hf : cfinished a1 p) by (apply done_clean; auto).
        rewrite (ci_vals _ _ _ _ Ha1 p (cinv2_ok02 a1 p Hj1 Hf)). apply db_equiv_values, (cn_db _ (j_near _ Hj1)). }
      assert (Hdf : merged_with (ca_vals a1) (G t) = s_defs s1 t).
      { rewrite (cs_def H1 t Ut). apply merged_with_ext. exact Hv. }
      assert (Htds : forall d, In d tds -> U d).
      { intros d Hd. unfold tds in Hd. rewrite (calc_task_deps_ext _ _ _ Hv) in Hd. apply (cs_deps H1 t d Ut Hd). }
      assert (Hj2 : cinv2 a2) by (apply (fold2 fuel IH); auto).
      pose proof (j_near _ Hj2) as Hn2.
      rewrite (cdep_ign_false a2), (cdep_bad_false a2), (cnear_ignore _ t Hn2 Ut) by auto. cbn [orb].
      assert (Hsd : set_def (ca_s a2) t (merged_with (ca_vals a1) (G t)) = ca_s a2).
      { rewrite Hdf. destruct (cn_env _ Hn2) as (_ & Ed & _). rewrite <- Ed. apply set_def_same. }
      rewrite Hsd.
      pose proof (cnear_check _ t Hn2 Ut) as Hn3.
      destruct (cnear_cases (ca_s a2) t Hn2 Ut) as [[E He]|(E & Hsv & He)]; rewrite E.
      * apply cinv2_finish; auto. split; auto.
      * destruct (cnear_cases _ t Hn3 Ut) as [[_ He']|(_ & Hsv3 & _)]; [congruence|].
        destruct (cnear_save _ t Hn3 Hsv3) as [Hn4 Hcode]. rewrite Hcode.
        apply cinv2_finish; auto. split; auto.
Qed.

(* a whole run from a state near s1 *)
Theorem run2 fuel s sel :
  cnear s -> (forall x, In x sel -> U x) ->
  let a := crun_acc md5 size_of v G nofail fuel s sel in
  cclean a ->
  cnear (ca_s a) /\ (forall t c, cfin_of (ca_fin a) t = Some c -> code2 t c) /\ (forall x, In x sel -> cfinished a x).
Proof.
  intros Hn Hsel a Hc. unfold a, crun_acc in *.
  assert (Ha0 : cinv (cacc0 s)) by (apply cacc0_inv, (cn_inv _ Hn)).
  assert (Hj0 : cinv2 (cacc0 s)) by (constructor; [exact Hn | intros t c H; discriminate]).
  destruct (fold2 fuel (visit2 fuel) sel (cacc0 s) Ha0 Hj0 Hsel Hc) as [J1 J2].
  split; [exact J1|]. split; [exact J2|].
  destruct (fold_good md5 size_of v G nofail fuel (visit_good md5 size_of v HA HB G nofail NoRD fuel) sel _ Ha0) as (_ & _ & _ & D).
  intros x Hx. apply done_clean; auto.
Qed.

End CalcRerun.

(* ================= the repeated run reaches the same tasks: no cycle, no fuel problem ================= *)
Section CalcShape.
Variable md5 : N -> N.
Variable size_of : N -> Z.
Variable v : ver.
Hypothesis HA : fixA v = true.
Hypothesis HB : fixB v = true.
Variable G : name -> cdef.
Hypothesis NoRD : forall t, nord (cd_def (G t)).

Notation step := (step md5 size_of v).
Notation check := (check md5 v).
Notation inv := (db_reflects_ghost md5).
Notation set_def := (set_def md5 size_of v).
Notation nofail := (fun _ : name => false).
Notation cvisit := (cvisit md5 size_of v G nofail).
Notation cinv := (cinv md5 v G).

Lemma cext_finish a t s' c vl : ~ cfinished a t -> frame_on t (ca_s a) s' -> cext a (cfinish a s' t c vl).
Proof.
  intros Hnf (F1 & F2 & F3).
  assert (Hne : forall x, cfinished a x -> x <> t) by (intros x Hx ->; contradiction).
  constructor; simpl; auto.
  - intros x c' Hx. rewrite cfin_of_app, Hx. reflexivity.
  - intros x Hx. destruct (F3 x (Hne x Hx)) as (D1 & D2 & D3). repeat split; auto. apply upd_other, Hne, Hx.
Qed.

(* the normal form of the visit of a task that was not started: one final report after its dependencies *)
Lemma cvisit_nf fuel a t : mem t (ca_started a) = false ->
  let a1 := fold_left (cvisit fuel) (cd_calc (G t)) (cstarted a t) in
  let a2 := fold_left (cvisit fuel) (cd_task_dep (G t) ++ calc_task_deps_with (ca_vals a1) (G t)) a1 in
  exists s' c vl, cvisit (S fuel) a t = cfinish a2 s' t c vl /\ frame_on t (ca_s a2) s'.
Proof.
  intros Hm a1 a2. rewrite cvisit_S, Hm. cbv zeta. fold a1. fold a2.
  set (s := ca_s a2). set (df := merged_with (ca_vals a1) (G t)).
  assert (F0 : frame_on t s (set_def s t df)) by apply frame_set_def.
  assert (F1 : frame_on t s (step (set_def s t df) (Check t))).
  { apply (frame_trans t s _ _ F0). apply frame_step. left; reflexivity. }
  destruct (cdep_ign a2 _ || status_is_ignore (s_db s) t).
  { do 3 eexists. split; [reflexivity | apply frame_refl]. }
  destruct (cdep_bad a2 _).
  { do 3 eexists. split; [reflexivity | apply frame_step; right; right; reflexivity]. }
  destruct (g_status (check (set_def s t df) t)).
  - do 3 eexists. split; [reflexivity | exact F1].
  - do 3 eexists. split; [reflexivity|]. apply (frame_trans t s _ _ F1). apply frame_step. right; left; reflexivity.
  - do 3 eexists. split; [reflexivity|]. apply (frame_trans t s _ _ F1). apply frame_step. right; right; reflexivity.
  - do 3 eexists. split; [reflexivity | exact F1].
Qed.

Variable af : cacc.                 (* the accumulator the first run ended with *)
Hypothesis Hcl : cclean af.
Hypothesis Hcodes : forall t c, cfin_of (ca_fin af) t = Some c -> c = 0 \/ c = 2.
Hypothesis H1 : csettled md5 v G (cfinished af) (ca_s af).
Notation cinv2 := (cinv2 md5 v (cfinished af) (ca_s af)).

Definition shape (a a' : cacc) : Prop :=
  ca_started a = ca_started a' /\ (forall t, cfinished a t <-> cfinished a' t) /\ ca_cyc a = ca_cyc a' /\ ca_fuel a = ca_fuel a'.

Lemma shape_clean a a' : shape a a' -> cclean a -> cclean a'.
Proof. intros (_ & _ & E1 & E2) [C1 C2]. split; congruence. Qed.

Lemma below_ok02 a t : cext a af -> cfinished a t -> ok02 a t.
Proof.
  intros E Hf. unfold cfinished in Hf. unfold ok02. destruct (cfin_of (ca_fin a) t) as [c|] eqn:Ec; [|congruence].
  destruct (Hcodes t c (ex_fin _ _ E t c Ec)) as [-> | ->]; auto.
Qed.

Definition goodR (fuel : nat) : Prop :=
  forall a a' t, cinv a -> cext (cvisit fuel a t) af -> cinv a' -> cinv2 a' -> shape a a' ->
    shape (cvisit fuel a t) (cvisit fuel a' t) /\ cinv2 (cvisit fuel a' t).

Lemma foldR fuel : goodR fuel -> forall l a a', cinv a -> cext (fold_left (cvisit fuel) l a) af -> cinv a' -> cinv2 a' -> shape a a' ->
  shape (fold_left (cvisit fuel) l a) (fold_left (cvisit fuel) l a') /\ cinv2 (fold_left (cvisit fuel) l a').
Proof.
  intros Hg. pose proof (visit_good md5 size_of v HA HB G nofail NoRD fuel) as VG.
  induction l as [|x l IH]; intros a a' Ha He Ha' Hj Hs; simpl in *; auto.
  destruct (VG a x Ha) as (A1 & _). destruct (VG a' x Ha') as (A1' & _).
  destruct (fold_good md5 size_of v G nofail fuel VG l _ A1) as (_ & E & _).
  destruct (Hg a a' x Ha (cext_trans _ _ _ E He) Ha' Hj Hs) as [S1 J1].
  apply IH; auto.
Qed.

Lemma visitR : forall fuel, goodR fuel.
Proof.
  induction fuel as [|fuel IH]; intros a a' t Ha He Ha' Hj Hs.
  - exfalso. simpl in He. destruct (cext_clean _ _ He Hcl) as [_ C]. simpl in C. discriminate.
  - pose proof Hs as (S1 & S2 & S3 & S4).
    pose proof (visit_good md5 size_of v HA HB G nofail NoRD fuel) as VG.
    destruct (mem t (ca_started a)) eqn:Hm.
    + assert (Hm' : mem t (ca_started a') = true) by (rewrite <- S1; exact Hm).
      rewrite !cvisit_S, Hm, Hm' in *.
      destruct (cfin_of (ca_fin a) t) eqn:Ef.
      * assert (Hf' : cfinished a' t) by (apply S2; unfold cfinished; rewrite Ef; discriminate).
        unfold cfinished in Hf'. destruct (cfin_of (ca_fin a') t); [auto | congruence].
      * exfalso. destruct (cext_clean _ _ He Hcl) as [C _]. simpl in C. discriminate.
    + assert (Hm' : mem t (ca_started a') = false) by (rewrite <- S1; exact Hm).
      destruct (cvisit_nf fuel a t Hm) as (sx & cx & vx & Er & Frx). destruct (cvisit_nf fuel a' t Hm') as (sx' & cx' & vx' & Er' & Frx').
      cbv zeta in Er, Frx, Er', Frx'.
      pose proof Hm as Est. apply mem_false_In in Est. pose proof Hm' as Est'. apply mem_false_In in Est'.
      destruct (started_ok md5 v G a t Ha Est) as (Ha0 & E0 & N0 & Hst0 & Hnf0).
      destruct (started_ok md5 v G a' t Ha' Est') as (Ha0' & E0' & N0' & Hst0' & Hnf0').
      destruct (fold_good md5 size_of v G nofail fuel VG (cd_calc (G t)) (cstarted a t) Ha0) as (Ha1 & E1 & N1 & D1).
      destruct (fold_good md5 size_of v G nofail fuel VG (cd_calc (G t)) (cstarted a' t) Ha0') as (Ha1' & E1' & N1' & D1').
      set (a1 := fold_left (cvisit fuel) (cd_calc (G t)) (cstarted a t)) in *.
      set (a1' := fold_left (cvisit fuel) (cd_calc (G t)) (cstarted a' t)) in *.
      set (tds := cd_task_dep (G t) ++ calc_task_deps_with (ca_vals a1) (G t)) in *.
      destruct (fold_good md5 size_of v G nofail fuel VG tds a1 Ha1) as (Ha2 & E2 & N2 & D2).
      set (a2 := fold_left (cvisit fuel) tds a1) in *.
      assert (Hnf1 : ~ cfinished a1 t).
      { intros H. destruct (N1 t H) as [H'|H']; [exact (Hnf0 H') | exact (H' Hst0)]. }
      assert (Hnf2 : ~ cfinished a2 t).
      { intros H. destruct (N2 t H) as [H'|H']; [exact (Hnf1 H') | apply H', (ex_started _ _ E1), Hst0]. }
      (* the first run: everything below its final accumulator *)
      assert (Er2 : cext a2 af) by (rewrite Er in He; exact (cext_trans _ _ _ (cext_finish a2 t sx cx vx Hnf2 Frx) He)).
      assert (Er1 : cext a1 af) by exact (cext_trans _ _ _ E2 Er2).
      assert (Hc1 : cclean a1) by exact (cext_clean _ _ Er1 Hcl).
      assert (Ut : cfinished af t).
      { apply (cext_finished _ _ _ He). rewrite Er. unfold cfinished. simpl. rewrite cfin_of_app.
        destruct (cfin_of (ca_fin a2) t); [discriminate|]. rewrite N.eqb_refl. discriminate. }
      assert (Hv1 : forall p, In p (cd_calc (G t)) -> ca_vals a1 p = get_values (s_db (ca_s af)) p).
      { intros p Hp. assert (Hf : cfinished a1 p) by (apply done_clean; auto).
        rewrite (ci_vals _ _ _ _ Ha1 p (below_ok02 a1 p Er1 Hf)). symmetry. apply get_values_pt. apply (ex_db _ _ Er1 p Hf). }
      (* the repeated run *)
      assert (Hs0 : shape (cstarted a t) (cstarted a' t)) by (repeat split; simpl; try congruence; apply S2).
      assert (Hj0 : cinv2 (cstarted a' t)) by (apply (cinv2_same md5 v (cfinished af) (ca_s af) a'); auto).
      destruct (foldR fuel IH (cd_calc (G t)) (cstarted a t) (cstarted a' t) Ha0 Er1 Ha0' Hj0 Hs0) as [Hs1 Hj1].
      fold a1 in Hs1. fold a1' in Hs1, Hj1.
      assert (Hc1' : cclean a1') by exact (shape_clean _ _ Hs1 Hc1).
      assert (Hv1' : forall p, In p (cd_calc (G t)) -> ca_vals a1' p = get_values (s_db (ca_s af)) p).
      { intros p Hp. assert (Hf : cfinished a1' p) by (apply done_clean; auto).
        rewrite (ci_vals _ _ _ _ Ha1' p (cinv2_ok02 md5 v (cfinished af) (ca_s af) a1' p Hj1 Hf)).
        apply db_equiv_values, (cn_db _ _ _ _ _ (j_near _ _ _ _ _ Hj1)). }
      assert (Etds : cd_task_dep (G t) ++ calc_task_deps_with (ca_vals a1') (G t) = tds).
      { unfold tds. f_equal. rewrite (calc_task_deps_ext _ _ _ Hv1), (calc_task_deps_ext _ _ _ Hv1'). reflexivity. }
      rewrite Etds in Er', Frx'.
      destruct (foldR fuel IH tds a1 a1' Ha1 Er2 Ha1' Hj1 Hs1) as [Hs2 Hj2]. fold a2 in Hs2.
      set (a2' := fold_left (cvisit fuel) tds a1') in *.
      assert (Hshape : shape (cvisit (S fuel) a t) (cvisit (S fuel) a' t)).
      { destruct Hs2 as (T1 & T2 & T3 & T4). rewrite Er, Er'. repeat split; simpl; auto.
        - intros H. unfold cfinished in *. simpl in *. rewrite cfin_of_app in *.
          destruct (cfin_of (ca_fin a2') t0) eqn:E'; [discriminate|].
          destruct (cfin_of (ca_fin a2) t0) eqn:E; [|destruct (N.eqb t t0); [discriminate | exact H]].
          exfalso. assert (X : cfin_of (ca_fin a2) t0 <> None) by (rewrite E; discriminate). apply T2 in X. congruence.
        - intros H. unfold cfinished in *. simpl in *. rewrite cfin_of_app in *.
          destruct (cfin_of (ca_fin a2) t0) eqn:E; [discriminate|].
          destruct (cfin_of (ca_fin a2') t0) eqn:E'; [|destruct (N.eqb t t0); [discriminate | exact H]].
          exfalso. assert (X : cfin_of (ca_fin a2') t0 <> None) by (rewrite E'; discriminate). apply T2 in X. congruence. }
      split; [exact Hshape|].
      apply (visit2 md5 size_of v HA HB G NoRD (cfinished af) (ca_s af) H1 (S fuel) a' t Ha' Hj Ut).
      apply (shape_clean _ _ Hshape). exact (cext_clean _ _ He Hcl).
Qed.

End CalcShape.

(* ================= first run, then the run repeated ================= *)
Section CalcFinal.
Variable md5 : N -> N.
Variable size_of : N -> Z.
Variable v : ver.
Hypothesis HA : fixA v = true.
Hypothesis HB : fixB v = true.
Variable G : name -> cdef.
Hypothesis NoRD : forall t, nord (cd_def (G t)).

Notation check := (check md5 v).
Notation inv := (db_reflects_ghost md5).
Notation executes := (executes md5 v).
Notation nofail := (fun _ : name => false).

(* the state a clean, fully successful run leaves is settled for the tasks it finished *)
Lemma calc_first_settled fuel s0 sel :
  inv s0 ->
  let a1 := crun_acc md5 size_of v G nofail fuel s0 sel in
  cclean a1 ->
  (forall t c, cfin_of (ca_fin a1) t = Some c -> c = 0 \/ c = 2) ->
  (forall t, cfinished a1 t -> status_is_ignore (s_db (ca_s a1)) t = false) ->
  (forall t x, cfinished a1 t -> In x (targets (cd_def (G t))) -> exists_ (s_fs s0) x = true) ->
  csettled md5 v G (cfinished a1) (ca_s a1) /\ (forall x, In x sel -> cfinished a1 x).
Proof.
  intros Hinv a1 Hcl Hcodes Hign Htg.
  destruct (crun_acc_inv md5 size_of v HA HB G nofail NoRD fuel s0 sel Hinv) as (A & Efs & Eck & D). fold a1 in A, Efs, Eck, D.
  split; [|intros x Hx; apply done_clean; auto].
  assert (Hok : forall t, cfinished a1 t -> ok02 a1 t).
  { intros t Ht. unfold cfinished in Ht. unfold ok02. destruct (cfin_of (ca_fin a1) t) as [c|] eqn:E; [|congruence].
    destruct (Hcodes t c E) as [-> | ->]; auto. }
  constructor.
  - apply (ci_ghost _ _ _ _ A).
  - intros t Ht. right. split; [apply (ci_files _ _ _ _ A), Hok, Ht|].
    intros Hn. destruct (Hok t Ht) as [E|E]; [apply (ci_saved _ _ _ _ A t E) | exfalso; apply Hn, (ci_utd _ _ _ _ A t E)].
  - intros t Ht x Hx. rewrite Efs. apply (Htg t x Ht).
    destruct (def_from_db md5 v G a1 t A Hcl (Hok t Ht)) as [Dd _]. rewrite Dd, merged_with_targets in Hx. exact Hx.
  - exact Hign.
  - intros t Ht. apply (def_from_db md5 v G a1 t A Hcl (Hok t Ht)).
  - intros t p Ht Hp. apply ok02_finished. apply (ci_def _ _ _ _ A Hcl t (Hok t Ht)). exact Hp.
  - intros t d Ht Hd. destruct (def_from_db md5 v G a1 t A Hcl (Hok t Ht)) as [_ Dt]. rewrite <- Dt in Hd.
    apply (ci_def _ _ _ _ A Hcl t (Hok t Ht)). exact Hd.
Qed.

(* `doit run sel` repeated immediately after a clean, fully successful `doit run sel`: the same tasks are reached; one that was
   executed is executed again only if the second look of calc_second_look says so (it can never be up-to-date), one that was skipped
   is skipped again; the DB is left equivalent -- and so again for every further repetition ([cnear] is re-established) *)
Theorem calc_rerun_noop fuel s0 sel :
  inv s0 ->
  let a1 := crun_acc md5 size_of v G nofail fuel s0 sel in
  let s1 := ca_s a1 in
  cclean a1 ->
  (forall t c, cfin_of (ca_fin a1) t = Some c -> c = 0 \/ c = 2) ->
  (forall t, cfinished a1 t -> status_is_ignore (s_db s1) t = false) ->
  (forall t x, cfinished a1 t -> In x (targets (cd_def (G t))) -> exists_ (s_fs s0) x = true) ->
  forall s, cnear md5 v (cfinished a1) s1 s ->
  let a2 := crun_acc md5 size_of v G nofail fuel s sel in
  (forall t c, cfin_of (ca_fin a2) t = Some c ->
     (c = 0 /\ cfin_of (ca_fin a1) t = Some 0 /\ executes s1 t false = true) \/
     (c = 2 /\ cfinished a1 t /\ executes s1 t false = false)) /\
  (forall t, cfinished a2 t <-> cfinished a1 t) /\ cclean a2 /\
  db_equiv (s_db (ca_s a2)) (s_db s1) /\
  (forall tasks files, db_z tasks files (s_db (ca_s a2)) = db_z tasks files (s_db s1)) /\
  cnear md5 v (cfinished a1) s1 (ca_s a2).
Proof.
  intros Hinv a1 s1 Hcl Hcodes Hign Htg s Hn a2.
  destruct (calc_first_settled fuel s0 sel Hinv Hcl Hcodes Hign Htg) as [H1 Hsel]. fold a1 in H1, Hsel. fold s1 in H1.
  assert (Hshape : shape a1 a2).
  { unfold a1, a2, crun_acc.
    apply (foldR md5 size_of v HA HB G NoRD a1 fuel (visitR md5 size_of v HA HB G NoRD a1 Hcl Hcodes H1 fuel) sel (cacc0 s0) (cacc0 s)).
    - apply (cacc0_inv md5 v G), Hinv.
    - apply cext_refl.
    - apply (cacc0_inv md5 v G), (cn_inv _ _ _ _ _ Hn).
    - constructor; [exact Hn | intros t c H; discriminate].
    - repeat split; auto. }
  assert (Hcl2 : cclean a2) by exact (shape_clean _ _ Hshape Hcl).
  destruct (run2 md5 size_of v HA HB G NoRD (cfinished a1) s1 H1 fuel s sel Hn Hsel Hcl2) as (R1 & R2 & R3). fold a2 in R1, R2, R3.
  split.
  { intros t c Hc. destruct (R2 t c Hc) as [Ut [[-> He]|[-> He]]]; [left | right; auto].
    split; auto. split; auto. unfold cfinished in Ut.
    destruct (cfin_of (ca_fin a1) t) as [c1|] eqn:E1; [|congruence].
    destruct (Hcodes t c1 E1) as [-> | ->]; auto. exfalso.
    destruct (crun_acc_inv md5 size_of v HA HB G nofail NoRD fuel s0 sel Hinv) as (A & _). fold a1 in A.
    destruct (ci_utd _ _ _ _ A t E1) as [Hu _]. fold s1 in Hu.
    rewrite (uptodate_not_executed md5 v s1 t Hu) in He. discriminate. }
  split; [intros t; symmetry; apply Hshape|]. split; [exact Hcl2|].
  split; [apply (cn_db _ _ _ _ _ R1)|]. split; [intros tasks files; apply db_z_equiv, (cn_db _ _ _ _ _ R1) | exact R1].
Qed.

(* ... in particular the run repeated from the very state the first run left *)
Corollary calc_second_run_noop fuel s0 sel :
  inv s0 ->
  let a1 := crun_acc md5 size_of v G nofail fuel s0 sel in
  let s1 := ca_s a1 in
  cclean a1 ->
  (forall t c, cfin_of (ca_fin a1) t = Some c -> c = 0 \/ c = 2) ->
  (forall t, cfinished a1 t -> status_is_ignore (s_db s1) t = false) ->
  (forall t x, cfinished a1 t -> In x (targets (cd_def (G t))) -> exists_ (s_fs s0) x = true) ->
  let a2 := crun_acc md5 size_of v G nofail fuel s1 sel in
  (forall t c, cfin_of (ca_fin a2) t = Some c ->
     (c = 0 /\ cfin_of (ca_fin a1) t = Some 0 /\ executes s1 t false = true) \/
     (c = 2 /\ cfinished a1 t /\ executes s1 t false = false)) /\
  (forall t, cfinished a2 t <-> cfinished a1 t) /\ cclean a2 /\
  db_equiv (s_db (ca_s a2)) (s_db s1).
Proof.
  intros Hinv a1 s1 Hcl Hcodes Hign Htg a2.
  destruct (calc_first_settled fuel s0 sel Hinv Hcl Hcodes Hign Htg) as [H1 _]. fold a1 in H1. fold s1 in H1.
  destruct (calc_rerun_noop fuel s0 sel Hinv Hcl Hcodes Hign Htg s1 (cnear_refl md5 v G (cfinished a1) s1 H1)) as (R1 & R2 & R3 & R4 & _).
  auto.
Qed.

End CalcFinal.

(* ================= run-level histories ================= *)
Section CalcHist.
Variable md5 : N -> N.
Variable size_of : N -> Z.
Variable v : ver.
Hypothesis HA : fixA v = true.
Hypothesis HB : fixB v = true.

Notation inv := (db_reflects_ghost md5).
Notation executes := (executes md5 v).

Lemma cdef_plain_nord d : cdef_plain d = true -> nord (cd_def d).
Proof.
  unfold cdef_plain, nord. intros H src Hin. rewrite forallb_forall in H. specialize (H _ Hin). discriminate.
Qed.

Definition chinv (g : cstate) : Prop := inv (cs_s g) /\ forall t, nord (cd_def (cs_defs g t)).

Lemma cstep_inv g o :
  cop_ok size_of g o = true -> (match o with CSetDef _ d => cdef_plain d = true | _ => True end) -> chinv g -> chinv (cstep md5 size_of v g o).
Proof.
  intros Hok Hp [Hg Hn]. destruct o as [o|t d|sel failing]; simpl.
  - split; simpl; [|exact Hn]. apply (step_inv md5 size_of v HB); auto. destruct o; auto; discriminate.
  - split; simpl; [exact Hg|]. intros x. unfold upd. destruct (N.eqb x t); [apply cdef_plain_nord; exact Hp | apply Hn].
  - split; simpl; [|exact Hn].
    destruct (crun_acc_inv md5 size_of v HA HB (cs_defs g) (fun t => mem t failing) Hn crun_fuel (cs_s g) sel Hg) as (A & _).
    apply (ci_ghost _ _ _ _ A).
Qed.

Lemma crun_from_inv l : forall g, chist_ok_from md5 size_of v g l = true -> cops_plain l = true -> chinv g -> chinv (crun_from md5 size_of v g l).
Proof.
  induction l as [|o l IH]; intros g Hok Hp Hi; simpl in *; auto.
  apply andb_true_iff in Hok. destruct Hok as [O1 O2]. apply IH; auto.
  - destruct o; auto. apply andb_true_iff in Hp. tauto.
  - apply cstep_inv; auto. destruct o; auto. apply andb_true_iff in Hp. tauto.
Qed.

Lemma crun_inv l : chist_ok md5 size_of v l = true -> cops_plain l = true -> chinv (crun md5 size_of v l).
Proof.
  intros H Hp. apply crun_from_inv; auto. split; [apply init_inv | intros t src []].
Qed.

Lemma crun_snoc l o : crun md5 size_of v (l ++ [o]) = cstep md5 size_of v (crun md5 size_of v l) o.
Proof. unfold crun, crun_from. rewrite fold_left_app. reflexivity. Qed.

(* T1-T3 after any FS-fresh run-level history *)
Theorem calc_hist_handed_over l sel failing t :
  chist_ok md5 size_of v l = true -> cops_plain l = true ->
  let a := crun_after md5 size_of v l sel failing in
  (cfin_of (ca_fin a) t = Some 0 \/ cfin_of (ca_fin a) t = Some 2) -> ca_vals a t = get_values (s_db (ca_s a)) t.
Proof.
  intros Hok Hp a Ht. destruct (crun_inv l Hok Hp) as [Hg Hn].
  exact (calc_values_handed_over md5 size_of v HA HB _ _ Hn crun_fuel _ sel t Hg Ht).
Qed.

Theorem calc_hist_saved_dep_set l sel failing t :
  chist_ok md5 size_of v l = true -> cops_plain l = true ->
  let g := crun md5 size_of v l in
  let a := crun_after md5 size_of v l sel failing in
  ca_cyc a = false -> ca_fuel a = false -> cfin_of (ca_fin a) t = Some 0 ->
  let db1 := s_db (ca_s a) in
  let df := merged_with (get_values db1) (cs_defs g t) in
  s_defs (ca_s a) t = df /\ r_deps (getrec db1 t) = Some (file_dep df) /\ r_checker (getrec db1 t) = Some (s_ck (cs_s g)) /\
  (forall x, In x (file_dep df) <->
             In x (file_dep (cd_def (cs_defs g t))) \/
             exists p, In p (cd_calc (cs_defs g t)) /\ In x (calc_files (get_values db1 p))) /\
  (forall p, In p (cd_calc (cs_defs g t)) -> cfin_of (ca_fin a) p = Some 0 \/ cfin_of (ca_fin a) p = Some 2).
Proof.
  intros Hok Hp g a Hc Hf Ht. destruct (crun_inv l Hok Hp) as [Hg Hn].
  exact (calc_saved_dep_set md5 size_of v HA HB _ _ Hn crun_fuel _ sel t Hg (conj Hc Hf) Ht).
Qed.

Theorem calc_hist_second_look l sel failing t :
  chist_ok md5 size_of v l = true -> cops_plain l = true ->
  let g := crun md5 size_of v l in
  let a := crun_after md5 size_of v l sel failing in
  ca_cyc a = false -> ca_fuel a = false ->
  (cfin_of (ca_fin a) t = Some 0 \/ cfin_of (ca_fin a) t = Some 2) ->
  status_is_ignore (s_db (ca_s a)) t = false ->
  (forall x, In x (targets (cd_def (cs_defs g t))) -> exists_ (s_fs (cs_s g)) x = true) ->
  let s2 := set_def md5 size_of v (ca_s a) t (merged_with (get_values (s_db (ca_s a))) (cs_defs g t)) in
  s2 = ca_s a /\
  (executes s2 t false = false <-> items_ok (s_db s2) t (s_defs s2 t) /\ some_dep (s_db s2) t (s_defs s2 t)).
Proof.
  intros Hok Hp g a Hc Hf Ht Hig Htg. destruct (crun_inv l Hok Hp) as [Hg Hn].
  exact (calc_second_look md5 size_of v HA HB _ _ Hn crun_fuel _ sel t Hg (conj Hc Hf) Ht Hig Htg).
Qed.

(* the run repeated immediately, k+1 times *)
Theorem calc_hist_rerun_noop l sel :
  chist_ok md5 size_of v l = true -> cops_plain l = true ->
  let g := crun md5 size_of v l in
  let a1 := crun_after md5 size_of v l sel [] in
  let s1 := ca_s a1 in
  ca_cyc a1 = false -> ca_fuel a1 = false ->
  (forall t c, cfin_of (ca_fin a1) t = Some c -> c = 0 \/ c = 2) ->
  (forall t, cfin_of (ca_fin a1) t <> None -> status_is_ignore (s_db s1) t = false) ->
  (forall t x, cfin_of (ca_fin a1) t <> None -> In x (targets (cd_def (cs_defs g t))) -> exists_ (s_fs (cs_s g)) x = true) ->
  forall k,
  let ak := crun_after md5 size_of v (l ++ repeat (CRun sel []) (S k)) sel [] in
  (forall t c, cfin_of (ca_fin ak) t = Some c ->
     (c = 0 /\ cfin_of (ca_fin a1) t = Some 0 /\ executes s1 t false = true) \/
     (c = 2 /\ cfin_of (ca_fin a1) t <> None /\ executes s1 t false = false)) /\
  (forall t, cfin_of (ca_fin ak) t <> None <-> cfin_of (ca_fin a1) t <> None) /\
  ca_cyc ak = false /\ ca_fuel ak = false /\
  db_equiv (s_db (ca_s ak)) (s_db s1) /\
  (forall tasks files, db_z tasks files (s_db (ca_s ak)) = db_z tasks files (s_db s1)).
Proof.
  intros Hok Hp g a1 s1 Hcyc Hfuel Hcodes Hign Htg.
  destruct (crun_inv l Hok Hp) as [Hg Hn]. fold g in Hg, Hn.
  set (G := cs_defs g) in *.
  assert (Hcl : cclean a1) by (split; assumption).
  destruct (calc_first_settled md5 size_of v HA HB G Hn crun_fuel (cs_s g) sel Hg Hcl Hcodes Hign Htg) as [H1 Hsel].
  change (crun_acc md5 size_of v G (fun _ => false) crun_fuel (cs_s g) sel) with a1 in H1, Hsel. fold s1 in H1.
  set (U := cfinished a1) in *.
  assert (K : forall k, let gk := crun md5 size_of v (l ++ repeat (CRun sel []) (S k)) in
                        cs_defs gk = G /\ cnear md5 v U s1 (cs_s gk)).
  { induction k as [|k IHk]; cbv zeta.
    - change (repeat (CRun sel []) 1) with [CRun sel []]. rewrite crun_snoc. simpl. split; [reflexivity|].
      apply (cnear_refl md5 v G U s1 H1).
    - rewrite (repeat_snoc (CRun sel []) (S k)), app_assoc, crun_snoc. cbv zeta in IHk. destruct IHk as [Ed Hnr].
      set (gk := crun md5 size_of v (l ++ repeat (CRun sel []) (S k))) in *.
      simpl. split; [exact Ed|]. rewrite Ed.
      apply (calc_rerun_noop md5 size_of v HA HB G Hn crun_fuel (cs_s g) sel Hg Hcl Hcodes Hign Htg _ Hnr). }
  intros k ak.
  destruct (K k) as [Ed Hnr]. cbv zeta in Ed, Hnr.
  unfold ak, crun_after. rewrite Ed.
  destruct (calc_rerun_noop md5 size_of v HA HB G Hn crun_fuel (cs_s g) sel Hg Hcl Hcodes Hign Htg _ Hnr) as (R1 & R2 & [R3 R3'] & R4 & R5 & _).
  auto 10.
Qed.

End CalcHist.
