(* DelayedRunP.v -- the growing-table model (Model/Delayed.v): every task is executed at most once and gets at most one
   final report, for the serial runner and for every script of runner calls that follows the runner protocol
   (wf_script).  Invariants: RS (run_status <-> reports in the trace) and PS (position of a node's generator <->
   run_status), relative to a monitor of the runner protocol (which task was just yielded, which were selected
   for execution, which are executing).  Tasks created at run time and placeholder nodes reset to the created task
   included: ExecNode.reset_task happens while run_status is None. *)
From DoitV Require Import Base Dispatch Runner Delayed DelayedP DelayedStepP.
Open Scope N_scope.

(* ---------- counting events ---------- *)
Definition n_exec (k : name) (tr : list dev) : nat := length (filter (is_exec_of k) tr).
Definition n_fin (k : name) (tr : list dev) : nat := length (filter (is_final_of k) tr).
Definition is_good_of (k : name) (e : dev) : bool :=
  match e with Ev (ESuccess x) | Ev (ESkipUpToDate x) => N.eqb x k | _ => false end.
Definition good_in (k : name) (tr : list dev) : Prop := existsb (is_good_of k) tr = true.

Lemma n_exec_app k a b : n_exec k (a ++ b) = (n_exec k a + n_exec k b)%nat.
Proof. unfold n_exec. rewrite filter_app, app_length. reflexivity. Qed.
Lemma n_fin_app k a b : n_fin k (a ++ b) = (n_fin k a + n_fin k b)%nat.
Proof. unfold n_fin. rewrite filter_app, app_length. reflexivity. Qed.
Lemma good_in_app_l k a b : good_in k a -> good_in k (a ++ b).
Proof. unfold good_in. rewrite existsb_app. intros ->. reflexivity. Qed.
Lemma good_in_app_r k a b : good_in k b -> good_in k (a ++ b).
Proof. unfold good_in. rewrite existsb_app. intros ->. apply orb_true_r. Qed.
Lemma good_in_final k tr : good_in k tr -> final_in k tr.
Proof.
  unfold good_in, final_in. rewrite !existsb_exists. intros [e [H1 H2]]. exists e. split; auto.
  destruct e as [e| | | | |]; try discriminate. destruct e; try discriminate; exact H2.
Qed.

(* events that are neither an execution nor a final report *)
Definition neutral (es : list dev) : Prop := forall k, n_exec k es = 0%nat /\ n_fin k es = 0%nat.
Definition neutralb (e : dev) : bool :=
  match e with
  | Ev (EExecute _) | Ev (ESkipIgnore _) | Ev (ESkipUpToDate _) | Ev (ESuccess _) | Ev (EFailure _ _) => false
  | _ => true end.
Lemma neutral_of_b es : forallb neutralb es = true -> neutral es.
Proof.
  induction es as [|e es IH]; intros H k; [split; reflexivity|].
  simpl in H. apply andb_true_iff in H. destruct H as [H1 H2]. destruct (IH H2 k) as [A B].
  unfold n_exec, n_fin in *. simpl.
  destruct e as [e| | | | |]; simpl; auto. destruct e; simpl; auto; discriminate.
Qed.
Lemma neutral_nil : neutral [].
Proof. intro k. split; reflexivity. Qed.
Lemma neutral_app a b : neutral a -> neutral b -> neutral (a ++ b).
Proof. intros A B k. rewrite n_exec_app, n_fin_app. destruct (A k) as [-> ->]. destruct (B k) as [-> ->]. auto. Qed.
Lemma neutral_teardown l : neutral (map Ev (EClose :: map ETeardown l)).
Proof.
  apply neutral_of_b. simpl. induction l; simpl; auto.
Qed.
Lemma neutral_stop_marker s : neutral (stop_marker s).
Proof. apply neutral_of_b. destruct s; reflexivity. Qed.

(* ---------- the monitor of the runner protocol ---------- *)
Record mon := { m_sel : option name; m_torun : list name; m_running : list name }.
Definition mon0 : mon := {| m_sel := None; m_torun := []; m_running := [] |}.
Definition set_sel (m : mon) (o : option name) : mon := {| m_sel := o; m_torun := m_torun m; m_running := m_running m |}.
Definition sel_is (m : mon) (k : name) : bool := match m_sel m with Some x => N.eqb x k | None => false end.

Definition d_early (p : dpc) : bool :=
  match p with QStart | QLoop | QCalc _ _ _ | QTask _ _ | QSelf => true | _ => false end.
Definition d_in_setup (p : dpc) : bool := match p with QSetup _ | QSetupWaited => true | _ => false end.

(* not executed, not selected for execution, not executing *)
Definition fresh (d : dst) (m : mon) (k : name) : Prop :=
  n_exec k (q_tr d) = 0%nat /\ ~ In k (m_torun m) /\ ~ In k (m_running m).

Definition ps_core (pc : dpc) (st : status) (t : dtask) (F : Prop) (selme : bool) : Prop :=
  (d_early pc = true -> st = SNone) /\
  (d_in_setup pc = true -> st = SRun /\ F) /\
  (pc = QAfterSelf -> st = SRun -> is_nil (t_setup (dt t)) = false -> F) /\
  (pc = QAfterSelWait -> st = SRun -> F) /\
  (selme = true -> (pc = QAfterSelf /\ st = SNone) \/ (pc = QDone /\ st = SRun /\ F)) /\
  (pc = QAfterSelf -> st = SNone -> selme = true).
Definition ps_node (d : dst) (m : mon) (k : name) : Prop :=
  let nd := node_of d k in ps_core (dn_pc nd) (dn_st nd) (dn_task nd) (fresh d m k) (sel_is m k).

Definition is_good (s : status) : bool := match s with SSuccess | SUpToDate => true | _ => false end.

Record run_inv (d : dst) (m : mon) : Prop := {
  rs_fin0 : forall k, unfinished (st_of d k) = true -> n_fin k (q_tr d) = 0%nat;
  rs_fin1 : forall k, unfinished (st_of d k) = false -> n_fin k (q_tr d) = 1%nat;
  rs_none : forall k, st_of d k = SNone -> n_exec k (q_tr d) = 0%nat;
  rs_le : forall k, (n_exec k (q_tr d) <= 1)%nat;
  rs_torun : forall k, In k (m_torun m) -> st_of d k = SRun /\ n_exec k (q_tr d) = 0%nat;
  rs_running : forall k, In k (m_running m) -> st_of d k = SRun /\ ~ In k (m_torun m);
  rs_good : forall k, is_good (st_of d k) = true -> good_in k (q_tr d);
  rs_ps : forall k, ps_node d m k }.

(* what survives a dispatcher error *)
Definition wk (d : dst) : Prop := forall k, (n_exec k (q_tr d) <= 1)%nat /\ (n_fin k (q_tr d) <= 1)%nat.
Lemma run_inv_wk d m : run_inv d m -> wk d.
Proof.
  intros I k. split; [apply (rs_le _ _ I)|].
  destruct (unfinished (st_of d k)) eqn:E; [rewrite (rs_fin0 _ _ I k E) | rewrite (rs_fin1 _ _ I k E)]; lia.
Qed.
Lemma wk_neutral d d' es : q_tr d' = q_tr d ++ es -> neutral es -> wk d -> wk d'.
Proof.
  intros E Hn W k. rewrite E, n_exec_app, n_fin_app. destruct (Hn k) as [-> ->]. destruct (W k). lia.
Qed.

(* ---------- bookkeeping steps: position, status and task object of every node unchanged ---------- *)
Record bk (d d' : dst) : Prop := {
  bk_keep : keep d d';
  bk_pc : forall k, dn_pc (node_of d' k) = dn_pc (node_of d k);
  bk_st : forall k, dn_st (node_of d' k) = dn_st (node_of d k) }.
Lemma bk_refl d : bk d d.
Proof. constructor; auto. apply keep_refl. Qed.
Lemma bk_trans a b c : bk a b -> bk b c -> bk a c.
Proof.
  intros [] []. constructor; [eapply keep_trans; eauto| |]; intro k; congruence.
Qed.
Lemma bk_set_node d k nd : dn_task nd = dn_task (node_of d k) -> dn_pc nd = dn_pc (node_of d k) ->
  dn_st nd = dn_st (node_of d k) -> bk d (set_node d k nd).
Proof.
  intros H1 H2 H3. constructor; [apply keep_set_node; exact H1| |]; intro x; rewrite node_of_set_node;
    destruct (N.eqb_spec x k) as [->|]; auto.
Qed.
Lemma bk_same d d' : (forall k, node_of d' k = node_of d k) -> q_tab d' = q_tab d -> q_ld d' = q_ld d -> q_tg d' = q_tg d ->
  q_rxg d' = q_rxg d -> q_grp d' = q_grp d -> q_tr d' = q_tr d -> bk d d'.
Proof. intros Hn. intros. constructor; [constructor; auto; intro k; rewrite Hn; reflexivity| |]; intro k; rewrite Hn; reflexivity. Qed.
Lemma bk_set_ready d r : bk d (set_ready d r). Proof. apply bk_same; auto. Qed.
Lemma bk_set_waiting d r : bk d (set_waiting d r). Proof. apply bk_same; auto. Qed.
Lemma bk_set_torun d r : bk d (set_torun d r). Proof. apply bk_same; auto. Qed.
Lemma bk_set_cur d r : bk d (set_cur d r). Proof. apply bk_same; auto. Qed.

Lemma parent_status_pc nd x s : dn_pc (parent_status nd x s) = dn_pc nd.
Proof. destruct s; reflexivity. Qed.
Lemma parent_status_st nd x s : dn_st (parent_status nd x s) = dn_st nd.
Proof. destruct s; reflexivity. Qed.
Lemma process_calc_pc nd ct s : dn_pc (process_calc nd ct s) = dn_pc nd.
Proof. unfold process_calc. destruct (calc_values_visible s); reflexivity. Qed.
Lemma process_calc_st nd ct s : dn_st (process_calc nd ct s) = dn_st nd.
Proof. unfold process_calc. destruct (calc_values_visible s); reflexivity. Qed.

Lemma bk_gen_node d pa k : bk d (snd (gen_node d pa k)).
Proof.
  unfold gen_node. destruct (q_nodes d k) eqn:E.
  - destruct pa as [a|]; [destruct (mem k a)|]; apply bk_refl.
  - simpl. apply bk_set_node; unfold node_of; rewrite E; reflexivity.
Qed.
Lemma bk_add_wait_one d me x calc : bk d (add_wait_one d me x calc).
Proof.
  unfold add_wait_one. destruct (unfinished (st_of d x)).
  - set (d1 := set_node d x _).
    assert (H1 : bk d d1) by (apply bk_set_node; reflexivity).
    eapply bk_trans; [exact H1|]. apply bk_set_node; destruct calc; reflexivity.
  - apply bk_set_node; destruct calc;
      rewrite ?process_calc_task, ?process_calc_pc, ?process_calc_st, ?parent_status_task, ?parent_status_pc, ?parent_status_st; reflexivity.
Qed.
Lemma bk_add_wait_run l : forall d me calc, bk d (add_wait_run d me l calc).
Proof.
  induction l as [|x r IH]; intros; cbn [add_wait_run]; [apply bk_refl|].
  eapply bk_trans; [apply bk_add_wait_one | apply IH].
Qed.
Lemma wake_node_pc nd fin ft s : dn_pc (wake_node nd fin ft s) = dn_pc nd.
Proof.
  unfold wake_node. destruct (mem fin (dn_wcalc nd)); rewrite ?process_calc_pc; simpl; apply parent_status_pc.
Qed.
Lemma wake_node_st' nd fin ft s : dn_st (wake_node nd fin ft s) = dn_st nd.
Proof.
  unfold wake_node. destruct (mem fin (dn_wcalc nd)); rewrite ?process_calc_st; simpl; apply parent_status_st.
Qed.
Lemma bk_wake_one d fin ft s w : bk d (wake_one d fin ft s w).
Proof.
  unfold wake_one.
  assert (H : bk d (set_node d w (wake_node (node_of d w) fin ft s)))
    by (apply bk_set_node; [apply wake_node_task | apply wake_node_pc | apply wake_node_st']).
  destruct (_ && _); auto.
  eapply bk_trans; [exact H|]. eapply bk_trans; [apply bk_set_ready | apply bk_set_waiting].
Qed.
Lemma bk_wake l : forall d fin ft s, bk d (wake d fin ft s l).
Proof.
  induction l as [|w r IH]; intros; cbn [wake]; [apply bk_refl|].
  eapply bk_trans; [apply bk_wake_one | apply IH].
Qed.
Lemma bk_update_waiting wr d p : bk d (update_waiting wr d p).
Proof.
  destruct p as [p|]; cbn [update_waiting]; [|apply bk_refl].
  set (d1 := if dn_wsel (node_of d p) then _ else d).
  assert (H1 : bk d d1).
  { unfold d1. destruct (dn_wsel (node_of d p)); [|apply bk_refl].
    set (d0 := set_node d p _).
    assert (H0 : bk d d0) by (apply bk_set_node; reflexivity).
    eapply bk_trans; [exact H0|].
    eapply bk_trans; [apply bk_set_ready | apply bk_set_waiting]. }
  destruct (dn_st (node_of d p)); auto; (eapply bk_trans; [exact H1 | apply bk_wake]).
Qed.
Lemma bk_next_from_torun l : forall d, bk d (snd (next_from_torun d l)).
Proof.
  induction l as [|y r IH]; intros d; cbn [next_from_torun]; [apply bk_set_torun|].
  pose proof (bk_gen_node d None y) as Hg.
  destruct (gen_node d None y) as [g d1]; simpl in Hg.
  destruct g; simpl; try (eapply bk_trans; [exact Hg | apply IH]).
  eapply bk_trans; [exact Hg | apply bk_set_torun].
Qed.

(* ---------- frame of a dispatcher step of node [me] ---------- *)
Record fr (me : name) (d d' : dst) : Prop := {
  fr_tr : exists es, q_tr d' = q_tr d ++ es /\ neutral es;
  fr_st : forall k, dn_st (node_of d' k) = dn_st (node_of d k);
  fr_pc : forall k, k <> me -> dn_pc (node_of d' k) = dn_pc (node_of d k);
  fr_task : forall k, k <> me -> dn_pc (node_of d k) <> QStart -> dn_task (node_of d' k) = dn_task (node_of d k) }.

Lemma fr_bk_set d d1 me nd' : bk d d1 -> dn_st nd' = dn_st (node_of d me) -> fr me d (set_node d1 me nd').
Proof.
  intros [K P S] Hs. constructor.
  - exists []. rewrite app_nil_r. split; [simpl; apply (k_tr _ _ K) | apply neutral_nil].
  - intro k. rewrite node_of_set_node. destruct (N.eqb_spec k me) as [->|]; [exact Hs | apply S].
  - intros k Hk. rewrite node_of_set_other by auto. apply P.
  - intros k Hk _. rewrite node_of_set_other by auto. apply (k_task _ _ K).
Qed.

Lemma fresh_tr d d' m k es : q_tr d' = q_tr d ++ es -> neutral es -> fresh d m k -> fresh d' m k.
Proof.
  intros E Hn (A & B & C). split; [|split; auto]. rewrite E, n_exec_app, A. apply (Hn k).
Qed.
Lemma fresh_sel d m o k : fresh d (set_sel m o) k <-> fresh d m k.
Proof. unfold fresh. simpl. tauto. Qed.

Lemma ps_core_imp pc st t (F G : Prop) b : (F -> G) -> ps_core pc st t F b -> ps_core pc st t G b.
Proof. unfold ps_core. intros H (A & B & C & D & E & E'). intuition. Qed.

(* the step of node me: every other node keeps its place; the monitor may learn that me was just yielded *)
Lemma run_inv_fr d d' m me o : run_inv d m -> m_sel m = None -> fr me d d' ->
  (o = None \/ o = Some me) ->
  ps_core (dn_pc (node_of d' me)) (dn_st (node_of d' me)) (dn_task (node_of d' me)) (fresh d m me)
          (match o with Some _ => true | None => false end) ->
  run_inv d' (set_sel m o).
Proof.
  intros I Hsel [[es [Et Hn]] Hst Hpc Htask] Ho Hme.
  assert (St : forall k, st_of d' k = st_of d k) by (intro k; apply Hst).
  assert (Nx : forall k, n_exec k (q_tr d') = n_exec k (q_tr d)) by (intro k; rewrite Et, n_exec_app; destruct (Hn k) as [-> _]; lia).
  assert (Nf : forall k, n_fin k (q_tr d') = n_fin k (q_tr d)) by (intro k; rewrite Et, n_fin_app; destruct (Hn k) as [_ ->]; lia).
  constructor; cbn [set_sel m_torun m_running].
  - intros k H. rewrite St in H. rewrite Nf. apply (rs_fin0 _ _ I); auto.
  - intros k H. rewrite St in H. rewrite Nf. apply (rs_fin1 _ _ I); auto.
  - intros k H. rewrite St in H. rewrite Nx. apply (rs_none _ _ I); auto.
  - intro k. rewrite Nx. apply (rs_le _ _ I).
  - intros k H. rewrite St, Nx. apply (rs_torun _ _ I); auto.
  - intros k H. rewrite St. apply (rs_running _ _ I); auto.
  - intros k H. rewrite St in H. rewrite Et. apply good_in_app_l. apply (rs_good _ _ I); auto.
  - intro k. unfold ps_node. destruct (N.eqb_spec k me) as [->|Hne].
    + assert (Es : sel_is (set_sel m o) me = match o with Some _ => true | None => false end).
      { unfold sel_is. simpl. destruct Ho as [->| ->]; [reflexivity | apply N.eqb_refl]. }
      rewrite Es. eapply ps_core_imp; [|exact Hme]. intro F. apply fresh_sel. eapply fresh_tr; eauto.
    + assert (Es : sel_is (set_sel m o) k = false).
      { unfold sel_is. simpl. destruct Ho as [->| ->]; [reflexivity | apply N.eqb_neq; auto]. }
      rewrite Es. pose proof (rs_ps _ _ I k) as Pk. unfold ps_node in Pk.
      rewrite Hst, Hpc by auto.
      assert (Hf : fresh d m k -> fresh d' (set_sel m o) k) by (intro F; apply fresh_sel; eapply fresh_tr; eauto).
      destruct Pk as (A & B & C & D & E & E'). unfold ps_core.
      split; [exact A|]. split; [intro H; destruct (B H); auto|].
      split; [|split; [intros H1 H2; apply Hf; auto | split; [discriminate|]]]; [|intros H1 H2; specialize (E' H1 H2); unfold sel_is in E'; rewrite Hsel in E'; exact E'].
      intros H1 H2 H3. apply Hf. apply C; auto. rewrite <- Htask; auto. rewrite H1. discriminate.
Qed.

Lemma bk_run_inv d d' m : bk d d' -> run_inv d m -> run_inv d' m.
Proof.
  intros [K P S] I.
  assert (Et : q_tr d' = q_tr d) by apply (k_tr _ _ K).
  assert (St : forall k, st_of d' k = st_of d k) by (intro k; apply S).
  constructor; try (intros k; rewrite ?St, ?Et; apply I).
  intro k. pose proof (rs_ps _ _ I k) as Pk. unfold ps_node in *. rewrite P, S, (k_task _ _ K).
  eapply ps_core_imp; [|exact Pk]. unfold fresh. rewrite Et. auto.
Qed.

(* ---------- the loader branch ---------- *)
Lemma tr_step_neutral v d me T tr' : tr_step v d me T tr' -> exists es, tr' = q_tr d ++ es /\ neutral es.
Proof.
  intros [->|(T' & t & _ & _ & ->)].
  - exists []. rewrite app_nil_r. split; [reflexivity | apply neutral_nil].
  - eexists. split; [reflexivity|]. apply neutral_of_b. reflexivity.
Qed.

Lemma reset_node_other d d5 k : q_nodes d5 = q_nodes d ->
  dn_pc (node_of d5 k) = dn_pc (node_of d k) /\ dn_st (node_of d5 k) = dn_st (node_of d k) /\
  (dn_pc (node_of d k) <> QStart -> node_of d5 k = node_of d k).
Proof.
  intro H. unfold node_of. rewrite H. destruct (q_nodes d k); simpl; auto. repeat split; auto. intro X. contradiction.
Qed.

Lemma fr_load_reset v keys creators d me T d' :
  load_branch v keys creators d me T = LReset d' ->
  fr me d d' /\ dn_pc (node_of d' me) = QStart /\ dn_st (node_of d' me) = dn_st (node_of d me).
Proof.
  intro H. destruct (load_branch_reset _ _ _ _ _ _ _ H) as [d5 [Eq Nd Rx Ld RT Tab Me Tr Mk]]. subst d'.
  split; [constructor|].
  - exact (tr_step_neutral _ _ _ _ _ Tr).
  - intro k. rewrite node_of_set_node. destruct (N.eqb_spec k me) as [->|]; simpl;
      apply (reset_node_other d d5 _ Nd).
  - intros k Hk. rewrite node_of_set_other by auto. apply (reset_node_other d d5 _ Nd).
  - intros k Hk Hq. rewrite node_of_set_other by auto.
    destruct (reset_node_other d d5 k Nd) as (_ & _ & E). rewrite E; auto.
  - rewrite node_of_set_same. simpl. split; [reflexivity|]. apply (reset_node_other d d5 _ Nd).
Qed.

(* ---------- one step of a node's generator ---------- *)
Section Disp.
Variable v : variant.
Variable keys : list name.
Variable creators : N -> name -> list (name * dtask).
Variable wake_rank : name -> name -> N.
Variable calc_rank : name -> N.

Definition gq (m : mon) (me : name) (y : gyield) (d' : dst) : Prop :=
  match y with
  | YSelf => run_inv d' (set_sel m (Some me))
  | YInvalidTask | YNotFound _ | YKeyError => wk d'
  | _ => run_inv d' m end.

Lemma set_sel_None m : m_sel m = None -> set_sel m None = m.
Proof. destruct m; simpl. intros ->. reflexivity. Qed.

Ltac ps_tac := unfold ps_core in *; simpl in *; intuition (try discriminate; try congruence).

(* a transition whose result is [set_node d1 me nd'] with d1 a bookkeeping successor of d *)
Lemma step_me d d1 me nd' m o : run_inv d m -> m_sel m = None -> bk d d1 ->
  dn_st nd' = dn_st (node_of d me) -> dn_task nd' = dn_task (node_of d me) ->
  (o = None \/ o = Some me) ->
  ps_core (dn_pc nd') (dn_st (node_of d me)) (dn_task (node_of d me)) (fresh d m me) (match o with Some _ => true | None => false end) ->
  run_inv (set_node d1 me nd') (set_sel m o).
Proof.
  intros I Hs B Hst Htk Ho Hc. eapply run_inv_fr; eauto.
  - apply fr_bk_set; auto.
  - rewrite node_of_set_same, Hst, Htk. exact Hc.
Qed.

Lemma gstep_inv m me d oy d' : m_sel m = None -> run_inv d m -> gstep v keys creators calc_rank me d oy d' ->
  match oy with None => run_inv d' m | Some y => gq m me y d' end.
Proof.
  intros Hs I G. pose proof (rs_ps _ _ I me) as Pm. unfold ps_node in Pm.
  assert (Sf : sel_is m me = false) by (unfold sel_is; rewrite Hs; reflexivity). rewrite Sf in Pm.
  assert (Silent : forall d1 nd', bk d d1 -> dn_st nd' = dn_st (node_of d me) -> dn_task nd' = dn_task (node_of d me) ->
     ps_core (dn_pc nd') (dn_st (node_of d me)) (dn_task (node_of d me)) (fresh d m me) false ->
     run_inv (set_node d1 me nd') m).
  { intros d1 nd' B H1 H2 H3. rewrite <- (set_sel_None m Hs). eapply step_me; eauto. }
  assert (Pc : forall d1 p, bk d d1 ->
     ps_core p (dn_st (node_of d me)) (dn_task (node_of d me)) (fresh d m me) false -> run_inv (set_pc d1 me p) m).
  { intros d1 p B H. unfold set_pc. destruct B as [K P S]. apply Silent; simpl; auto.
    - constructor; auto.
    - apply (k_task _ _ K). }
  assert (Sel : forall d1 p, bk d d1 ->
     ps_core p (dn_st (node_of d me)) (dn_task (node_of d me)) (fresh d m me) true -> run_inv (set_pc d1 me p) (set_sel m (Some me))).
  { intros d1 p B H. unfold set_pc. destruct B as [K P S]. eapply step_me; eauto; simpl; auto.
    - constructor; auto.
    - apply (k_task _ _ K). }
  destruct G; cbn [gq].
  - (* start_skip *) apply Pc; [apply bk_refl|]. rewrite H in Pm. ps_tac.
  - apply Pc; [apply bk_refl|]. rewrite H in Pm. ps_tac.
  - (* loop *) apply Silent; [apply bk_refl|reflexivity|reflexivity|]. rewrite H in Pm. ps_tac.
  - (* calc_nil *) apply Pc; [apply bk_add_wait_run|]. rewrite H in Pm. ps_tac.
  - (* walk_cycle *) exact I.
  - (* walk_new *)
    apply Pc; [change d1 with (snd (GNew, d1)); rewrite <- H0; apply bk_gen_node|].
    destruct (dn_pc (node_of d me)) as [| |[|? ?] ? ?|[|? ?] ?| | | |[|? ?]| |]; try discriminate; inversion H; subst; ps_tac.
  - (* walk_old *)
    apply Pc; [change d1 with (snd (GOld, d1)); rewrite <- H0; apply bk_gen_node|].
    destruct (dn_pc (node_of d me)) as [| |[|? ?] ? ?|[|? ?] ?| | | |[|? ?]| |]; try discriminate; inversion H; subst; ps_tac.
  - (* task_again *) apply Pc; [apply bk_add_wait_run|]. rewrite H in Pm. ps_tac.
  - (* task_wait *) apply Pc; [apply bk_add_wait_run|]. rewrite H in Pm. ps_tac.
  - (* task_reset *)
    assert (B1 : bk d d1) by apply bk_add_wait_run.
    assert (I1 : run_inv d1 m) by (eapply bk_run_inv; eauto).
    destruct (fr_load_reset _ _ _ _ _ _ _ H3) as (F & Ep & Es).
    rewrite <- (set_sel_None m Hs). eapply run_inv_fr; eauto.
    rewrite Ep, Es. destruct B1 as [K P S]. rewrite S. rewrite H in Pm. ps_tac.
  - (* task_err *)
    assert (B1 : bk d d1) by apply bk_add_wait_run.
    assert (W1 : wk d1) by (eapply run_inv_wk, bk_run_inv; eauto).
    pose proof (load_branch_error v keys creators d1 me T) as He. rewrite H3 in He.
    destruct l as [d2|d2|f d2|d2]; [discriminate| | |]; simpl;
      destruct (tr_step_neutral _ _ _ _ _ He) as [es [E Hn]]; eapply wk_neutral; eauto.
  - (* task_self *) apply Pc; [apply bk_add_wait_run|]. rewrite H in Pm. ps_tac.
  - (* self *) apply Sel; [apply bk_refl|]. rewrite H in Pm. ps_tac.
  - (* after_nosetup *) apply Pc; [apply bk_refl|]. rewrite H in Pm. ps_tac.
  - (* after_none *) apply Silent; [apply bk_refl|reflexivity|reflexivity|]. rewrite H in Pm. ps_tac.
  - (* after_st *) apply Pc; [apply bk_refl|]. rewrite H in Pm. ps_tac.
  - (* asw_run *) apply Pc; [apply bk_refl|]. rewrite H in Pm. ps_tac.
  - (* asw_end *) apply Pc; [apply bk_refl|]. rewrite H in Pm. ps_tac.
  - (* setup_self *) apply Sel; [apply bk_add_wait_run|]. rewrite H in Pm. ps_tac.
  - (* setup_wait *) apply Pc; [apply bk_add_wait_run|]. rewrite H in Pm. ps_tac.
  - (* waited *) apply Sel; [apply bk_refl|]. rewrite H in Pm. ps_tac.
  - (* done *) exact I.
Qed.

Definition dq (m : mon) (y : dyield) (d' : dst) : Prop :=
  match y with
  | DTask k => run_inv d' (set_sel m (Some k))
  | DInvalidTask | DNotFound _ | DKeyError => wk d'
  | _ => run_inv d' m end.

Lemma gen_step_inv m me f d : m_sel m = None -> run_inv d m ->
  gq m me (fst (gen_step v keys creators calc_rank f d me)) (snd (gen_step v keys creators calc_rank f d me)).
Proof.
  intros Hs I.
  apply (gen_step_ind v keys creators calc_rank (fun d => run_inv d m) (gq m me) me); auto.
  - intros d0 d' I0 G. exact (gstep_inv m me d0 None d' Hs I0 G).
  - intros d0 y d' I0 G. exact (gstep_inv m me d0 (Some y) d' Hs I0 G).
Qed.

Lemma disp_run_inv m fuel d : m_sel m = None -> run_inv d m ->
  dq m (fst (disp_run v keys creators calc_rank fuel d)) (snd (disp_run v keys creators calc_rank fuel d)).
Proof.
  intros Hs I.
  apply (disp_run_ind v keys creators calc_rank (fun d => run_inv d m) (dq m)); auto.
  - intros d0 x r I0 _ _. eapply bk_run_inv; [|exact I0]. eapply bk_trans; [apply bk_set_ready | apply bk_set_cur].
  - intros d0 I0 _ _. pose proof (bk_next_from_torun (q_torun d0) d0) as B.
    destruct (next_from_torun d0 (q_torun d0)) as [[x|] d1]; simpl in B.
    + eapply bk_run_inv; [|exact I0]. eapply bk_trans; [exact B | apply bk_set_cur].
    + destruct (is_nil (q_waiting d1)); simpl; eapply bk_run_inv; eauto.
  - intros d0 me f I0 _. cbv zeta. pose proof (gen_step_inv m me f d0 Hs I0) as G.
    destruct (gen_step v keys creators calc_rank f d0 me) as [y d1]. cbn [fst snd] in *.
    destruct y; cbn [gq dq] in *; auto.
    + eapply bk_run_inv; [|exact G]. apply bk_set_ready.
    + eapply bk_run_inv; [|exact G]. eapply bk_trans; [apply bk_set_waiting | apply bk_set_cur].
    + eapply bk_run_inv; [|exact G]. apply bk_set_cur.
Qed.

Lemma disp_send_inv m fuel d p : m_sel m = None -> run_inv d m ->
  dq m (fst (disp_send v keys creators wake_rank calc_rank fuel d p)) (snd (disp_send v keys creators wake_rank calc_rank fuel d p)).
Proof.
  intros Hs I. unfold disp_send. apply disp_run_inv; auto. eapply bk_run_inv; [apply bk_update_waiting | exact I].
Qed.
End Disp.

(* ---------- what a runner call does to the state: one node's status, runner events ---------- *)
Definition nodes_kept (d d' : dst) : Prop := forall z, q_nodes d z <> None -> q_nodes d' z <> None.
Lemma nodes_kept_set d k nd : nodes_kept d (set_node d k nd).
Proof. intros z H. simpl. unfold upd. destruct (N.eqb z k); [discriminate | exact H]. Qed.
Lemma nodes_kept_trans a b c : nodes_kept a b -> nodes_kept b c -> nodes_kept a c.
Proof. intros H1 H2 z H. auto. Qed.
Lemma nodes_kept_refl a : nodes_kept a a.
Proof. intros z H. exact H. Qed.

Record reff (d : dst) (k : name) (s : status) (es : list event) (d' : dst) : Prop := {
  re_tr : q_tr d' = q_tr d ++ map Ev es;
  re_node : forall x, node_of d' x = if N.eqb x k then nd_st (node_of d k) s else node_of d x;
  re_q : q_ready d' = q_ready d /\ q_waiting d' = q_waiting d /\ q_cur d' = q_cur d /\ q_torun d' = q_torun d;
  re_tab : q_tab d' = q_tab d;
  re_kept : nodes_kept d d' }.

Lemma nd_st_id nd : nd_st nd (dn_st nd) = nd.
Proof. destruct nd; reflexivity. Qed.

Lemma reff_set d k s : reff d k s [] (set_status d k s).
Proof.
  constructor; simpl; auto.
  - rewrite app_nil_r. reflexivity.
  - intro x. unfold set_status. apply node_of_set_node.
  - apply nodes_kept_set.
Qed.
Lemma reff_emit d k s es d' e0 : reff (emitd d (map Ev e0)) k s es d' -> reff d k s (e0 ++ es) d'.
Proof.
  intros [A B C D K]. constructor; auto.
  rewrite A. simpl. rewrite map_app, app_assoc. reflexivity.
Qed.
Lemma reff_post d k s es d' e1 : reff d k s es d' -> reff d k s (es ++ e1) (emitd d' (map Ev e1)).
Proof.
  intros [A B C D K]. constructor; auto.
  simpl. rewrite A, map_app, app_assoc. reflexivity.
Qed.
Lemma reff_pre_status d k s1 s es d' : reff (set_status d k s1) k s es d' -> reff d k s es d'.
Proof.
  intros [A B C D K]. constructor; auto.
  - intro x. rewrite B. unfold set_status. rewrite !node_of_set_node.
    destruct (N.eqb_spec x k) as [->|]; [rewrite N.eqb_refl|]; reflexivity.
  - eapply nodes_kept_trans; [apply nodes_kept_set | exact K].
Qed.
Lemma reff_id d k : reff d k (dn_st (node_of d k)) [] d.
Proof.
  constructor; auto.
  - simpl. rewrite app_nil_r. reflexivity.
  - intro x. destruct (N.eqb_spec x k) as [->|]; [rewrite nd_st_id|]; reflexivity.
  - apply nodes_kept_refl.
Qed.
Lemma reff_status_emit d k s es : reff d k s es (emitd (set_status d k s) (map Ev es)).
Proof. apply (reff_post d k s [] _ es). apply reff_set. Qed.

Definition ev_about (k : name) (s : status) (es : list event) : Prop :=
  (forall x, n_exec x (map Ev es) = 0%nat) /\ (forall x, x <> k -> n_fin x (map Ev es) = 0%nat) /\
  n_fin k (map Ev es) = (if unfinished s then 0%nat else 1%nat) /\ (is_good s = true -> good_in k (map Ev es)).

Lemma eqb_ne a b : a <> b -> N.eqb b a = false.
Proof. intro H. apply N.eqb_neq. auto. Qed.

Ltac about_tac k :=
  unfold ev_about, n_exec, n_fin, good_in; simpl; rewrite ?N.eqb_refl; simpl;
  repeat split; try reflexivity; try discriminate;
  try (intros x Hx; rewrite ?(eqb_ne x k Hx); reflexivity).

Inductive sel_out (nd : dnode) (k : name) : bool -> status -> list event -> Prop :=
| SO_ign0 : dn_st nd = SNone -> sel_out nd k false SIgnore [EGetStatus k; ESkipIgnore k]
| SO_fail0 kind : dn_st nd = SNone -> sel_out nd k false SFailure [EGetStatus k; ERemove k; EFailure k kind]
| SO_utd0 : dn_st nd = SNone -> sel_out nd k false SUpToDate [EGetStatus k; ESkipUpToDate k]
| SO_run_setup : dn_st nd = SNone -> is_nil (t_setup (dt (dn_task nd))) = false -> dn_ign nd = [] -> dn_bad nd = [] ->
    sel_out nd k false SRun [EGetStatus k]
| SO_run_go : dn_st nd = SNone -> is_nil (t_setup (dt (dn_task nd))) = true -> dn_ign nd = [] -> dn_bad nd = [] ->
    sel_out nd k true SRun [EGetStatus k]
| SO_ign1 : dn_st nd <> SNone -> sel_out nd k false SIgnore [ESkipIgnore k]
| SO_fail1 kind : dn_st nd <> SNone -> sel_out nd k false SFailure [ERemove k; EFailure k kind]
| SO_go1 : dn_st nd <> SNone -> dn_ign nd = [] -> dn_bad nd = [] -> sel_out nd k true (dn_st nd) [].

Lemma sel_out_about nd k b s es : sel_out nd k b s es -> unfinished (dn_st nd) = true -> ev_about k s es /\ s <> SNone.
Proof.
  intros H U. destruct H; try (split; [about_tac k | discriminate]).
  split; [|auto]. unfold ev_about, n_exec, n_fin, good_in. simpl. rewrite U.
  repeat split; auto. destruct (dn_st nd); try discriminate.
Qed.

Section RunnerOps.
Variable continue_ always : bool.
Notation select_task := (select_task continue_ always).
Notation process_result := (process_result continue_).

Lemma negb_nil_false {A} (l : list A) : negb (is_nil l) = false -> l = [].
Proof. destruct l; simpl; [reflexivity | discriminate]. Qed.

Lemma select_task_out r k : exists s es,
  sel_out (node_of (r_d r) k) k (fst (select_task r k)) s es /\ reff (r_d r) k s es (r_d (snd (select_task r k))).
Proof.
  unfold Delayed.select_task. set (nd := node_of (r_d r) k). set (d := r_d r).
  assert (HE : forall kind, reff d k SFailure [ERemove k; EFailure k kind] (r_d (handle_error continue_ r k kind))).
  { intro kind. apply (reff_status_emit d k SFailure [ERemove k; EFailure k kind]). }
  assert (Second : dn_st nd <> SNone -> exists s es,
     sel_out nd k (fst (if negb (is_nil (dn_ign nd))
                        then (false, emit (with_d r (set_status (r_d r) k SIgnore)) [ESkipIgnore k])
                        else if negb (is_nil (dn_bad nd)) then (false, handle_error continue_ r k kind_unmet)
                        else get_args continue_ r k)) s es /\
     reff d k s es (r_d (snd (if negb (is_nil (dn_ign nd))
                              then (false, emit (with_d r (set_status (r_d r) k SIgnore)) [ESkipIgnore k])
                              else if negb (is_nil (dn_bad nd)) then (false, handle_error continue_ r k kind_unmet)
                              else get_args continue_ r k)))).
  { intro Hn. destruct (negb (is_nil (dn_ign nd))) eqn:Ei; cbn [fst snd].
    { exists SIgnore, [ESkipIgnore k]. split; [apply SO_ign1; exact Hn|].
      apply (reff_status_emit d k SIgnore [ESkipIgnore k]). }
    apply negb_nil_false in Ei.
    destruct (negb (is_nil (dn_bad nd))) eqn:Eb; cbn [fst snd].
    { exists SFailure, [ERemove k; EFailure k kind_unmet]. split; [apply SO_fail1; exact Hn | apply HE]. }
    apply negb_nil_false in Eb.
    unfold get_args. destruct (t_argerr _); cbn [fst snd].
    - exists SFailure, [ERemove k; EFailure k kind_dep]. split; [apply SO_fail1; exact Hn | apply HE].
    - exists (dn_st nd), []. split; [apply SO_go1; auto | apply reff_id]. }
  destruct (dn_st nd) eqn:Est; try (apply Second; discriminate).
  - (* SNone *)
    set (r1 := emit r [EGetStatus k]).
    assert (HE1 : forall kind, reff d k SFailure [EGetStatus k; ERemove k; EFailure k kind] (r_d (handle_error continue_ r1 k kind))).
    { intro kind. apply (reff_emit d k SFailure [ERemove k; EFailure k kind] _ [EGetStatus k]).
      apply (reff_status_emit (emitd d (map Ev [EGetStatus k])) k SFailure [ERemove k; EFailure k kind]). }
    destruct (negb (is_nil (dn_ign nd)) || t_dbignore (task_of r k)) eqn:Ei; cbn [fst snd].
    { exists SIgnore, [EGetStatus k; ESkipIgnore k]. split; [apply SO_ign0; exact Est|].
      apply (reff_emit d k SIgnore [ESkipIgnore k] _ [EGetStatus k]).
      apply (reff_status_emit (emitd d (map Ev [EGetStatus k])) k SIgnore [ESkipIgnore k]). }
    apply orb_false_iff in Ei. destruct Ei as [Ei _]. apply negb_nil_false in Ei.
    destruct (negb (is_nil (dn_bad nd))) eqn:Eb; cbn [fst snd].
    { exists SFailure, [EGetStatus k; ERemove k; EFailure k kind_unmet]. split; [apply SO_fail0; exact Est | apply HE1]. }
    apply negb_nil_false in Eb.
    assert (Run : exists s es,
      sel_out nd k (fst (if is_nil (t_setup (task_of r k)) then get_args continue_ (with_d r1 (set_status (r_d r1) k SRun)) k
                         else (false, with_d r1 (set_status (r_d r1) k SRun)))) s es /\
      reff d k s es (r_d (snd (if is_nil (t_setup (task_of r k)) then get_args continue_ (with_d r1 (set_status (r_d r1) k SRun)) k
                               else (false, with_d r1 (set_status (r_d r1) k SRun)))))).
    { assert (R2 : reff d k SRun [EGetStatus k] (set_status (r_d r1) k SRun)).
      { apply (reff_emit d k SRun [] _ [EGetStatus k]). apply reff_set. }
      destruct (is_nil (t_setup (task_of r k))) eqn:Es; cbn [fst snd].
      - unfold get_args. destruct (t_argerr _); cbn [fst snd].
        + exists SFailure, [EGetStatus k; ERemove k; EFailure k kind_dep]. split; [apply SO_fail0; exact Est|].
          apply (reff_emit d k SFailure [ERemove k; EFailure k kind_dep] _ [EGetStatus k]).
          apply (reff_pre_status _ k SRun).
          apply (reff_status_emit (set_status (emitd d (map Ev [EGetStatus k])) k SRun) k SFailure [ERemove k; EFailure k kind_dep]).
        + exists SRun, [EGetStatus k]. split; [apply SO_run_go; auto | exact R2].
      - exists SRun, [EGetStatus k]. split; [apply SO_run_setup; auto | exact R2]. }
    destruct (t_check (task_of r k)); cbn [fst snd].
    + destruct always; exact Run.
    + destruct always; cbn [fst snd]; [exact Run|].
      exists SUpToDate, [EGetStatus k; ESkipUpToDate k]. split; [apply SO_utd0; exact Est|].
      apply (reff_emit d k SUpToDate [ESkipUpToDate k] _ [EGetStatus k]).
      apply (reff_status_emit (emitd d (map Ev [EGetStatus k])) k SUpToDate [ESkipUpToDate k]).
    + exists SFailure, [EGetStatus k; ERemove k; EFailure k kind_dep]. split; [apply SO_fail0; exact Est | apply HE1].
Qed.

Lemma process_result_out r k :
  r_d (process_result r k) = r_d r \/
  exists s es, reff (r_d r) k s es (r_d (process_result r k)) /\ unfinished s = false /\ ev_about k s es.
Proof.
  unfold Delayed.process_result. destruct (t_outcome (task_of r k)).
  - right. exists SSuccess, [ESave k; ESuccess k]. split; [apply reff_status_emit|]. split; [reflexivity | about_tac k].
  - right. exists SFailure, [ERemove k; EFailure k kind_failed]. split; [apply (reff_status_emit (r_d r) k SFailure [ERemove k; EFailure k kind_failed])|].
    split; [reflexivity | about_tac k].
  - right. exists SFailure, [ERemove k; EFailure k kind_error]. split; [apply (reff_status_emit (r_d r) k SFailure [ERemove k; EFailure k kind_error])|].
    split; [reflexivity | about_tac k].
  - right. exists SFailureV, [ERemove k; EFailure k kind_dep]. split; [apply (reff_status_emit (r_d r) k SFailureV [ERemove k; EFailure k kind_dep])|].
    split; [reflexivity | about_tac k].
  - left. reflexivity.
  - right. exists SFailureV, [ERemove k; EFailure k kind_failed]. split; [apply (reff_status_emit (r_d r) k SFailureV [ERemove k; EFailure k kind_failed])|].
    split; [reflexivity | about_tac k].
Qed.
End RunnerOps.

(* ---------- the invariant under the runner's calls ---------- *)
Lemma reff_st d k s es d' x : reff d k s es d' -> st_of d' x = if N.eqb x k then s else st_of d x.
Proof. intros [_ B _ _ _]. unfold st_of. rewrite B. destruct (N.eqb x k); reflexivity. Qed.

Lemma run_inv_neutral d d' m es : q_tr d' = q_tr d ++ es -> neutral es -> (forall k, node_of d' k = node_of d k) ->
  run_inv d m -> run_inv d' m.
Proof.
  intros Et Hn Hnode I.
  assert (St : forall k, st_of d' k = st_of d k) by (intro k; unfold st_of; rewrite Hnode; reflexivity).
  assert (Nx : forall k, n_exec k (q_tr d') = n_exec k (q_tr d)) by (intro k; rewrite Et, n_exec_app; destruct (Hn k) as [-> _]; lia).
  assert (Nf : forall k, n_fin k (q_tr d') = n_fin k (q_tr d)) by (intro k; rewrite Et, n_fin_app; destruct (Hn k) as [_ ->]; lia).
  constructor; try (intros k; rewrite ?St, ?Nx, ?Nf; apply I).
  - intros k H. rewrite St in H. rewrite Et. apply good_in_app_l. apply (rs_good _ _ I); auto.
  - intro k. pose proof (rs_ps _ _ I k) as Pk. unfold ps_node in *. rewrite Hnode.
    eapply ps_core_imp; [|exact Pk]. intro F. eapply fresh_tr; eauto.
Qed.

Lemma sel_is_true m k : sel_is m k = true <-> m_sel m = Some k.
Proof.
  unfold sel_is. destruct (m_sel m) as [x|]; [|split; discriminate].
  split; [intro H; apply N.eqb_eq in H; subst; reflexivity | intro H; inversion H; apply N.eqb_refl].
Qed.

Lemma run_inv_select d m k b s es d' :
  run_inv d m -> m_sel m = Some k -> sel_out (node_of d k) k b s es -> reff d k s es d' ->
  run_inv d' {| m_sel := None; m_torun := if b then k :: m_torun m else m_torun m; m_running := m_running m |}.
Proof.
  intros I Hsel Ho R.
  pose proof (rs_ps _ _ I k) as Pk. unfold ps_node in Pk.
  destruct Pk as (_ & _ & PA & _ & PS & _). rewrite (proj2 (sel_is_true m k) Hsel) in PS. specialize (PS eq_refl).
  assert (U : unfinished (dn_st (node_of d k)) = true) by (destruct PS as [[_ ->]|(_ & -> & _)]; reflexivity).
  destruct (sel_out_about _ _ _ _ _ Ho U) as [(Ax & Af & Afk & Ag) Hs].
  assert (St := fun x => reff_st d k s es d' x R).
  assert (Et : q_tr d' = q_tr d ++ map Ev es) by apply R.
  assert (Nx : forall x, n_exec x (q_tr d') = n_exec x (q_tr d)) by (intro x; rewrite Et, n_exec_app, Ax; lia).
  (* k is not yet among the tasks to run / running *)
  assert (Kt : ~ In k (m_torun m) /\ ~ In k (m_running m) /\ n_exec k (q_tr d) = 0%nat).
  { destruct PS as [[_ E]|(_ & _ & F1 & F2 & F3)]; [|auto].
    split; [|split].
    - intro H. destruct (rs_torun _ _ I k H) as [E' _]. unfold st_of in E'. congruence.
    - intro H. destruct (rs_running _ _ I k H) as [E' _]. unfold st_of in E'. congruence.
    - apply (rs_none _ _ I). exact E. }
  destruct Kt as (Kt & Kr & Kx).
  (* when the answer is yes the status is SRun *)
  assert (Bs : b = true -> s = SRun).
  { intro Hb. subst b. inversion Ho; subst; auto.
    destruct PS as [[_ E]|(_ & E & _)]; [congruence | exact E]. }
  constructor; cbn [m_sel m_torun m_running].
  - intros x Hx. rewrite St in Hx. rewrite Et, n_fin_app. destruct (N.eqb_spec x k) as [E0|Hne]; [subst x|].
    + rewrite Afk, Hx. rewrite (rs_fin0 _ _ I k U). reflexivity.
    + rewrite (Af x Hne), (rs_fin0 _ _ I x Hx). reflexivity.
  - intros x Hx. rewrite St in Hx. rewrite Et, n_fin_app. destruct (N.eqb_spec x k) as [E0|Hne]; [subst x|].
    + rewrite Afk, Hx. rewrite (rs_fin0 _ _ I k U). reflexivity.
    + rewrite (Af x Hne), (rs_fin1 _ _ I x Hx). reflexivity.
  - intros x Hx. rewrite St in Hx. rewrite Nx. destruct (N.eqb_spec x k) as [E0|Hne]; [subst x; contradiction|].
    apply (rs_none _ _ I). exact Hx.
  - intro x. rewrite Nx. apply (rs_le _ _ I).
  - intros x Hx. rewrite St, Nx.
    assert (Hin : (b = true /\ x = k) \/ In x (m_torun m)) by (destruct b; [destruct Hx; auto | auto]).
    destruct Hin as [[Hb ->]|Hin].
    + rewrite N.eqb_refl. auto.
    + destruct (N.eqb_spec x k) as [E0|Hne]; [subst x; contradiction|]. apply (rs_torun _ _ I). exact Hin.
  - intros x Hx. rewrite St. destruct (N.eqb_spec x k) as [E0|Hne]; [subst x; contradiction|].
    destruct (rs_running _ _ I x Hx) as [E Hd]. split; auto. destruct b; auto. intros [H|H]; [congruence | auto].
  - intros x Hx. rewrite St in Hx. rewrite Et. destruct (N.eqb_spec x k) as [E0|Hne]; [subst x|].
    + apply good_in_app_r. auto.
    + apply good_in_app_l. apply (rs_good _ _ I). exact Hx.
  - intro x. unfold ps_node. unfold sel_is at 1. cbn [m_sel].
    assert (Hnode := re_node _ _ _ _ _ R x).
    destruct (N.eqb_spec x k) as [E0|Hne]; [subst x|].
    + rewrite Hnode. cbn [nd_st dn_pc dn_st dn_task].
      destruct PS as [[Ep E]|(Ep & E & F)]; rewrite Ep; unfold ps_core; simpl.
      * split; [discriminate|]. split; [discriminate|]. split; [|split; [discriminate | split; [discriminate | intros _ X; contradiction]]].
        intros _ Hrun Hsetup.
        split; [rewrite Nx; exact Kx|]. cbn [m_torun m_running]. split; [|exact Kr].
        destruct b; [|exact Kt]. exfalso. inversion Ho; subst; congruence.
      * split; [discriminate|]. split; [discriminate|]. split; [discriminate|]. split; [discriminate|]. split; discriminate.
    + rewrite Hnode. pose proof (rs_ps _ _ I x) as Px. unfold ps_node in Px.
      assert (Hf : fresh d m x -> fresh d' {| m_sel := None; m_torun := if b then k :: m_torun m else m_torun m; m_running := m_running m |} x).
      { intros (F1 & F2 & F3). split; [rewrite Nx; exact F1|]. cbn [m_torun m_running]. split; auto.
        destruct b; auto. intros [H|H]; [congruence | auto]. }
      destruct Px as (A & B & C & D & E & E'). unfold ps_core.
      split; [exact A|]. split; [intro H; destruct (B H); auto|]. split; [intros; apply Hf; auto|].
      split; [intros; apply Hf; auto|]. split; [discriminate|].
      intros H1 H2. specialize (E' H1 H2). apply sel_is_true in E'. congruence.
Qed.

Lemma run_inv_exec d m k : run_inv d m -> In k (m_torun m) ->
  run_inv (emitd d [Ev (EExecute k)]) {| m_sel := m_sel m; m_torun := rem k (m_torun m); m_running := k :: m_running m |}.
Proof.
  intros I Hk. destruct (rs_torun _ _ I k Hk) as [Sk Xk].
  set (d' := emitd d [Ev (EExecute k)]).
  assert (St : forall x, st_of d' x = st_of d x) by reflexivity.
  assert (Nf : forall x, n_fin x (q_tr d') = n_fin x (q_tr d)).
  { intro x. unfold d'. simpl. rewrite n_fin_app. unfold n_fin at 2. simpl. lia. }
  assert (Nx : forall x, n_exec x (q_tr d') = (n_exec x (q_tr d) + if N.eqb k x then 1 else 0)%nat).
  { intro x. unfold d'. simpl. rewrite n_exec_app. unfold n_exec at 2. simpl. destruct (N.eqb k x); reflexivity. }
  constructor; cbn [m_sel m_torun m_running].
  - intros x Hx. rewrite Nf. apply (rs_fin0 _ _ I). exact Hx.
  - intros x Hx. rewrite Nf. apply (rs_fin1 _ _ I). exact Hx.
  - intros x Hx. rewrite St in Hx. rewrite Nx. destruct (N.eqb_spec k x) as [->|]; [congruence|].
    rewrite (rs_none _ _ I x Hx). reflexivity.
  - intro x. rewrite Nx. destruct (N.eqb_spec k x) as [<-|]; [rewrite Xk; lia|]. pose proof (rs_le _ _ I x). lia.
  - intros x Hx. apply rem_In in Hx. destruct Hx as [Hx Hne]. rewrite St, Nx.
    rewrite (eqb_ne _ _ Hne). destruct (rs_torun _ _ I x Hx) as [A B]. rewrite B. auto.
  - intros x [<-|Hx].
    + split; [exact Sk|]. intro H. apply rem_In in H. destruct H as [_ H]. congruence.
    + destruct (rs_running _ _ I x Hx) as [A B]. split; [exact A|]. intro H. apply rem_In in H. tauto.
  - intros x Hx. unfold d'. simpl. apply good_in_app_l. apply (rs_good _ _ I). exact Hx.
  - intro x. pose proof (rs_ps _ _ I x) as Px. unfold ps_node in *.
    change (node_of d' x) with (node_of d x).
    change (sel_is {| m_sel := m_sel m; m_torun := rem k (m_torun m); m_running := k :: m_running m |} x) with (sel_is m x).
    assert (Hf : fresh d m x -> fresh d' {| m_sel := m_sel m; m_torun := rem k (m_torun m); m_running := k :: m_running m |} x).
    { intros (F1 & F2 & F3).
      assert (Hne : k <> x) by (intro; subst; auto).
      split; [rewrite Nx, F1, (proj2 (N.eqb_neq _ _) Hne); reflexivity|]. cbn [m_torun m_running]. split.
      - intro H. apply rem_In in H. tauto.
      - intros [H|H]; auto. }
    eapply ps_core_imp; [exact Hf | exact Px].
Qed.

Lemma run_inv_drop_running d m k : run_inv d m ->
  run_inv d {| m_sel := m_sel m; m_torun := m_torun m; m_running := rem k (m_running m) |}.
Proof.
  intros I. constructor; cbn [m_sel m_torun m_running]; try apply I.
  - intros x Hx. apply rem_In in Hx. apply (rs_running _ _ I). tauto.
  - intro x. pose proof (rs_ps _ _ I x) as Px. unfold ps_node in *.
    change (sel_is {| m_sel := m_sel m; m_torun := m_torun m; m_running := rem k (m_running m) |} x) with (sel_is m x).
    eapply ps_core_imp; [|exact Px]. intros (F1 & F2 & F3). split; [|split]; auto. cbn [m_running].
    intro H. apply rem_In in H. tauto.
Qed.

Lemma run_inv_result d m k s es d' :
  run_inv d m -> In k (m_running m) -> reff d k s es d' -> unfinished s = false -> ev_about k s es ->
  run_inv d' {| m_sel := m_sel m; m_torun := m_torun m; m_running := rem k (m_running m) |}.
Proof.
  intros I Hk R Us (Ax & Af & Afk & Ag). rewrite Us in Afk.
  destruct (rs_running _ _ I k Hk) as [Sk Tk].
  assert (St := fun x => reff_st d k s es d' x R).
  assert (Et : q_tr d' = q_tr d ++ map Ev es) by apply R.
  assert (Nx : forall x, n_exec x (q_tr d') = n_exec x (q_tr d)) by (intro x; rewrite Et, n_exec_app, Ax; lia).
  assert (U : unfinished (st_of d k) = true) by (rewrite Sk; reflexivity).
  assert (Hf : forall x, x <> k -> fresh d m x -> fresh d' {| m_sel := m_sel m; m_torun := m_torun m; m_running := rem k (m_running m) |} x).
  { intros x Hne (F1 & F2 & F3). split; [rewrite Nx; exact F1|]. cbn [m_torun m_running]. split; auto.
    intro H. apply rem_In in H. tauto. }
  constructor; cbn [m_sel m_torun m_running].
  - intros x Hx. rewrite St in Hx. rewrite Et, n_fin_app. destruct (N.eqb_spec x k) as [E0|Hne]; [subst x; congruence|].
    rewrite (Af x Hne), (rs_fin0 _ _ I x Hx). reflexivity.
  - intros x Hx. rewrite St in Hx. rewrite Et, n_fin_app. destruct (N.eqb_spec x k) as [E0|Hne]; [subst x|].
    + rewrite Afk, (rs_fin0 _ _ I k U). reflexivity.
    + rewrite (Af x Hne), (rs_fin1 _ _ I x Hx). reflexivity.
  - intros x Hx. rewrite St in Hx. rewrite Nx. destruct (N.eqb_spec x k) as [E0|Hne]; [subst x; subst s; discriminate|].
    apply (rs_none _ _ I). exact Hx.
  - intro x. rewrite Nx. apply (rs_le _ _ I).
  - intros x Hx. rewrite St, Nx. destruct (N.eqb_spec x k) as [E0|Hne]; [subst x; contradiction|]. apply (rs_torun _ _ I). exact Hx.
  - intros x Hx. apply rem_In in Hx. destruct Hx as [Hx Hne]. rewrite St. rewrite (proj2 (N.eqb_neq _ _) Hne).
    apply (rs_running _ _ I). exact Hx.
  - intros x Hx. rewrite St in Hx. rewrite Et. destruct (N.eqb_spec x k) as [E0|Hne]; [subst x|].
    + apply good_in_app_r. auto.
    + apply good_in_app_l. apply (rs_good _ _ I). exact Hx.
  - intro x. unfold ps_node.
    change (sel_is {| m_sel := m_sel m; m_torun := m_torun m; m_running := rem k (m_running m) |} x) with (sel_is m x).
    rewrite (re_node _ _ _ _ _ R x). pose proof (rs_ps _ _ I x) as Px. unfold ps_node in Px.
    destruct (N.eqb_spec x k) as [E0|Hne]; [subst x|].
    + cbn [nd_st dn_pc dn_st dn_task]. unfold st_of in Sk. rewrite Sk in Px.
      destruct Px as (A & B & C & D & E & E'). unfold ps_core.
      assert (NF : fresh d m k -> False) by (intros (_ & _ & F3); auto).
      split; [intro H; specialize (A H); discriminate|].
      split; [intro H; destruct (B H) as [_ F]; destruct (NF F)|].
      split; [intros H1 H2; subst s; discriminate|].
      split; [intros H1 H2; subst s; discriminate|].
      split; [|intros H1 H2; subst s; discriminate].
      intro H. destruct (E H) as [[_ X]|(_ & _ & F)]; [discriminate | destruct (NF F)].
    + destruct Px as (A & B & C & D & E & E'). unfold ps_core.
      split; [exact A|]. split; [intro H; destruct (B H); auto|]. split; [intros; apply Hf; auto|].
      split; [intros; apply Hf; auto|]. split; [|exact E'].
      intro H. destruct (E H) as [X|(X1 & X2 & X3)]; [left; exact X | right; auto].
Qed.

(* ---------- the runner protocol as a check on scripts ---------- *)
Definition mon_ok (m : mon) (o : sop) : bool :=
  match o with
  | OSend _ => match m_sel m with None => true | Some _ => false end
  | OSelect k => match m_sel m with Some x => N.eqb x k | None => false end
  | OExec k => mem k (m_torun m)
  | OResult k => mem k (m_running m)
  | _ => true end.

Section Protocol.
Variable v : variant.
Variable keys : list name.
Variable creators : N -> name -> list (name * dtask).
Variable wake_rank : name -> name -> N.
Variable calc_rank : name -> N.
Variable continue_ always : bool.
Notation disp_send := (disp_send v keys creators wake_rank calc_rank).
Notation select_task := (select_task continue_ always).
Notation process_result := (process_result continue_).
Notation serial := (serial v keys creators wake_rank calc_rank continue_ always).
Notation run_op := (run_op v keys creators wake_rank calc_rank continue_ always).
Notation step_op := (step_op v keys creators wake_rank calc_rank continue_ always).

(* the monitor after a call: what the dispatcher / select_task answered is read off the model *)
Definition mon_next (fuel : nat) (r : rstate) (m : mon) (o : sop) : mon :=
  match o with
  | OSend p =>
      if sent_ok (r_d r) p then
        match fst (disp_send fuel (r_d (emitr r [EOp 70 (match p with Some k => k | None => 0 end)])) p) with
        | DTask k => set_sel m (Some k) | _ => m end
      else m
  | OSelect k =>
      {| m_sel := None;
         m_torun := if fst (select_task (emitr r [EOp 71 k]) k) then k :: m_torun m else m_torun m;
         m_running := m_running m |}
  | OExec k => {| m_sel := m_sel m; m_torun := rem k (m_torun m); m_running := k :: m_running m |}
  | OResult k => {| m_sel := m_sel m; m_torun := m_torun m; m_running := rem k (m_running m) |}
  | _ => m end.

(* a script follows the runner protocol: every OSelect k answers the DTask k the dispatcher just yielded (and nothing is sent
   to the dispatcher before that), every OExec k uses up one OSelect k that answered yes, every OResult k one OExec k.
   A boolean function of the script and the initial state: which answers the dispatcher and select_task give is computed. *)
Definition wf_step (fuel : nat) (st : (rstate * option stop) * mon * bool) (o : sop) : (rstate * option stop) * mon * bool :=
  let '(rs, m, ok) := st in
  if live (snd rs) then
    match snd rs, o with
    | Some _, OSend _ => (step_op fuel rs o, m, ok)
    | _, _ => (step_op fuel rs o, mon_next fuel (fst rs) m o, ok && mon_ok m o)
    end
  else (step_op fuel rs o, m, ok).
Definition wf_script (fuel : nat) (ops : list sop) (d0 : dst) : bool :=
  snd (fold_left (wf_step fuel) ops ((r_init d0, None), mon0, true)).

Lemma wf_step_fst fuel st o : fst (fst (wf_step fuel st o)) = step_op fuel (fst (fst st)) o.
Proof.
  destruct st as [[rs m] ok]. unfold wf_step. cbn [fst snd].
  destruct (live (snd rs)); [|reflexivity]. destruct (snd rs); [destruct o|]; reflexivity.
Qed.
Lemma wf_fold_fst fuel ops : forall st,
  fst (fst (fold_left (wf_step fuel) ops st)) = fold_left (step_op fuel) ops (fst (fst st)).
Proof.
  induction ops as [|o ops IH]; intro st; simpl; [reflexivity|]. rewrite IH, wf_step_fst. reflexivity.
Qed.

(* ---- an invariant [J] of the protocol, with a weak form [W] that survives dispatcher errors ---- *)
Section Generic.
Variable J : dst -> mon -> Prop.
Variable W : dst -> Prop.
Hypothesis J_W : forall d m, J d m -> W d.
Hypothesis J_send : forall m fuel d p, m_sel m = None -> J d m -> sent_ok d p = true ->
  match fst (disp_send fuel d p) with
  | DTask k => J (snd (disp_send fuel d p)) (set_sel m (Some k))
  | DInvalidTask | DNotFound _ | DKeyError => W (snd (disp_send fuel d p))
  | _ => J (snd (disp_send fuel d p)) m end.
Hypothesis J_select : forall r k m, J (r_d r) m -> m_sel m = Some k ->
  J (r_d (snd (select_task r k)))
    {| m_sel := None; m_torun := if fst (select_task r k) then k :: m_torun m else m_torun m; m_running := m_running m |} /\
  st_of (r_d (snd (select_task r k))) k <> SNone.
Hypothesis J_exec : forall d k m, J d m -> In k (m_torun m) ->
  J (emitd d [Ev (EExecute k)]) {| m_sel := m_sel m; m_torun := rem k (m_torun m); m_running := k :: m_running m |}.
Hypothesis J_result : forall r k m, J (r_d r) m -> In k (m_running m) ->
  J (r_d (process_result r k)) {| m_sel := m_sel m; m_torun := m_torun m; m_running := rem k (m_running m) |} /\
  st_of (r_d (process_result r k)) k <> SNone.
Hypothesis J_neutral : forall d m es, J d m -> neutral es -> J (emitd d es) m.
Hypothesis W_neutral : forall d es, W d -> neutral es -> W (emitd d es).

Lemma W_finish r : W (r_d r) -> W (r_d (finish r)).
Proof. intro H. unfold finish, emit. cbn [r_d with_d]. apply W_neutral; auto. apply neutral_teardown. Qed.

Lemma neutral_op c a : neutral [EOp c a].
Proof. apply neutral_of_b. reflexivity. Qed.

Lemma serial_generic fuel : forall r last, J (r_d r) mon0 -> (forall k, last = Some k -> st_of (r_d r) k <> SNone) ->
  W (r_d (fst (serial fuel r last))).
Proof.
  induction fuel as [|fuel IH]; intros r last I Hl; cbn [Delayed.serial].
  { simpl. eapply J_W; eauto. }
  destruct (r_stop r).
  { cbn [fst]. apply W_finish. eapply J_W; eauto. }
  assert (Hsent : sent_ok (r_d r) last = true).
  { unfold sent_ok. destruct last as [k|]; auto. specialize (Hl k eq_refl). destruct (st_of (r_d r) k); auto; exfalso; apply Hl; reflexivity. }
  pose proof (J_send mon0 (S fuel) (r_d r) last eq_refl I Hsent) as G.
  destruct (disp_send (S fuel) (r_d r) last) as [y d]. cbn [fst snd] in G.
  destruct y; cbn [fst]; try (apply (W_finish (with_d r d)); cbn [r_d with_d]; try exact G; eapply J_W; exact G).
  - (* DTask *)
    destruct (J_select (with_d r d) k (set_sel mon0 (Some k)) G eq_refl) as [Hs Hst].
    destruct (select_task (with_d r d) k) as [[|] r1]; cbn [fst snd set_sel mon0 m_torun m_running] in Hs, Hst.
    + pose proof (J_exec (r_d r1) k _ Hs (or_introl eq_refl)) as He.
      cbn [m_sel m_torun m_running] in He.
      assert (Er : rem k [k] = []) by (unfold rem; simpl; rewrite N.eqb_refl; reflexivity).
      rewrite Er in He.
      change (emitd (r_d r1) [Ev (EExecute k)]) with (r_d (start_task r1 k)) in He.
      destruct (is_interrupt (start_task r1 k) k); cbn [fst].
      * apply W_finish. eapply J_W; eauto.
      * destruct (J_result (start_task r1 k) k _ He (or_introl eq_refl)) as [Hr Hrs].
        cbn [m_sel m_torun m_running] in Hr. rewrite Er in Hr.
        apply IH; [exact Hr|]. intros k' Hk'. inversion Hk'; subst. exact Hrs.
    + apply IH; [exact Hs|]. intros k' Hk'. inversion Hk'; subst. exact Hst.
  - (* DInvalidTask *)
    apply (W_finish (with_d r (emitd d [ERuntimeError]))). cbn [r_d with_d]. apply W_neutral; auto.
    apply neutral_of_b. reflexivity.
  - (* DFuel *) cbn [r_d with_d]. eapply J_W; exact G.
Qed.

(* scripts *)
Definition SP (st : (rstate * option stop) * mon * bool) : Prop :=
  let '(rs, m, ok) := st in
  ok = true -> W (r_d (fst rs)) /\ (live (snd rs) = true -> J (r_d (fst rs)) m).

Lemma mem_true_In x l : mem x l = true -> In x l.
Proof. apply mem_In. Qed.

Lemma run_op_generic fuel r m o : J (r_d r) m -> mon_ok m o = true ->
  W (r_d (fst (run_op fuel r o))) /\ (live (snd (run_op fuel r o)) = true -> J (r_d (fst (run_op fuel r o))) (mon_next fuel r m o)).
Proof.
  intros I Hok.
  assert (Both : forall r1 s1 m1, J (r_d r1) m1 -> W (r_d (fst (r1, s1))) /\ (live (snd (r1, s1)) = true -> J (r_d (fst (r1, s1))) m1))
    by (intros r1 s1 m1 H; simpl; split; auto; eapply J_W; eauto).
  destruct o; cbn [Delayed.run_op mon_next]; cbn [mon_ok] in Hok.
  - (* OSend *)
    set (r0 := emitr r _).
    assert (I0 : J (r_d r0) m) by (apply J_neutral; [exact I | apply neutral_op]).
    assert (Hsel : m_sel m = None) by (destruct (m_sel m); [discriminate | reflexivity]).
    destruct (sent_ok (r_d r) p) eqn:Es.
    + pose proof (J_send m fuel (r_d r0) p Hsel I0 Es) as G.
      destruct (disp_send fuel (r_d r0) p) as [y d]. cbn [fst snd] in G |- *.
      destruct y; try (apply Both; cbn [emitr r_d with_d]; apply J_neutral; [exact G | apply neutral_op]);
        cbn [fst snd live r_d with_d]; try (split; [try exact G; eapply J_W; exact G | discriminate]).
      split; [|discriminate]. apply W_neutral; auto. apply neutral_of_b. reflexivity.
    + split; [eapply J_W; exact I0 | discriminate].
  - (* OSelect *)
    set (r0 := emitr r _).
    assert (I0 : J (r_d r0) m) by (apply J_neutral; [exact I | apply neutral_op]).
    assert (Hsel : m_sel m = Some k).
    { destruct (m_sel m) as [x|]; [|discriminate]. apply N.eqb_eq in Hok. subst. reflexivity. }
    destruct (J_select r0 k m I0 Hsel) as [Hs _].
    destruct (select_task r0 k) as [b r1]. cbn [fst snd] in Hs |- *.
    apply Both. cbn [emitr r_d with_d]. apply J_neutral; [exact Hs | apply neutral_op].
  - (* OExec *) apply Both. apply J_exec; auto. apply mem_true_In. exact Hok.
  - (* OResult *)
    set (r0 := emitr r _).
    assert (I0 : J (r_d r0) m) by (apply J_neutral; [exact I | apply neutral_op]).
    destruct (J_result r0 k m I0 (mem_true_In _ _ Hok)) as [Hr _]. apply Both. exact Hr.
  - (* OHoldErr *) split; [eapply J_W; exact I | discriminate].
  - (* OFinish *)
    apply Both. unfold finish, emit. cbn [emitr r_d with_d]. apply J_neutral; [|apply neutral_teardown].
    apply J_neutral; [exact I | apply neutral_op].
Qed.

Lemma wf_step_SP fuel st o : SP st -> SP (wf_step fuel st o).
Proof.
  destruct st as [[[r s] m] ok]. unfold SP, wf_step. cbn [fst snd]. intro H.
  destruct (live s) eqn:El.
  - assert (Run : (ok && mon_ok m o)%bool = true ->
        W (r_d (fst (step_op fuel (r, s) o))) /\
        (live (snd (step_op fuel (r, s) o)) = true -> J (r_d (fst (step_op fuel (r, s) o))) (mon_next fuel r m o)) ->
        let st' := (step_op fuel (r, s) o, mon_next fuel r m o, (ok && mon_ok m o)%bool) in SP st').
    { intros _ X. cbv zeta. unfold SP. intros _. exact X. }
    assert (RunOk : (ok && mon_ok m o)%bool = true ->
        (match s, o with Some _, OSend _ => False | _, _ => True end) ->
        W (r_d (fst (step_op fuel (r, s) o))) /\
        (live (snd (step_op fuel (r, s) o)) = true -> J (r_d (fst (step_op fuel (r, s) o))) (mon_next fuel r m o))).
    { intros Hok Hcase. apply andb_true_iff in Hok. destruct Hok as [Hok1 Hok2]. destruct (H Hok1) as [Wr Jr]. specialize (Jr eq_refl).
      pose proof (run_op_generic fuel r m o Jr Hok2) as [W1 J1].
      unfold Delayed.step_op. rewrite El.
      assert (Gen : W (r_d (fst (let '(r1, s1) := run_op fuel r o in (r1, merge_stop s s1)))) /\
                    (live (snd (let '(r1, s1) := run_op fuel r o in (r1, merge_stop s s1))) = true ->
                     J (r_d (fst (let '(r1, s1) := run_op fuel r o in (r1, merge_stop s s1)))) (mon_next fuel r m o))).
      { destruct (run_op fuel r o) as [r1 s1]. cbn [fst snd] in *. split; auto. intro Hl. apply J1. destruct s1; auto. }
      destruct s as [x|]; [|exact Gen]. destruct o; try exact Gen. destruct Hcase. }
    destruct s as [x|].
    + destruct o; try (intro Hok; apply RunOk; auto).
      (* exhausted generator, OSend: only markers *)
      intro Hok. destruct (H Hok) as [Wr Jr]. specialize (Jr eq_refl).
      unfold Delayed.step_op. rewrite El. cbn [fst snd emitr r_d with_d]. split.
      * apply W_neutral; auto. apply neutral_of_b. reflexivity.
      * intros _. apply J_neutral; auto. apply neutral_of_b. reflexivity.
    + intro Hok. apply RunOk; auto.
  - intro Hok. destruct (H Hok) as [Wr _]. unfold Delayed.step_op. rewrite El.
    destruct o; cbn [fst snd]; try (split; [exact Wr | rewrite El; discriminate]).
    split; [|rewrite El; discriminate].
    cbn [Delayed.run_op fst]. apply W_finish. cbn [emitr r_d with_d]. apply W_neutral; auto. apply neutral_op.
Qed.

Lemma wf_fold_SP fuel ops : forall st, SP st -> SP (fold_left (wf_step fuel) ops st).
Proof. induction ops as [|o ops IH]; intros st H; simpl; auto. apply IH, wf_step_SP, H. Qed.

Lemma script_generic fuel ops d0 : J d0 mon0 -> wf_script fuel ops d0 = true ->
  W (r_d (fst (run_ops v keys creators wake_rank calc_rank continue_ always fuel ops (r_init d0)))).
Proof.
  intros I Hwf. unfold wf_script in Hwf. unfold run_ops.
  assert (H0 : SP ((r_init d0, None), mon0, true)).
  { unfold SP. cbn [fst snd r_init r_d]. intros _. split; [eapply J_W; eauto | intros _; exact I]. }
  pose proof (wf_fold_SP fuel ops _ H0) as H.
  pose proof (wf_fold_fst fuel ops ((r_init d0, None), mon0, true)) as E. cbn [fst] in E.
  destruct (fold_left (wf_step fuel) ops ((r_init d0, None), mon0, true)) as [[rs m] ok]. cbn [fst snd] in *.
  subst ok. rewrite <- E. apply H. reflexivity.
Qed.
End Generic.
End Protocol.

(* ---------- (1) executed at most once, at most one final report ---------- *)
Lemma run_inv_init d : (forall k, q_nodes d k = None) -> q_tr d = [] -> run_inv d mon0.
Proof.
  intros Hn Ht.
  assert (St : forall k, st_of d k = SNone) by (intro k; unfold st_of, node_of; rewrite Hn; reflexivity).
  constructor.
  - intros k _. rewrite Ht. reflexivity.
  - intros k H. rewrite St in H. discriminate.
  - intros k _. rewrite Ht. reflexivity.
  - intro k. rewrite Ht. unfold n_exec. simpl. lia.
  - intros k [].
  - intros k [].
  - intros k H. rewrite St in H. discriminate.
  - intro k. unfold ps_node, node_of. rewrite Hn. simpl. unfold ps_core. simpl.
    split; [reflexivity|]. split; [discriminate|]. split; [discriminate|]. split; [discriminate|]. split; discriminate.
Qed.

Section Once.
Variable v : variant.
Variable keys : list name.
Variable creators : N -> name -> list (name * dtask).
Variable wake_rank : name -> name -> N.
Variable calc_rank : name -> N.
Variable continue_ always : bool.

Lemma run_inv_select_task r k m : run_inv (r_d r) m -> m_sel m = Some k ->
  run_inv (r_d (snd (select_task continue_ always r k)))
    {| m_sel := None; m_torun := if fst (select_task continue_ always r k) then k :: m_torun m else m_torun m; m_running := m_running m |} /\
  st_of (r_d (snd (select_task continue_ always r k))) k <> SNone.
Proof.
  intros I Hsel. destruct (select_task_out continue_ always r k) as (s & es & Ho & R).
  split; [eapply run_inv_select; eauto|].
  pose proof (rs_ps _ _ I k) as Pk. unfold ps_node in Pk.
  destruct Pk as (_ & _ & _ & _ & PS & _). rewrite (proj2 (sel_is_true m k) Hsel) in PS. specialize (PS eq_refl).
  assert (U : unfinished (dn_st (node_of (r_d r) k)) = true) by (destruct PS as [[_ ->]|(_ & -> & _)]; reflexivity).
  destruct (sel_out_about _ _ _ _ _ Ho U) as [_ Hs].
  rewrite (reff_st _ _ _ _ _ k R), N.eqb_refl. exact Hs.
Qed.

Lemma run_inv_process_result r k m : run_inv (r_d r) m -> In k (m_running m) ->
  run_inv (r_d (process_result continue_ r k)) {| m_sel := m_sel m; m_torun := m_torun m; m_running := rem k (m_running m) |} /\
  st_of (r_d (process_result continue_ r k)) k <> SNone.
Proof.
  intros I Hk. destruct (rs_running _ _ I k Hk) as [Sk _].
  destruct (process_result_out continue_ r k) as [E|(s & es & R & Us & Ab)].
  - rewrite E. split; [apply run_inv_drop_running; exact I | rewrite Sk; discriminate].
  - split; [eapply run_inv_result; eauto|].
    rewrite (reff_st _ _ _ _ _ k R), N.eqb_refl. intro X. subst s. discriminate.
Qed.

Lemma run_inv_emitd d m es : run_inv d m -> neutral es -> run_inv (emitd d es) m.
Proof. intros I Hn. apply (run_inv_neutral d (emitd d es) m es); auto. Qed.
Lemma wk_emitd d es : wk d -> neutral es -> wk (emitd d es).
Proof. intros H Hn. apply (wk_neutral d (emitd d es) es); auto. Qed.

Lemma run_inv_send m fuel d p : m_sel m = None -> run_inv d m -> sent_ok d p = true ->
  match fst (disp_send v keys creators wake_rank calc_rank fuel d p) with
  | DTask k => run_inv (snd (disp_send v keys creators wake_rank calc_rank fuel d p)) (set_sel m (Some k))
  | DInvalidTask | DNotFound _ | DKeyError => wk (snd (disp_send v keys creators wake_rank calc_rank fuel d p))
  | _ => run_inv (snd (disp_send v keys creators wake_rank calc_rank fuel d p)) m end.
Proof. intros Hs I _. exact (disp_send_inv v keys creators wake_rank calc_rank m fuel d p Hs I). Qed.

Lemma wk_stop d s : wk d -> forall k, (n_exec k (q_tr d ++ stop_marker s) <= 1)%nat /\ (n_fin k (q_tr d ++ stop_marker s) <= 1)%nat.
Proof.
  intros H k. rewrite n_exec_app, n_fin_app. destruct (neutral_stop_marker s k) as [-> ->]. destruct (H k). lia.
Qed.

Theorem serial_once fuel d0 : init_ok d0 -> forall k,
  (n_exec k (fst (run_serial v keys creators wake_rank calc_rank continue_ always fuel d0)) <= 1)%nat /\
  (n_fin k (fst (run_serial v keys creators wake_rank calc_rank continue_ always fuel d0)) <= 1)%nat.
Proof.
  intros [Hn Ht _ _].
  pose proof (serial_generic v keys creators wake_rank calc_rank continue_ always run_inv wk run_inv_wk
                run_inv_send run_inv_select_task (fun d k m => run_inv_exec d m k) run_inv_process_result wk_emitd
                fuel (r_init d0) None (run_inv_init d0 Hn Ht)) as H.
  unfold run_serial.
  destruct (serial v keys creators wake_rank calc_rank continue_ always fuel (r_init d0) None) as [r s].
  cbn [fst snd] in *. apply wk_stop. apply H. intros k Hk. discriminate.
Qed.

Theorem script_once fuel ops d0 : init_ok d0 ->
  wf_script v keys creators wake_rank calc_rank continue_ always fuel ops d0 = true -> forall k,
  (n_exec k (fst (run_script v keys creators wake_rank calc_rank continue_ always fuel ops d0)) <= 1)%nat /\
  (n_fin k (fst (run_script v keys creators wake_rank calc_rank continue_ always fuel ops d0)) <= 1)%nat.
Proof.
  intros [Hn Ht _ _] Hwf.
  pose proof (script_generic v keys creators wake_rank calc_rank continue_ always run_inv wk run_inv_wk
                run_inv_send run_inv_select_task (fun d k m => run_inv_exec d m k) run_inv_process_result run_inv_emitd wk_emitd
                fuel ops d0 (run_inv_init d0 Hn Ht) Hwf) as H.
  unfold run_script.
  destruct (run_ops v keys creators wake_rank calc_rank continue_ always fuel ops (r_init d0)) as [r s].
  cbn [fst snd] in *. apply wk_stop. exact H.
Qed.
End Once.

(* the counting form as statements about occurrences *)
Lemma n_exec_split k pre post : (n_exec k (pre ++ Ev (EExecute k) :: post) <= 1)%nat ->
  ~ In (Ev (EExecute k)) pre /\ ~ In (Ev (EExecute k)) post.
Proof.
  intro H. rewrite n_exec_app in H. unfold n_exec at 2 in H. simpl in H. rewrite N.eqb_refl in H. simpl in H.
  assert (G : forall l, In (Ev (EExecute k)) l -> (1 <= n_exec k l)%nat).
  { induction l as [|e l IH]; intros []; unfold n_exec in *; simpl.
    - subst e. simpl. rewrite N.eqb_refl. simpl. lia.
    - specialize (IH H0). destruct (is_exec_of k e); simpl; lia. }
  split; intro X; apply G in X; unfold n_exec in *; lia.
Qed.
Lemma n_fin_split k pre e post : (n_fin k (pre ++ e :: post) <= 1)%nat -> is_final_of k e = true ->
  ~ final_in k pre /\ ~ final_in k post.
Proof.
  intros H He. rewrite n_fin_app in H. unfold n_fin at 2 in H. simpl in H. rewrite He in H. simpl in H.
  assert (G : forall l, final_in k l -> (1 <= n_fin k l)%nat).
  { unfold final_in, n_fin. induction l as [|a l IH]; simpl; [discriminate|].
    destruct (is_final_of k a); simpl; [lia | auto]. }
  split; intro X; apply G in X; unfold n_fin in *; lia.
Qed.
