(* IntrospectP.v -- lemmas about Model/Introspect.v: the frame of list / info on the DB, the letter
   of `list --status` = the decision of Runner.select_task, the verdict and the reasons of `info`. *)
From Coq Require Import ZifyBool.
From DoitV Require Import Base Status History StatusP HistoryP Introspect.
From DoitV Require Runner.
Open Scope Z_scope.

(* ------------------------------------------------------------------ the frame on the DB *)
(* [d'] is [d], except that records written by another checker than [c] may be gone *)
Definition db_frame (c : ck) (d d' : db) : Prop :=
  forall x, d' x = d x \/ (d' x = None /\ ck_changed c (getrec d x) = true).

Lemma db_frame_refl c d : db_frame c d d.
Proof. intros x; auto. Qed.

Lemma db_frame_trans c d1 d2 d3 : db_frame c d1 d2 -> db_frame c d2 d3 -> db_frame c d1 d3.
Proof.
  intros H1 H2 x. destruct (H2 x) as [E|[E F]].
  - rewrite E. apply H1.
  - destruct (H1 x) as [E1|[E1 F1]].
    + right. split; auto. unfold getrec in *. rewrite E1 in F. exact F.
    + right. split; auto.
Qed.

Lemma db_frame_remove c d t : ck_changed c (getrec d t) = true -> db_frame c d (remove d t).
Proof.
  intros H x. destruct (N.eqb_spec x t) as [->|Hne].
  - right. split; auto. apply remove_same.
  - left. apply remove_other; auto.
Qed.

(* no record of another checker: the frame is the identity *)
Definition no_foreign (c : ck) (d : db) : Prop := forall x, ck_changed c (getrec d x) = false.
Lemma db_frame_no_foreign c d d' : no_foreign c d -> db_frame c d d' -> forall x, d' x = d x.
Proof. intros Hn H x. destruct (H x) as [E|[_ F]]; auto. rewrite Hn in F. discriminate. Qed.

Section IntrospectP.
Variable md5 : N -> N.
Variable v : ver.
Variable name_ltb : name -> name -> bool.

Notation get_status := (get_status md5 v).
Notation task_status := (task_status md5 v).
Notation print_tasks := (print_tasks md5 v).
Notation list_cmd := (list_cmd md5 v name_ltb).
Notation info_cmd := (info_cmd md5 v).
Notation run_decision := (run_decision md5 v).
Notation status_letters := (status_letters md5 v).

Lemma get_status_frame c fs d t df gl : db_frame c d (g_db (get_status c fs d t df gl)).
Proof.
  destruct (get_status_db md5 v c fs d t df gl) as [E|[F E]]; rewrite E.
  - apply db_frame_refl.
  - apply db_frame_remove; auto.
Qed.

Lemma task_status_frame c fs d t : db_frame c d (snd (task_status c fs d t)).
Proof.
  unfold Introspect.task_status. destruct (status_is_ignore d (l_name t)); simpl.
  - apply db_frame_refl.
  - apply get_status_frame.
Qed.

Lemma prepend_ok ls r l d : prepend ls r = LOk l d -> exists l0, r = LOk l0 d /\ l = ls ++ l0.
Proof. destruct r; simpl; intros H; inversion H; subst. eexists; split; reflexivity. Qed.
Lemma prepend_crash ls r l d : prepend ls r = LCrash l d -> exists l0, r = LCrash l0 d /\ l = ls ++ l0.
Proof. destruct r; simpl; intros H; inversion H; subst. eexists; split; reflexivity. Qed.

(* the DB `list` leaves in memory, whatever the options and the outcome *)
Definition lres_db (d : db) (r : lres) : db :=
  match r with LOk _ d' | LCrash _ d' => d' | _ => d end.

Lemma print_tasks_frame c fs o pl : forall d, db_frame c d (lres_db d (print_tasks c fs o pl d)).
Proof.
  induction pl as [|t pl IH]; intros d; simpl.
  - apply db_frame_refl.
  - destruct (o_status o).
    + pose proof (task_status_frame c fs d t) as F.
      destruct (task_status c fs d t) as [[l|] d1]; simpl in *; auto.
      specialize (IH d1).
      destruct (print_tasks c fs o pl d1); simpl in *; try apply db_frame_refl; eapply db_frame_trans; eauto.
    + specialize (IH d). destruct (print_tasks c fs o pl d); simpl in *; auto; apply db_frame_refl.
Qed.

Lemma list_cmd_frame tb o c fs d : db_frame c d (lres_db d (list_cmd tb o c fs d)).
Proof.
  unfold Introspect.list_cmd. destruct (print_list name_ltb tb o); simpl; try apply db_frame_refl.
  apply print_tasks_frame.
Qed.

(* without --status the dependency manager is never asked *)
Lemma print_tasks_no_status c fs o pl : o_status o = false -> forall d, lres_db d (print_tasks c fs o pl d) = d.
Proof.
  intros Hs. induction pl as [|t pl IH]; intros d; simpl; auto.
  rewrite Hs. specialize (IH d). destruct (print_tasks c fs o pl d); simpl in *; auto.
Qed.

Definition ires_db (d : db) (r : ires) : db :=
  match r with IOk _ _ _ d' | ICrash d' => d' | _ => d end.

Lemma info_cmd_frame tb pos hide c fs d : db_frame c d (ires_db d (info_cmd tb pos hide c fs d)).
Proof.
  unfold Introspect.info_cmd. destruct pos as [|n [|n2 pos]]; simpl; try apply db_frame_refl.
  destruct (lookup tb n) as [t|]; simpl; try apply db_frame_refl.
  destruct hide; simpl; try apply db_frame_refl.
  pose proof (get_status_frame c fs d (l_name t) (l_def t) true) as F.
  destruct (g_status (get_status c fs d (l_name t) (l_def t) true)); simpl; auto.
Qed.

Lemma info_hide_db tb pos c fs d : ires_db d (info_cmd tb pos true c fs d) = d.
Proof.
  unfold Introspect.info_cmd. destruct pos as [|n [|n2 pos]]; simpl; auto. destruct (lookup tb n); reflexivity.
Qed.

Lemma persisted_frame b c d d' : db_frame c d d' -> db_frame c d (persisted b d d').
Proof. intros H. destruct b; simpl; auto; apply db_frame_refl. Qed.

(* ------------------------------------------------------------------ the commands as histories *)
Notation step := (step md5 (fun _ => 0) v).
Notation run_from := (run_from md5 (fun _ => 0) v).

(* what a status query leaves alone *)
Definition same_world (s s' : state) : Prop :=
  s_fs s' = s_fs s /\ s_clock s' = s_clock s /\ s_defs s' = s_defs s /\ s_ck s' = s_ck s.

Lemma query_step_world size_of s o : query_op o = true -> same_world s (History.step md5 size_of v s o).
Proof. destruct o; simpl; try discriminate; intros _; repeat split. Qed.

Lemma query_run_world size_of ops : forall s, forallb query_op ops = true -> same_world s (History.run_from md5 size_of v s ops).
Proof.
  induction ops as [|o ops IH]; intros s H; simpl in *.
  - repeat split.
  - apply andb_true_iff in H. destruct H as [H1 H2].
    destruct (query_step_world size_of s o H1) as (A & B & C & D).
    destruct (IH (History.step md5 size_of v s o) H2) as (A' & B' & C' & D').
    repeat split; congruence.
Qed.

Lemma list_ops_query d st pl : forallb query_op (list_ops d st pl) = true.
Proof.
  unfold list_ops. destruct st; auto. induction pl as [|t pl IH]; simpl; auto.
  destruct (status_is_ignore d (l_name t)); simpl; auto.
Qed.
Lemma info_ops_query hide n : forallb query_op (info_ops hide n) = true.
Proof. destruct hide; reflexivity. Qed.

(* the DB after `list`: the DB after the Check operations of the tasks printed (those not ignored) *)
Definition ign_frame (d dk : db) : Prop :=
  forall x, dk x = d x \/ (dk x = None /\ status_is_ignore d x = false).

Lemma print_tasks_as_history size_of o pl : forall s lines d',
  (forall t, In t pl -> l_def t = s_defs s (l_name t)) ->
  print_tasks (s_ck s) (s_fs s) o pl (s_db s) = LOk lines d' ->
  forall d0, ign_frame d0 (s_db s) ->
  s_db (History.run_from md5 size_of v s (list_ops d0 (o_status o) pl)) = d'.
Proof.
  unfold list_ops. induction pl as [|t pl IH]; intros s lines d' Hdef H d0 Hig; simpl in H.
  - inversion H; subst. destruct (o_status o); reflexivity.
  - destruct (o_status o) eqn:Est.
    + assert (Eig : status_is_ignore d0 (l_name t) = status_is_ignore (s_db s) (l_name t)).
      { destruct (Hig (l_name t)) as [E|[E F]]; unfold status_is_ignore, getrec in *; rewrite E; auto. }
      unfold Introspect.task_status in H. simpl. rewrite Eig.
      destruct (status_is_ignore (s_db s) (l_name t)) eqn:Ei; simpl in *.
      * apply prepend_ok in H. destruct H as [l0 [H _]].
        specialize (IH s l0 d' (fun t' Ht' => Hdef t' (or_intror Ht')) ). apply (IH H d0 Hig).
      * destruct (status_letter (g_status (get_status (s_ck s) (s_fs s) (s_db s) (l_name t) (l_def t) false))) eqn:El; [|discriminate].
        apply prepend_ok in H. destruct H as [l0 [H _]].
        rewrite (Hdef t (or_introl eq_refl)) in H.
        set (g := get_status (s_ck s) (s_fs s) (s_db s) (l_name t) (s_defs s (l_name t)) false) in *.
        set (s1 := History.step md5 size_of v s (Check (l_name t))).
        assert (Hs1 : s_db s1 = g_db g /\ s_ck s1 = s_ck s /\ s_fs s1 = s_fs s /\ s_defs s1 = s_defs s) by (repeat split).
        destruct Hs1 as (A & B & C & D).
        specialize (IH s1 l0 d'). apply IH.
        -- intros t' Ht'. rewrite D. apply Hdef. right; auto.
        -- rewrite A, B, C. exact H.
        -- intros x. rewrite A.
           destruct (get_status_db md5 v (s_ck s) (s_fs s) (s_db s) (l_name t) (s_defs s (l_name t)) false) as [E|[_ E]]; fold g in E; rewrite E.
           ++ apply Hig.
           ++ destruct (N.eqb_spec x (l_name t)) as [->|Hne].
              ** right. split; [apply remove_same|]. exact Eig.
              ** rewrite remove_other by auto. apply Hig.
    + apply prepend_ok in H. destruct H as [l0 [H _]].
      specialize (IH s l0 d' (fun t' Ht' => Hdef t' (or_intror Ht'))). apply (IH H d0 Hig).
Qed.

Lemma ign_frame_refl d : ign_frame d d.
Proof. intros x; auto. Qed.

(* ------------------------------------------------------------------ list --status = the decision of run *)
Lemma task_status_decision c fs d t :
  fst (task_status c fs d t) = decision_letter (run_decision c fs d (l_name t) (l_def t)).
Proof.
  unfold Introspect.task_status, Introspect.run_decision.
  destruct (status_is_ignore d (l_name t)); simpl; auto.
  destruct (g_status (get_status c fs d (l_name t) (l_def t) false)); reflexivity.
Qed.

Lemma run_def_no_calc calc_fd t : l_calc_dep t = [] -> run_def calc_fd t = l_def t.
Proof. unfold run_def. intros ->. reflexivity. Qed.

(* every entry of status_letters: the decision of run in the DB the task was examined in, which is
   the initial DB up to the documented invalidation *)
Lemma status_letters_spec c fs calc_fd pl : forall d n l dk,
  In (n, l, dk) (status_letters c fs pl d) ->
  db_frame c d dk /\
  exists t, In t pl /\ n = l_name t /\
            (l_calc_dep t = [] -> l = decision_letter (run_decision c fs dk n (run_def calc_fd t))).
Proof.
  induction pl as [|t pl IH]; intros d n l dk H; simpl in H; [destruct H|].
  destruct H as [H|H].
  - inversion H; subst. split; [apply db_frame_refl|]. exists t. split; [left; auto|]. split; auto.
    intros Hc. rewrite run_def_no_calc by auto. apply task_status_decision.
  - destruct (IH _ _ _ _ H) as (F & t' & Hin & Hn & Hl). split.
    + eapply db_frame_trans; [apply task_status_frame | exact F].
    + exists t'. split; [right; auto|]. auto.
Qed.

Definition is_task_line (l : lline) : bool := match l with LTask _ _ => true | _ => false end.

Lemma filter_dep_lines o t : filter is_task_line (dep_lines o t) = [].
Proof.
  unfold dep_lines. destruct (o_list_deps o); auto.
  rewrite filter_app. simpl. rewrite app_nil_r. induction (file_dep (l_def t)); simpl; auto.
Qed.

(* the task lines `list --status` prints are exactly status_letters *)
Lemma print_tasks_letters c fs o pl : o_status o = true -> forall d lines d',
  print_tasks c fs o pl d = LOk lines d' ->
  filter is_task_line lines = map (fun x => LTask (fst (fst x)) (snd (fst x))) (status_letters c fs pl d).
Proof.
  intros Hs. induction pl as [|t pl IH]; intros d lines d' H; simpl in H.
  - inversion H; reflexivity.
  - rewrite Hs in H. simpl.
    destruct (task_status c fs d t) as [[l|] d1] eqn:E; [|discriminate]. simpl.
    apply prepend_ok in H. destruct H as [l0 [H ->]].
    simpl. rewrite filter_app, filter_dep_lines. simpl. f_equal. apply (IH d1 l0 d' H).
Qed.

(* ---- Runner.select_task on a node selected for the first time, with no bad / ignored dependency
   and without --always, does what run_decision says ---- *)
Section Select.
Variable tasks : name -> option Dispatch.task.
Variable continue_ : bool.
Definition first_selection (r : Runner.rstate) (k : name) : Prop :=
  let nd := Dispatch.node_of tasks (Runner.r_d r) k in
  Dispatch.n_st nd = Dispatch.SNone /\ Dispatch.n_ign nd = [] /\ Dispatch.n_bad nd = [].

(* what the reporter / dep_manager see, per decision *)
Definition decision_events (k : name) (x : decision) : list Runner.event :=
  match x with
  | DIgnore => [Runner.EGetStatus k; Runner.ESkipIgnore k]
  | DError => [Runner.EGetStatus k; Runner.ERemove k; Runner.EFailure k Runner.kind_dep]
  | DUpToDate => [Runner.EGetStatus k; Runner.ESkipUpToDate k]
  | _ => [Runner.EGetStatus k]
  end.
Definition decision_node_status (x : decision) : Dispatch.status :=
  match x with
  | DIgnore => Dispatch.SIgnore | DError => Dispatch.SFailure | DUpToDate => Dispatch.SUpToDate | _ => Dispatch.SRun
  end.

Lemma node_of_set_status d k s :
  Dispatch.n_st (Dispatch.node_of tasks (Runner.set_status tasks d k s) k) = s.
Proof.
  unfold Runner.set_status, Dispatch.node_of, Dispatch.set_node. simpl. rewrite upd_same. reflexivity.
Qed.

Lemma select_task_decision c fs d n df r k :
  first_selection r k ->
  Dispatch.t_dbignore (Dispatch.get_task tasks k) = status_is_ignore d n ->
  check_of (g_status (get_status c fs d n df false)) = Some (Dispatch.t_check (Dispatch.get_task tasks k)) ->
  let x := run_decision c fs d n df in
  let '(go, r') := Runner.select_task tasks continue_ false r k in
  Runner.r_tr r' = Runner.r_tr r ++ decision_events k x ++
                   (if go then [] else match x with
                                      | DRun => if is_nil (Dispatch.t_setup (Dispatch.get_task tasks k))
                                                then [Runner.ERemove k; Runner.EFailure k Runner.kind_dep] else []
                                      | _ => [] end) /\
  (go = true -> x = DRun) /\
  (x <> DRun -> Dispatch.n_st (Dispatch.node_of tasks (Runner.r_d r') k) = decision_node_status x).
Proof.
  intros (Hst & Hign & Hbad) Hig Hck. unfold Introspect.run_decision. rewrite <- Hig.
  unfold Runner.select_task. rewrite Hst, Hign, Hbad. simpl.
  destruct (Dispatch.t_dbignore (Dispatch.get_task tasks k)) eqn:Ei; simpl.
  - split; [rewrite <- app_assoc; reflexivity|]. split; [discriminate|]. intros _. apply node_of_set_status.
  - destruct (g_status (get_status c fs d n df false)) eqn:Es; simpl in Hck; [injection Hck as Hc | injection Hck as Hc | injection Hck as Hc | discriminate]; rewrite <- Hc; simpl.
    + split; [rewrite <- app_assoc; reflexivity|]. split; [discriminate|]. intros _. apply node_of_set_status.
    + destruct (is_nil (Dispatch.t_setup (Dispatch.get_task tasks k))) eqn:Esu; simpl.
      * unfold Runner.get_args. destruct (Dispatch.t_argerr (Dispatch.get_task tasks k)); simpl.
        -- split; [rewrite <- app_assoc; reflexivity|]. split; [discriminate|]. intros X; congruence.
        -- split; [reflexivity|]. split; auto. intros X; congruence.
      * split; [rewrite ?app_nil_r; reflexivity|]. split; [discriminate|]. intros X; congruence.
    + split; [rewrite <- !app_assoc; reflexivity|]. split; [discriminate|]. intros _. apply node_of_set_status.
Qed.
End Select.

(* ------------------------------------------------------------------ info: the verdict *)
Lemma check_files_no_missing c fs r deps :
  (forall f, In f deps -> file_verdict md5 c fs r f <> FMissing) ->
  forall ch ms, check_files md5 c fs r true deps ch ms = check_files md5 c fs r false deps ch ms.
Proof.
  induction deps as [|f deps IH]; intros H ch ms; simpl; auto.
  destruct (file_verdict md5 c fs r f) eqn:E; auto; try (apply IH; intros; apply H; simpl; auto).
  exfalso. apply (H f); simpl; auto.
Qed.

Lemma file_verdict_missing c fs r f : file_verdict md5 c fs r f = FMissing <-> fs f = None.
Proof.
  unfold file_verdict. destruct (fs f) as [st|]; [|tauto].
  destruct (r_saved r f) as [e|]; [destruct (check_modified md5 c st e) as [[|]|]|]; split; discriminate.
Qed.

(* every file dependency exists and no record was written by the other checker's code path:
   get_log=True answers what get_log=False answers *)
Lemma get_status_modes_agree c fs d t df :
  (forall f, In f (file_dep df) -> fs f <> None) ->
  g_status (get_status c fs d t df true) <> Crash ->
  g_status (get_status c fs d t df true) = g_status (get_status c fs d t df false).
Proof.
  intros Hex Hnc.
  assert (Hcf : forall r, check_files md5 c fs r true (file_dep df) [] [] = check_files md5 c fs r false (file_dep df) [] []).
  { intros r. apply check_files_no_missing. intros f Hf E. apply file_verdict_missing in E. apply (Hex f); auto. }
  revert Hnc. unfold Status.get_status. cbv zeta. fold (ck_changed c (getrec d t)). simpl.
  rewrite <- Hcf.
  set (d1 := if ck_changed c (getrec d t) then remove d t else d).
  destruct (check_files md5 c fs (getrec d1 t) true (file_dep df) [] []) as [ch ms| |] eqn:E; simpl.
  - intros _.
    assert (Hms : ms = []).
    { pose proof (check_files_no_error md5 c fs (getrec d1 t) true (file_dep df)) as Hne.
      specialize (Hne (fun f Hf E' => Hex f Hf (proj1 (file_verdict_missing c fs _ f) E')) [] []).
      rewrite E in Hne. exact Hne. }
    subst ms.
    destruct (is_nil (false_positions (map (eval_utd d t) (uptodate df)) 0)) eqn:E1; simpl;
    destruct (is_nil (file_dep df) && is_nil (evaluated (map (eval_utd d t) (uptodate df)))) eqn:E2; simpl;
    destruct (is_nil (filter (fun x => negb (exists_ fs x)) (targets df))) eqn:E3; simpl;
    destruct (ck_changed c (getrec d t)) eqn:E4; simpl; rewrite ?E; simpl;
    destruct ch; simpl; try reflexivity; rewrite ?orb_true_r; reflexivity.
  - pose proof (check_files_no_error md5 c fs (getrec d1 t) true (file_dep df)) as Hne.
    specialize (Hne (fun f0 Hf E' => Hex f0 Hf (proj1 (file_verdict_missing c fs _ f0) E')) [] []).
    rewrite E in Hne. destruct Hne.
  - intros H. exfalso.
    repeat (match type of H with context [if ?b then _ else _] => destruct b end; simpl in H); congruence.
Qed.

(* ------------------------------------------------------------------ info: the reasons *)
Definition is_changed (c : ck) (fs : fsys) (r : rec) (f : file) : bool :=
  match file_verdict md5 c fs r f with FChanged => true | _ => false end.
Definition is_missing (c : ck) (fs : fsys) (r : rec) (f : file) : bool :=
  match file_verdict md5 c fs r f with FMissing => true | _ => false end.

Lemma check_files_log c fs r deps : forall ch ms,
  check_files md5 c fs r true deps ch ms = FLCrash \/
  check_files md5 c fs r true deps ch ms =
    FLDone (rev ch ++ filter (is_changed c fs r) deps) (rev ms ++ filter (is_missing c fs r) deps).
Proof.
  induction deps as [|f deps IH]; intros ch ms; simpl.
  - right. rewrite !app_nil_r. reflexivity.
  - unfold is_changed, is_missing. destruct (file_verdict md5 c fs r f) eqn:E; auto.
    + destruct (IH ch (f :: ms)) as [H|H]; [left; auto|right]. rewrite H. simpl. rewrite <- !app_assoc. reflexivity.
    + destruct (IH (f :: ch) ms) as [H|H]; [left; auto|right]. rewrite H. simpl. rewrite <- !app_assoc. reflexivity.
    + apply IH.
Qed.

Lemma false_positions_spec l : forall k i,
  In i (false_positions l k) <-> (k <= i)%nat /\ nth_error l (i - k) = Some (Some false).
Proof.
  induction l as [|x l IH]; intros k i; simpl.
  - split; [tauto|]. intros [_ H]. destruct (i - k)%nat; discriminate.
  - assert (Hstep : forall P : Prop, (In i (false_positions l (S k)) <-> P) ->
                    (k < i)%nat -> nth_error l (i - S k) = nth_error (x :: l) (i - k)).
    { intros _ _ Hlt. replace (i - k)%nat with (S (i - S k)) by lia. reflexivity. }
    destruct x as [[|]|].
    + rewrite IH. split.
      * intros [H1 H2]. split; [lia|]. replace (i - k)%nat with (S (i - S k)) by lia. exact H2.
      * intros [H1 H2]. destruct (Nat.eq_dec i k) as [->|Hne].
        -- rewrite Nat.sub_diag in H2. discriminate.
        -- split; [lia|]. replace (i - k)%nat with (S (i - S k)) in H2 by lia. exact H2.
    + simpl. rewrite IH. split.
      * intros [->|[H1 H2]].
        -- split; [lia|]. rewrite Nat.sub_diag. reflexivity.
        -- split; [lia|]. replace (i - k)%nat with (S (i - S k)) by lia. exact H2.
      * intros [H1 H2]. destruct (Nat.eq_dec i k) as [->|Hne]; [left; auto|right].
        split; [lia|]. replace (i - k)%nat with (S (i - S k)) in H2 by lia. exact H2.
    + rewrite IH. split.
      * intros [H1 H2]. split; [lia|]. replace (i - k)%nat with (S (i - S k)) by lia. exact H2.
      * intros [H1 H2]. destruct (Nat.eq_dec i k) as [->|Hne].
        -- rewrite Nat.sub_diag in H2. discriminate.
        -- split; [lia|]. replace (i - k)%nat with (S (i - S k)) in H2 by lia. exact H2.
Qed.

Lemma diff_In a b f : In f (diff a b) <-> In f a /\ ~ In f b.
Proof.
  unfold diff. rewrite filter_In. split; intros [H1 H2]; split; auto.
  - intros Hb. apply mem_In in Hb. rewrite Hb in H2. discriminate.
  - apply negb_true_iff. apply mem_false_In. auto.
Qed.

Definition prev_deps (r : rec) : list file := match r_deps r with Some p => p | None => [] end.

(* everything get_status(get_log=True) reports, read off its definition *)
Lemma get_status_log_reasons c fs d t df :
  let g := get_status c fs d t df true in
  g_status g <> Crash ->
  let r := g_reasons g in
  let rc := getrec (g_db g) t in
  g_db g = (if ck_changed c (getrec d t) then remove d t else d) /\
  rs_uptodate_false r = false_positions (map (eval_utd d t) (uptodate df)) 0 /\
  rs_no_deps r = is_nil (file_dep df) && is_nil (evaluated (map (eval_utd d t) (uptodate df))) /\
  rs_missing_target r = filter (fun x => negb (exists_ fs x)) (targets df) /\
  rs_checker_changed r = (if ck_changed c (getrec d t) then match r_checker (getrec d t) with Some p => Some (p, c) | None => None end else None) /\
  rs_added r = (if deps_changed v rc df then Some (diff (file_dep df) (prev_deps rc)) else None) /\
  rs_removed r = (if deps_changed v rc df then Some (diff (prev_deps rc) (file_dep df)) else None) /\
  rs_missing_file_dep r = filter (is_missing c fs rc) (file_dep df) /\
  rs_changed_file_dep r = filter (is_changed c fs rc) (file_dep df).
Proof.
  cbv zeta. unfold Status.get_status. cbv zeta. fold (ck_changed c (getrec d t)). simpl.
  set (d1 := if ck_changed c (getrec d t) then remove d t else d).
  fold (deps_changed v (getrec d1 t) df). fold (prev_deps (getrec d1 t)).
  destruct (check_files_log c fs (getrec d1 t) (file_dep df) [] []) as [E|E]; rewrite E; simpl.
  - intros H; congruence.
  - intros _. repeat split; reflexivity.
Qed.

(* ---- rendering (Info.get_reasons) ---- *)
Lemma insert_file_In x l f : In f (insert_file x l) <-> f = x \/ In f l.
Proof.
  induction l as [|y l IH]; simpl; [intuition auto|].
  destruct (N.ltb x y); simpl; [intuition auto|]. rewrite IH. intuition auto.
Qed.
Lemma sort_files_In l f : In f (sort_files l) <-> In f l.
Proof.
  unfold sort_files.
  assert (H : forall acc, In f (fold_left (fun acc x => insert_file x acc) l acc) <-> In f acc \/ In f l).
  { induction l as [|x l IH]; intros acc; simpl; [tauto|]. rewrite IH, insert_file_In. intuition auto. }
  rewrite H. simpl. tauto.
Qed.

Lemma in_kind_block r k0 k f :
  In (IItem k f) (match entries r k0 with [] => [] | l => IHeader k0 :: map (IItem k0) l end) <-> k0 = k /\ In f (entries r k).
Proof.
  destruct (entries r k0) as [|x l] eqn:E.
  - split; [intros []|]. intros [-> H]. rewrite E in H. destruct H.
  - split.
    + intros [H|H]; [discriminate|]. apply in_map_iff in H. destruct H as [y [Hy Hin]]. inversion Hy; subst. rewrite E. auto.
    + intros [-> H]. right. rewrite E in H. apply in_map_iff. exists f. auto.
Qed.

Lemma get_reasons_item r k f : In (IItem k f) (get_reasons r) <-> In f (entries r k).
Proof.
  unfold get_reasons. rewrite !in_app_iff. split.
  - intros [H|[H|[H|H]]].
    + destruct (rs_no_deps r); [destruct H as [H|[]]; discriminate | destruct H].
    + destruct (rs_uptodate_false r); [destruct H|]. destruct H as [H|H]; [discriminate|].
      apply in_map_iff in H. destruct H as [y [Hy _]]. discriminate.
    + destruct (rs_checker_changed r) as [[p c']|]; [destruct H as [H|[]]; discriminate | destruct H].
    + apply in_flat_map in H. destruct H as [k0 [_ H]]. apply in_kind_block in H. tauto.
  - intros H. right. right. right. apply in_flat_map. exists k. split.
    + unfold all_kinds. destruct k; simpl; auto 6.
    + apply in_kind_block. auto.
Qed.

Lemma get_reasons_nodeps r : In INoDeps (get_reasons r) <-> rs_no_deps r = true.
Proof.
  unfold get_reasons. rewrite !in_app_iff. split.
  - intros [H|[H|[H|H]]].
    + destruct (rs_no_deps r); auto. destruct H.
    + destruct (rs_uptodate_false r); [destruct H|]. destruct H as [H|H]; [discriminate|].
      apply in_map_iff in H. destruct H as [y [Hy _]]. discriminate.
    + destruct (rs_checker_changed r) as [[p c']|]; [destruct H as [H|[]]; discriminate | destruct H].
    + apply in_flat_map in H. destruct H as [k0 [_ H]].
      destruct (entries r k0); [destruct H|]. destruct H as [H|H]; [discriminate|].
      apply in_map_iff in H. destruct H as [y [Hy _]]. discriminate.
  - intros ->. left. simpl. auto.
Qed.

Lemma get_reasons_utd r i : In (IUtdItem i) (get_reasons r) <-> In i (rs_uptodate_false r).
Proof.
  unfold get_reasons. rewrite !in_app_iff. split.
  - intros [H|[H|[H|H]]].
    + destruct (rs_no_deps r); [destruct H as [H|[]]; discriminate | destruct H].
    + destruct (rs_uptodate_false r) as [|x l]; [destruct H|]. destruct H as [H|H]; [discriminate|].
      apply in_map_iff in H. destruct H as [y [Hy Hin]]. inversion Hy; subst; auto.
    + destruct (rs_checker_changed r) as [[p c']|]; [destruct H as [H|[]]; discriminate | destruct H].
    + apply in_flat_map in H. destruct H as [k0 [_ H]].
      destruct (entries r k0); [destruct H|]. destruct H as [H|H]; [discriminate|].
      apply in_map_iff in H. destruct H as [y [Hy _]]. discriminate.
  - intros H. right. left. destruct (rs_uptodate_false r) as [|x l]; [destruct H|].
    right. apply in_map_iff. exists i. auto.
Qed.

Lemma get_reasons_checker r p c' : In (IChecker p c') (get_reasons r) <-> rs_checker_changed r = Some (p, c').
Proof.
  unfold get_reasons. rewrite !in_app_iff. split.
  - intros [H|[H|[H|H]]].
    + destruct (rs_no_deps r); [destruct H as [H|[]]; discriminate | destruct H].
    + destruct (rs_uptodate_false r); [destruct H|]. destruct H as [H|H]; [discriminate|].
      apply in_map_iff in H. destruct H as [y [Hy _]]. discriminate.
    + destruct (rs_checker_changed r) as [[p0 c0]|]; [|destruct H]. destruct H as [H|[]]. inversion H; subst; auto.
    + apply in_flat_map in H. destruct H as [k0 [_ H]].
      destruct (entries r k0); [destruct H|]. destruct H as [H|H]; [discriminate|].
      apply in_map_iff in H. destruct H as [y [Hy _]]. discriminate.
  - intros ->. right. right. left. simpl. auto.
Qed.

(* nothing to print <-> every reason is empty *)
Lemma get_reasons_nil r :
  get_reasons r = [] <->
  rs_no_deps r = false /\ rs_uptodate_false r = [] /\ rs_checker_changed r = None /\ forall k, entries r k = [].
Proof.
  unfold get_reasons. split.
  - intros H. apply app_eq_nil in H. destruct H as [H1 H]. apply app_eq_nil in H. destruct H as [H2 H].
    apply app_eq_nil in H. destruct H as [H3 H4].
    split; [destruct (rs_no_deps r); [discriminate|auto]|].
    split; [destruct (rs_uptodate_false r); [auto|discriminate]|].
    split; [destruct (rs_checker_changed r) as [[? ?]|]; [discriminate|auto]|].
    intros k. unfold all_kinds in H4. simpl in H4.
    repeat (apply app_eq_nil in H4; let A := fresh "A" in destruct H4 as [A H4]).
    destruct k;
      match goal with
      | A : match entries r ?kk with _ => _ end = [] |- entries r ?kk = [] => destruct (entries r kk); [auto|discriminate]
      end.
  - intros (H1 & H2 & H3 & H4). rewrite H1, H2, H3. simpl. unfold all_kinds. simpl. rewrite !H4. reflexivity.
Qed.

Lemma set_eqb_false_diff a b : set_eqb a b = false -> diff a b <> [] \/ diff b a <> [].
Proof.
  unfold set_eqb. intros H. apply andb_false_iff in H. destruct H as [H|H].
  - left. intros E. assert (Hall : forallb (fun x => mem x b) a = true).
    { apply forallb_forall. intros x Hx. destruct (mem x b) eqn:Em; auto.
      assert (Hin : In x (diff a b)) by (apply diff_In; split; auto; apply mem_false_In; auto).
      rewrite E in Hin. destruct Hin. }
    congruence.
  - right. intros E. assert (Hall : forallb (fun x => mem x a) b = true).
    { apply forallb_forall. intros x Hx. destruct (mem x a) eqn:Em; auto.
      assert (Hin : In x (diff b a)) by (apply diff_In; split; auto; apply mem_false_In; auto).
      rewrite E in Hin. destruct Hin. }
    congruence.
Qed.

Lemma sort_files_nil l : sort_files l = [] <-> l = [].
Proof.
  split; [|intros ->; reflexivity]. intros H. destruct l as [|x l]; auto.
  assert (Hin : In x (sort_files (x :: l))) by (apply sort_files_In; simpl; auto).
  rewrite H in Hin. destruct Hin.
Qed.

Lemma filter_nil_iff {A} (p : A -> bool) l : filter p l = [] <-> forall x, In x l -> p x = false.
Proof.
  induction l as [|y l IH]; simpl; [tauto|].
  destruct (p y) eqn:E.
  - split; [discriminate|]. intros H. rewrite (H y) in E by auto. discriminate.
  - rewrite IH. split; [intros H x [<-|Hx]; auto | intros H x Hx; apply H; auto].
Qed.

Lemma deps_changed_diff r df :
  deps_changed v r df = true -> diff (file_dep df) (prev_deps r) <> [] \/ diff (prev_deps r) (file_dep df) <> [].
Proof.
  unfold deps_changed, prev_deps. destruct (r_deps r) as [[|x p]|]; [| |discriminate].
  - intros H. apply andb_true_iff in H. destruct H as [_ H]. apply negb_true_iff in H.
    apply set_eqb_false_diff in H. tauto.
  - intros H. apply negb_true_iff in H. apply set_eqb_false_diff in H. tauto.
Qed.

(* info prints no reason exactly when the verdict is up-to-date *)
Lemma info_no_reason_iff_uptodate c fs d t df :
  let g := get_status c fs d t df true in
  g_status g <> Crash ->
  (get_reasons (g_reasons g) = [] <-> g_status g = UpToDate).
Proof.
  cbv zeta. intros Hnc.
  destruct (get_status_log_reasons c fs d t df Hnc) as (Edb & R1 & R2 & R3 & R4 & R5 & R6 & R7 & R8).
  set (g := get_status c fs d t df true) in *.
  set (rc := getrec (g_db g) t) in *.
  rewrite get_reasons_nil.
  unfold g at 3. rewrite get_status_log_uptodate_iff.
  rewrite <- items_ok_b, <- some_dep_b, <- targets_ok_b.
  assert (Hrc : ck_changed c (getrec d t) = false -> rc = getrec d t).
  { intros E. unfold rc. rewrite Edb, E. reflexivity. }
  split.
  - intros (N1 & N2 & N3 & N4).
    assert (Eck : ck_changed c (getrec d t) = false).
    { destruct (ck_changed c (getrec d t)) eqn:E; auto. rewrite R4 in N3. unfold ck_changed in E.
      destruct (r_checker (getrec d t)); discriminate. }
    specialize (Hrc Eck). rewrite <- Hrc.
    split; [rewrite <- R1, N2; reflexivity|]. split; [rewrite <- R2; exact N1|].
    split; [rewrite <- R3; exact (N4 KMissingTarget)|]. split; [exact Eck|].
    split.
    + destruct (deps_changed v rc df) eqn:E; auto. exfalso.
      pose proof (N4 KAdded) as A. pose proof (N4 KRemoved) as B. unfold entries in A, B. rewrite R5 in A. rewrite R6 in B.
      apply sort_files_nil in A. apply sort_files_nil in B. destruct (deps_changed_diff rc df E); auto.
    + apply Forall_forall. intros f Hf.
      pose proof (N4 KChanged) as A. pose proof (N4 KMissingDep) as B. unfold entries in A, B. rewrite R8 in A. rewrite R7 in B.
      rewrite filter_nil_iff in A, B. specialize (A f Hf). specialize (B f Hf). unfold is_changed in A. unfold is_missing in B.
      destruct (file_verdict md5 c fs rc f) eqn:E; try discriminate; auto.
      exfalso. apply Hnc. fold g.
      (* a TypeError verdict is excluded by the hypothesis *)
      clear -E Hf Hnc Edb. exfalso. apply Hnc.
      unfold g, Status.get_status. cbv zeta. fold (ck_changed c (getrec d t)).
      assert (Hcr : check_files md5 c fs rc true (file_dep df) [] [] = FLCrash).
      { destruct (check_files_log c fs rc (file_dep df) [] []) as [X|X]; auto. exfalso.
        clear -E Hf X. revert X. generalize (@nil file) at 1 3. generalize (@nil file) at 1 2.
        induction (file_dep df) as [|y l IH]; [destruct Hf|]. intros ms ch. simpl.
        destruct Hf as [->|Hf].
        - rewrite E. discriminate.
        - destruct (file_verdict md5 c fs rc y) eqn:Ey.
          + intros X. apply (IH Hf (y :: ms) ch).
            unfold is_missing, is_changed in *. rewrite Ey in X. simpl in X. simpl. rewrite <- !app_assoc. exact X.
          + intros X. apply (IH Hf ms (y :: ch)).
            unfold is_missing, is_changed in *. rewrite Ey in X. simpl in X. simpl. rewrite <- !app_assoc. exact X.
          + intros X. apply (IH Hf ms ch). unfold is_missing, is_changed in *. rewrite Ey in X. exact X.
          + discriminate. }
      unfold rc in Hcr. rewrite Edb in Hcr. simpl. rewrite Hcr.
      repeat (match goal with |- context [if ?b then _ else _] => destruct b end; simpl); reflexivity.
  - intros (U1 & U2 & U3 & U4 & U5 & U6).
    specialize (Hrc U4).
    split; [rewrite R2; exact U2|]. split; [rewrite R1; apply is_nil_true; exact U1|].
    split; [rewrite R4, U4; reflexivity|].
    intros k. destruct k; unfold entries.
    + rewrite R3. apply is_nil_true. exact U3.
    + rewrite R8. apply filter_nil_iff. intros f Hf. rewrite Forall_forall in U6. unfold is_changed. rewrite Hrc, (U6 f Hf). reflexivity.
    + rewrite R7. apply filter_nil_iff. intros f Hf. rewrite Forall_forall in U6. unfold is_missing. rewrite Hrc, (U6 f Hf). reflexivity.
    + rewrite R6, Hrc, U5. reflexivity.
    + rewrite R5, Hrc, U5. reflexivity.
Qed.

End IntrospectP.
