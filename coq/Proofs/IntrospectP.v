(* IntrospectP.v -- lemmas about Model/Introspect.v: the frame of list / info on the DB, the letter
   of `list --status` = the decision of Runner.select_task, the verdict and the reasons of `info`. *)
From Coq Require Import ZifyBool.
From DoitV Require Import Base Status History StatusP HistoryP Introspect.
From DoitV Require Runner.
Open Scope Z_scope.

(* ------------------------------------------------------------------ the frame on the DB *)
(* [d'] is [d], except that records written by another checker than [c] may be gone *)
Definition db_frame (c : ck) (d d' : db) : Prop :=
  forall x, d' x = d x \/ (d' x = None /\ ck_changed c (getrec d x) = true).

Lemma db_frame_refl c d : db_frame c d d.
Proof. intros x; auto. Qed.

Lemma db_frame_trans c d1 d2 d3 : db_frame c d1 d2 -> db_frame c d2 d3 -> db_frame c d1 d3.
Proof.
  intros H1 H2 x. destruct (H2 x) as [E|[E F]].
  - rewrite E. apply H1.
  - destruct (H1 x) as [E1|[E1 F1]].
    + right. split; auto. unfold getrec in *. rewrite E1 in F. exact F.
    + right. split; auto.
Qed.

Lemma db_frame_remove c d t : ck_changed c (getrec d t) = true -> db_frame c d (remove d t).
Proof.
  intros H x. destruct (N.eqb_spec x t) as [->|Hne].
  - right. split; auto. apply remove_same.
  - left. apply remove_other; auto.
Qed.

(* no record of another checker: the frame is the identity *)
Definition no_foreign (c : ck) (d : db) : Prop := forall x, ck_changed c (getrec d x) = false.
Lemma db_frame_no_foreign c d d' : no_foreign c d -> db_frame c d d' -> forall x, d' x = d x.
Proof. intros Hn H x. destruct (H x) as [E|[_ F]]; auto. rewrite Hn in F. discriminate. Qed.

(* ------------------------------------------------------------------ merge_calc_dep: the fix-point
   [creach tb vals t c]: c is a calc_dep of t as `run` ends up seeing it -- declared by t, or named under
   'calc_dep' in the values of a calc_dep of t that is a task (to any depth). *)
Inductive creach (tb : table) (vals : name -> cvals) (t : ltask) : name -> Prop :=
| cr_own c : In c (l_calc_dep t) -> creach tb vals t c
| cr_step c c' : creach tb vals t c -> lookup tb c <> None -> In c' (cv_calc_dep (vals c)) -> creach tb vals t c'.

Lemma fold_addset_In l : forall acc x, In x (fold_left (fun a c => addset c a) l acc) <-> In x l \/ In x acc.
Proof.
  induction l as [|y l IH]; intros acc x; simpl.
  - tauto.
  - rewrite IH, addset_In. split; intros H; intuition auto.
Qed.

Lemma add_file_deps_In df extra f : In f (file_dep (add_file_deps df extra)) <-> In f extra \/ In f (file_dep df).
Proof. unfold add_file_deps. simpl. exact (fold_addset_In extra (file_dep df) f). Qed.

Lemma lookup_name tb : forall n x, lookup tb n = Some x -> l_name x = n /\ In x tb.
Proof.
  induction tb as [|t r IH]; intros n x H; simpl in H; [discriminate|].
  destruct (lookup r n) eqn:E.
  - inversion H; subst. destruct (IH n x E). split; auto. right; auto.
  - destruct (N.eqb_spec (l_name t) n); inversion H; subst. split; auto. left; auto.
Qed.
Lemma lookup_in_names tb n : lookup tb n <> None -> In n (map l_name tb).
Proof.
  intros H. destruct (lookup tb n) eqn:E; [|congruence].
  destruct (lookup_name tb n l E) as [<- Hin]. apply in_map. exact Hin.
Qed.

Lemma merge_todo_In tb done m c :
  In c (merge_todo tb done m) <-> In c (m_calc m) /\ ~ In c done /\ lookup tb c <> None.
Proof.
  unfold merge_todo. rewrite filter_In, andb_true_iff, negb_true_iff, mem_false_In.
  destruct (lookup tb c); split; intros (A & B & C); repeat split; auto; try discriminate; congruence.
Qed.

(* the loop invariant: [done] = the calc_dep tasks whose values were merged so far *)
Record minv (tb : table) (vals : name -> cvals) (t : ltask) (done : list name) (m : mtask) : Prop := {
  mi_done : forall c, In c done -> lookup tb c <> None /\ In c (m_calc m);
  mi_sound : forall c, In c (m_calc m) -> creach tb vals t c;
  mi_own : forall c, In c (l_calc_dep t) -> In c (m_calc m);
  mi_closed : forall c c', In c done -> In c' (cv_calc_dep (vals c)) -> In c' (m_calc m);
  mi_fd : forall f, In f (file_dep (m_def m)) <->
                    In f (file_dep (l_def t)) \/ exists c, In c done /\ In f (cv_file_dep (vals c));
  mi_td : forall x, In x (m_task_dep m) <->
                    In x (l_task_dep t) \/ exists c, In c done /\ In x (cv_task_dep (vals c));
  mi_rest : targets (m_def m) = targets (l_def t) /\ uptodate (m_def m) = uptodate (l_def t) /\
            act_values (m_def m) = act_values (l_def t) /\ act_result (m_def m) = act_result (l_def t)
}.

Lemma minv_init tb vals t : minv tb vals t [] (minit t).
Proof.
  split; simpl.
  - intros c [].
  - intros c H. apply fold_addset_In in H. destruct H as [H|[]]. apply cr_own; auto.
  - intros c H. apply fold_addset_In. auto.
  - intros c c' [].
  - intros f. split; [auto|]. intros [H|(c & [] & _)]; auto.
  - intros x. split; [auto|]. intros [H|(c & [] & _)]; auto.
  - auto.
Qed.

Lemma update_deps_calc_mono m x c : In c (m_calc m) -> In c (m_calc (update_deps m x)).
Proof. intros H. simpl. apply fold_addset_In. auto. Qed.

Lemma minv_step tb vals t done m c :
  minv tb vals t done m -> In c (m_calc m) -> lookup tb c <> None ->
  minv tb vals t (done ++ [c]) (update_deps m (vals c)).
Proof.
  intros I Hc Ht. destruct I as [Id Is Io Icl Ifd Itd Ir]. split.
  - intros x H. apply in_app_iff in H. destruct H as [H|[<-|[]]].
    + destruct (Id x H). split; auto. apply update_deps_calc_mono; auto.
    + split; auto. apply update_deps_calc_mono; auto.
  - intros x H. simpl in H. apply fold_addset_In in H. destruct H as [H|H]; auto.
    eapply cr_step; eauto.
  - intros x H. apply update_deps_calc_mono; auto.
  - intros x x' H H'. simpl. apply fold_addset_In. apply in_app_iff in H. destruct H as [H|[<-|[]]]; auto.
    right. eapply Icl; eauto.
  - intros f. unfold update_deps. cbn [m_def]. rewrite add_file_deps_In, Ifd. split.
    + intros [H|[H|(x & Hx & Hf)]]; auto.
      * right. exists c. split; auto. apply in_app_iff. right. left. reflexivity.
      * right. exists x. split; auto. apply in_app_iff. auto.
    + intros [H|(x & Hx & Hf)]; auto. apply in_app_iff in Hx. destruct Hx as [Hx|[<-|[]]]; auto.
      right. right. exists x. auto.
  - intros x. simpl. rewrite in_app_iff, Itd. split.
    + intros [[H|(y & Hy & Hf)]|H]; auto.
      * right. exists y. split; auto. apply in_app_iff. auto.
      * right. exists c. split; auto. apply in_app_iff. right. left. reflexivity.
    + intros [H|(y & Hy & Hf)]; auto. apply in_app_iff in Hy. destruct Hy as [Hy|[<-|[]]]; auto.
      left. right. exists y. auto.
  - simpl. exact Ir.
Qed.

Lemma minv_fold tb vals t : forall todo done m,
  minv tb vals t done m -> (forall c, In c todo -> In c (m_calc m) /\ lookup tb c <> None) ->
  minv tb vals t (done ++ todo) (fold_left (fun m' c => update_deps m' (vals c)) todo m).
Proof.
  induction todo as [|c r IH]; intros done m I H; simpl.
  - rewrite app_nil_r. exact I.
  - replace (done ++ c :: r) with ((done ++ [c]) ++ r) by (rewrite <- app_assoc; reflexivity).
    apply IH.
    + destruct (H c (or_introl eq_refl)). apply minv_step; auto.
    + intros x Hx. destruct (H x (or_intror Hx)). split; auto. apply update_deps_calc_mono; auto.
Qed.

(* the loop ends in a state where every calc_dep that is a task has been merged *)
Lemma merge_loop_inv tb vals t : forall fuel done m m',
  minv tb vals t done m -> merge_loop fuel tb vals done m = Some m' ->
  exists done', minv tb vals t done' m' /\ merge_todo tb done' m' = [].
Proof.
  induction fuel as [|k IH]; intros done m m' I H; [discriminate|]. cbn [merge_loop] in H.
  destruct (merge_todo tb done m) as [|c r] eqn:E.
  - inversion H; subst. exists done. auto.
  - eapply IH; [|exact H]. apply minv_fold; auto.
    intros x Hx. rewrite <- E in Hx. apply merge_todo_In in Hx. tauto.
Qed.

Lemma minv_final tb vals t done m :
  minv tb vals t done m -> merge_todo tb done m = [] ->
  (forall c, In c (m_calc m) <-> creach tb vals t c) /\
  (forall c, In c done <-> creach tb vals t c /\ lookup tb c <> None).
Proof.
  intros I E.
  assert (Hd : forall c, In c (m_calc m) -> lookup tb c <> None -> In c done).
  { intros c Hc Ht. destruct (mem c done) eqn:M; [apply mem_In; auto|].
    apply mem_false_In in M. assert (X : In c (merge_todo tb done m)) by (apply merge_todo_In; auto).
    rewrite E in X. destruct X. }
  assert (Hr : forall c, creach tb vals t c -> In c (m_calc m)).
  { intros c R. induction R as [c H|c c' R IHR Ht Hin].
    - apply (mi_own _ _ _ _ _ I); auto.
    - eapply (mi_closed _ _ _ _ _ I); eauto. }
  split; intros c; split.
  - apply (mi_sound _ _ _ _ _ I).
  - apply Hr.
  - intros H. destruct (mi_done _ _ _ _ _ I c H). split; auto. apply (mi_sound _ _ _ _ _ I); auto.
  - intros [R Ht]. auto.
Qed.

(* fuel: the tasks not marked yet *)
Definition rem_tasks (tb : table) (done : list name) : nat :=
  length (filter (fun n => negb (mem n done)) (map l_name tb)).

Lemma filter_length_lt {A} (f g : A -> bool) (c : A) : forall l,
  (forall x, g x = true -> f x = true) -> In c l -> f c = true -> g c = false ->
  (length (filter g l) < length (filter f l))%nat.
Proof.
  intros l Hgf. induction l as [|y l IH]; intros Hin Hf Hg; [destruct Hin|].
  assert (Hle : forall l', (length (filter g l') <= length (filter f l'))%nat).
  { induction l' as [|z l' IH']; simpl; auto. destruct (g z) eqn:Gz.
    - rewrite (Hgf z Gz). simpl. lia.
    - destruct (f z); simpl; lia. }
  simpl. destruct Hin as [->|Hin].
  - rewrite Hf, Hg. simpl. specialize (Hle l). lia.
  - specialize (IH Hin Hf Hg). destruct (g y) eqn:Gy.
    + rewrite (Hgf y Gy). simpl. lia.
    + destruct (f y); simpl; lia.
Qed.

Lemma merge_loop_some tb vals : forall fuel done m,
  (rem_tasks tb done < fuel)%nat -> merge_loop fuel tb vals done m <> None.
Proof.
  induction fuel as [|k IH]; intros done m H; [lia|]. simpl.
  destruct (merge_todo tb done m) as [|c r] eqn:E; [discriminate|].
  apply IH.
  assert (Hc : In c (merge_todo tb done m)) by (rewrite E; left; reflexivity).
  apply merge_todo_In in Hc. destruct Hc as (_ & Hnd & Ht).
  assert ((rem_tasks tb (done ++ c :: r) < rem_tasks tb done)%nat); [|lia].
  unfold rem_tasks. apply (filter_length_lt _ _ c).
  - intros x Hx. apply negb_true_iff in Hx. apply negb_true_iff.
    apply mem_false_In in Hx. apply mem_false_In. intros Hin. apply Hx. apply in_app_iff. auto.
  - apply lookup_in_names; auto.
  - apply negb_true_iff. apply mem_false_In. exact Hnd.
  - apply negb_false_iff. apply mem_In. apply in_app_iff. right. left. reflexivity.
Qed.

Lemma filter_len_le {A} (f : A -> bool) l : (length (filter f l) <= length l)%nat.
Proof. induction l as [|x l IH]; simpl; auto. destruct (f x); simpl; lia. Qed.

(* one more round than there are tasks is enough: the out-of-fuel value never occurs *)
Lemma merged_some tb vals t : merged tb vals t <> None.
Proof.
  unfold merged. apply merge_loop_some. unfold rem_tasks.
  pose proof (filter_len_le (fun n => negb (mem n [])) (map l_name tb)) as H. rewrite map_length in H. lia.
Qed.
Lemma merged_run_task tb vals t : merged tb vals t = Some (run_task tb vals t).
Proof. unfold run_task. destruct (merged tb vals t) eqn:E; auto. destruct (merged_some tb vals t E). Qed.

(* what the merged Task object holds: exactly the reachable calc_dep and their contributions *)
Theorem T_merge_reaches tb vals t :
  let m := run_task tb vals t in
  merged tb vals t = Some m /\
  (forall c, In c (m_calc m) <-> creach tb vals t c) /\
  (forall f, In f (file_dep (m_def m)) <->
     In f (file_dep (l_def t)) \/ exists c, creach tb vals t c /\ lookup tb c <> None /\ In f (cv_file_dep (vals c))) /\
  (forall x, In x (m_task_dep m) <->
     In x (l_task_dep t) \/ exists c, creach tb vals t c /\ lookup tb c <> None /\ In x (cv_task_dep (vals c))) /\
  targets (m_def m) = targets (l_def t) /\ uptodate (m_def m) = uptodate (l_def t) /\
  act_values (m_def m) = act_values (l_def t) /\ act_result (m_def m) = act_result (l_def t).
Proof.
  cbv zeta. pose proof (merged_run_task tb vals t) as E. split; [exact E|].
  unfold merged in E. destruct (merge_loop_inv tb vals t _ _ _ _ (minv_init tb vals t) E) as (done & I & F).
  destruct (minv_final tb vals t done _ I F) as [Hc Hd]. split; [exact Hc|]. split; [|split].
  - intros f. rewrite (mi_fd _ _ _ _ _ I). split; (intros [H|(c & Hx & Hf)]; [auto|right; exists c]).
    + apply Hd in Hx. tauto.
    + destruct Hf as (A & B). split; auto. apply Hd. tauto.
  - intros x. rewrite (mi_td _ _ _ _ _ I). split; (intros [H|(c & Hx & Hf)]; [auto|right; exists c]).
    + apply Hd in Hx. tauto.
    + destruct Hf as (A & B). split; auto. apply Hd. tauto.
  - exact (mi_rest _ _ _ _ _ I).
Qed.

(* ... a fix-point of Task.update_deps: merging the values of any calc_dep once more adds nothing *)
Theorem T_merge_closed tb vals t c :
  let m := run_task tb vals t in
  In c (m_calc m) -> lookup tb c <> None ->
  (forall c', In c' (m_calc (update_deps m (vals c))) <-> In c' (m_calc m)) /\
  (forall f, In f (file_dep (m_def (update_deps m (vals c)))) <-> In f (file_dep (m_def m))) /\
  (forall x, In x (m_task_dep (update_deps m (vals c))) <-> In x (m_task_dep m)).
Proof.
  cbv zeta. intros Hc Ht. destruct (T_merge_reaches tb vals t) as (_ & Rc & Rf & Rt & _). cbv zeta in *.
  apply Rc in Hc. split; [|split].
  - intros c'. simpl. rewrite fold_addset_In. split; [|auto]. intros [H|H]; auto.
    apply Rc. eapply cr_step; eauto.
  - intros f. unfold update_deps. cbn [m_def]. rewrite add_file_deps_In. split; [|auto]. intros [H|H]; auto.
    apply Rf. right. exists c. auto.
  - intros x. simpl. rewrite in_app_iff. split; [|auto]. intros [H|H]; auto.
    apply Rt. right. exists c. auto.
Qed.

Lemma run_def_no_calc tb vals t : l_calc_dep t = [] -> run_def tb vals t = l_def t.
Proof. intros H. unfold run_def, run_task, merged, minit. rewrite H. reflexivity. Qed.

Section IntrospectP.
Variable md5 : N -> N.
Variable v : ver.

Notation get_status := (get_status md5 v).
Notation run_decision := (run_decision md5 v).

Lemma get_status_frame c fs d t df gl : db_frame c d (g_db (get_status c fs d t df gl)).
Proof.
  destruct (get_status_db md5 v c fs d t df gl) as [E|[F E]]; rewrite E.
  - apply db_frame_refl.
  - apply db_frame_remove; auto.
Qed.

Lemma prepend_ok ls r l d : prepend ls r = LOk l d -> exists l0, r = LOk l0 d /\ l = ls ++ l0.
Proof. destruct r; simpl; intros H; inversion H; subst. eexists; split; reflexivity. Qed.
Lemma prepend_crash ls r l d : prepend ls r = LCrash l d -> exists l0, r = LCrash l0 d /\ l = ls ++ l0.
Proof. destruct r; simpl; intros H; inversion H; subst. eexists; split; reflexivity. Qed.

(* the DB `list` / `info` leave in memory, whatever the options and the outcome *)
Definition lres_db (d : db) (r : lres) : db :=
  match r with LOk _ d' | LCrash _ d' => d' | _ => d end.
Definition ires_db (d : db) (r : ires) : db :=
  match r with IOk _ _ _ d' | ICrash d' => d' | _ => d end.

Lemma persisted_frame b c d d' : db_frame c d d' -> db_frame c d (persisted b d d').
Proof. intros H. destruct b; simpl; auto; apply db_frame_refl. Qed.

(* what a status query leaves alone *)
Definition same_world (s s' : state) : Prop :=
  s_fs s' = s_fs s /\ s_clock s' = s_clock s /\ s_defs s' = s_defs s /\ s_ck s' = s_ck s.

Lemma query_step_world size_of s o : query_op o = true -> same_world s (History.step md5 size_of v s o).
Proof. destruct o; simpl; try discriminate; intros _; repeat split. Qed.

Lemma query_run_world size_of ops : forall s, forallb query_op ops = true -> same_world s (History.run_from md5 size_of v s ops).
Proof.
  induction ops as [|o ops IH]; intros s H; simpl in *.
  - repeat split.
  - apply andb_true_iff in H. destruct H as [H1 H2].
    destruct (query_step_world size_of s o H1) as (A & B & C & D).
    destruct (IH (History.step md5 size_of v s o) H2) as (A' & B' & C' & D').
    repeat split; congruence.
Qed.

Lemma list_ops_query d st pl : forallb query_op (list_ops d st pl) = true.
Proof.
  unfold list_ops. destruct st; auto. induction pl as [|t pl IH]; simpl; auto.
  destruct (status_is_ignore d (l_name t)); simpl; auto.
Qed.
Lemma info_ops_query hide n : forallb query_op (info_ops hide n) = true.
Proof. destruct hide; reflexivity. Qed.

Definition ign_frame (d dk : db) : Prop :=
  forall x, dk x = d x \/ (dk x = None /\ status_is_ignore d x = false).
Lemma ign_frame_refl d : ign_frame d d.
Proof. intros x; auto. Qed.

Definition is_task_line (l : lline) : bool := match l with LTask _ _ => true | _ => false end.


(* ------------------------------------------------------------------ the commands (any code version [iv]) *)
Section Cmds.
Variable iv : iver.
Variable cv : name -> cvals.
Variable tb : table.

Notation task_status := (task_status md5 v iv cv tb).
Notation print_tasks := (print_tasks md5 v iv cv tb).
Notation info_cmd := (info_cmd md5 v iv cv tb).
Notation status_letters := (status_letters md5 v iv cv tb).
Notation shown_def := (shown_def iv cv tb).

Lemma task_status_frame c fs d t : db_frame c d (snd (task_status c fs d t)).
Proof.
  unfold Introspect.task_status. destruct (status_is_ignore d (l_name t)); simpl.
  - apply db_frame_refl.
  - apply get_status_frame.
Qed.

Lemma print_tasks_frame c fs o pl : forall d, db_frame c d (lres_db d (print_tasks c fs o pl d)).
Proof.
  induction pl as [|t pl IH]; intros d; simpl.
  - apply db_frame_refl.
  - destruct (o_status o).
    + pose proof (task_status_frame c fs d t) as F.
      destruct (task_status c fs d t) as [[l|] d1]; simpl in *; auto.
      specialize (IH d1).
      destruct (print_tasks c fs o pl d1); simpl in *; try apply db_frame_refl; eapply db_frame_trans; eauto.
    + specialize (IH d). destruct (print_tasks c fs o pl d); simpl in *; auto; apply db_frame_refl.
Qed.

Lemma list_cmd_frame name_ltb o c fs d : db_frame c d (lres_db d (list_cmd md5 v name_ltb iv cv tb o c fs d)).
Proof.
  unfold Introspect.list_cmd. destruct (print_list name_ltb tb o); simpl; try apply db_frame_refl.
  apply print_tasks_frame.
Qed.

(* without --status the dependency manager is never asked *)
Lemma print_tasks_no_status c fs o pl : o_status o = false -> forall d, lres_db d (print_tasks c fs o pl d) = d.
Proof.
  intros Hs. induction pl as [|t pl IH]; intros d; simpl; auto.
  rewrite Hs. specialize (IH d). destruct (print_tasks c fs o pl d); simpl in *; auto.
Qed.

Lemma info_cmd_frame pos hide c fs d : db_frame c d (ires_db d (info_cmd pos hide c fs d)).
Proof.
  unfold Introspect.info_cmd. destruct pos as [|n [|n2 pos]]; simpl; try apply db_frame_refl.
  destruct (lookup tb n) as [t|]; simpl; try apply db_frame_refl.
  destruct hide; simpl; try apply db_frame_refl.
  destruct (fixIgn iv && status_is_ignore d (l_name t)); simpl; try apply db_frame_refl.
  pose proof (get_status_frame c fs d (l_name t) (shown_def d t) true) as F.
  destruct (g_status (get_status c fs d (l_name t) (shown_def d t) true)); simpl; auto.
Qed.

Lemma info_hide_db pos c fs d : ires_db d (info_cmd pos true c fs d) = d.
Proof.
  unfold Introspect.info_cmd. destruct pos as [|n [|n2 pos]]; simpl; auto. destruct (lookup tb n); reflexivity.
Qed.

(* the DB after `list`: the DB after the Check operations of the tasks printed (those not ignored),
   when the definitions the command hands to get_status are the ones of the history's state *)
Lemma print_tasks_as_history size_of o pl : forall s lines d',
  (forall t dk, In t pl -> shown_def dk t = s_defs s (l_name t)) ->
  print_tasks (s_ck s) (s_fs s) o pl (s_db s) = LOk lines d' ->
  forall d0, ign_frame d0 (s_db s) ->
  s_db (History.run_from md5 size_of v s (list_ops d0 (o_status o) pl)) = d'.
Proof.
  unfold list_ops. induction pl as [|t pl IH]; intros s lines d' Hdef H d0 Hig; simpl in H.
  - inversion H; subst. destruct (o_status o); reflexivity.
  - destruct (o_status o) eqn:Est.
    + assert (Eig : status_is_ignore d0 (l_name t) = status_is_ignore (s_db s) (l_name t)).
      { destruct (Hig (l_name t)) as [E|[E F]]; unfold status_is_ignore, getrec in *; rewrite E; auto. }
      unfold Introspect.task_status in H. simpl. rewrite Eig.
      destruct (status_is_ignore (s_db s) (l_name t)) eqn:Ei; simpl in *.
      * apply prepend_ok in H. destruct H as [l0 [H _]].
        specialize (IH s l0 d' (fun t' dk Ht' => Hdef t' dk (or_intror Ht'))). apply (IH H d0 Hig).
      * rewrite (Hdef t (s_db s) (or_introl eq_refl)) in H.
        destruct (status_letter (g_status (get_status (s_ck s) (s_fs s) (s_db s) (l_name t) (s_defs s (l_name t)) false))) eqn:El; [|discriminate].
        apply prepend_ok in H. destruct H as [l0 [H _]].
        set (g := get_status (s_ck s) (s_fs s) (s_db s) (l_name t) (s_defs s (l_name t)) false) in *.
        set (s1 := History.step md5 size_of v s (Check (l_name t))).
        assert (Hs1 : s_db s1 = g_db g /\ s_ck s1 = s_ck s /\ s_fs s1 = s_fs s /\ s_defs s1 = s_defs s) by (repeat split).
        destruct Hs1 as (A & B & C & D).
        specialize (IH s1 l0 d'). apply IH.
        -- intros t' dk Ht'. rewrite D. apply Hdef. right; auto.
        -- rewrite A, B, C. exact H.
        -- intros x. rewrite A.
           destruct (get_status_db md5 v (s_ck s) (s_fs s) (s_db s) (l_name t) (s_defs s (l_name t)) false) as [E|[_ E]]; fold g in E; rewrite E.
           ++ apply Hig.
           ++ destruct (N.eqb_spec x (l_name t)) as [->|Hne].
              ** right. split; [apply remove_same|]. exact Eig.
              ** rewrite remove_other by auto. apply Hig.
    + apply prepend_ok in H. destruct H as [l0 [H _]].
      specialize (IH s l0 d' (fun t' dk Ht' => Hdef t' dk (or_intror Ht'))). apply (IH H d0 Hig).
Qed.

(* ---- list --status = the decision of run on the definition the command shows ---- *)
Lemma task_status_decision c fs d t :
  fst (task_status c fs d t) = decision_letter (run_decision c fs d (l_name t) (shown_def d t)).
Proof.
  unfold Introspect.task_status, Introspect.run_decision.
  destruct (status_is_ignore d (l_name t)); simpl; auto.
  destruct (g_status (get_status c fs d (l_name t) (shown_def d t) false)); reflexivity.
Qed.

(* every entry of status_letters: the decision of run in the DB the task was examined in, which is
   the initial DB up to the documented invalidation *)
Lemma status_letters_spec c fs pl : forall d n l dk,
  In (n, l, dk) (status_letters c fs pl d) ->
  db_frame c d dk /\
  exists t, In t pl /\ n = l_name t /\ l = decision_letter (run_decision c fs dk n (shown_def dk t)).
Proof.
  induction pl as [|t pl IH]; intros d n l dk H; simpl in H; [destruct H|].
  destruct H as [H|H].
  - inversion H; subst. split; [apply db_frame_refl|]. exists t. split; [left; auto|]. split; auto.
    apply task_status_decision.
  - destruct (IH _ _ _ _ H) as (F & t' & Hin & Hn & Hl). split.
    + eapply db_frame_trans; [apply task_status_frame | exact F].
    + exists t'. split; [right; auto|]. auto.
Qed.

Lemma filter_dep_lines o d t : filter is_task_line (dep_lines iv cv tb o d t) = [].
Proof.
  unfold dep_lines. destruct (o_list_deps o); auto.
  rewrite filter_app. simpl. rewrite app_nil_r. induction (file_dep _); simpl; auto.
Qed.

(* the task lines `list --status` prints are exactly status_letters *)
Lemma print_tasks_letters c fs o pl : o_status o = true -> forall d lines d',
  print_tasks c fs o pl d = LOk lines d' ->
  filter is_task_line lines = map (fun x => LTask (fst (fst x)) (snd (fst x))) (status_letters c fs pl d).
Proof.
  intros Hs. induction pl as [|t pl IH]; intros d lines d' H; simpl in H.
  - inversion H; reflexivity.
  - rewrite Hs in H. simpl.
    destruct (task_status c fs d t) as [[l|] d1] eqn:E; [|discriminate]. simpl.
    apply prepend_ok in H. destruct H as [l0 [H ->]].
    simpl. rewrite filter_app, filter_dep_lines. simpl. f_equal. apply (IH d1 l0 d' H).
Qed.

(* what `info` shows, as a decision *)
Lemma info_cmd_status n t c fs d st lines rc d' :
  lookup tb n = Some t ->
  info_cmd [n] false c fs d = IOk st lines rc d' ->
  (fixIgn iv && status_is_ignore d (l_name t) = true /\ st = IIgnored /\ lines = [] /\ d' = d) \/
  (fixIgn iv && status_is_ignore d (l_name t) = false /\
   let g := get_status c fs d (l_name t) (shown_def d t) true in
   st = IStatus (g_status g) /\ g_status g <> Crash /\ d' = g_db g /\
   lines = (match g_status g with UpToDate => [] | _ => get_reasons (g_reasons g) end)).
Proof.
  intros Hl H. unfold Introspect.info_cmd in H. rewrite Hl in H.
  destruct (fixIgn iv && status_is_ignore d (l_name t)) eqn:Ei; simpl in H.
  - left. inversion H; subst. auto.
  - right. split; auto. cbv zeta.
    destruct (g_status (get_status c fs d (l_name t) (shown_def d t) true)) eqn:Es; inversion H; subst; repeat split; auto; discriminate.
Qed.

(* ---- an ignored task is never handed to get_status: its record -- whatever checker wrote it -- is as before,
   through the whole command, and its line shows I ---- *)
Definition ign_kept (d d' : db) : Prop := forall x, status_is_ignore d x = true -> d' x = d x.
Lemma ign_kept_refl d : ign_kept d d.
Proof. intros x _; reflexivity. Qed.
Lemma ign_kept_ignore d d' x : ign_kept d d' -> status_is_ignore d x = true -> status_is_ignore d' x = true.
Proof. intros H Hi. unfold status_is_ignore, getrec in *. rewrite (H x Hi). exact Hi. Qed.
Lemma ign_kept_trans d1 d2 d3 : ign_kept d1 d2 -> ign_kept d2 d3 -> ign_kept d1 d3.
Proof.
  intros H1 H2 x Hi. rewrite (H2 x (ign_kept_ignore d1 d2 x H1 Hi)). apply H1; auto.
Qed.

Lemma get_status_ign_kept c fs d t df gl : status_is_ignore d t = false -> ign_kept d (g_db (get_status c fs d t df gl)).
Proof.
  intros Hf x Hi. destruct (get_status_db md5 v c fs d t df gl) as [E|[_ E]]; rewrite E; auto.
  apply remove_other. intros ->. congruence.
Qed.

Lemma task_status_ign_kept c fs d t : ign_kept d (snd (task_status c fs d t)).
Proof.
  unfold Introspect.task_status. destruct (status_is_ignore d (l_name t)) eqn:Ei; simpl.
  - apply ign_kept_refl.
  - apply get_status_ign_kept; auto.
Qed.

Lemma task_status_ignored c fs d t : status_is_ignore d (l_name t) = true -> task_status c fs d t = (Some LtI, d).
Proof. intros Hi. unfold Introspect.task_status. rewrite Hi. reflexivity. Qed.

Lemma print_tasks_ign_kept c fs o pl : forall d, ign_kept d (lres_db d (print_tasks c fs o pl d)).
Proof.
  induction pl as [|t pl IH]; intros d; simpl.
  - apply ign_kept_refl.
  - destruct (o_status o).
    + pose proof (task_status_ign_kept c fs d t) as F.
      destruct (task_status c fs d t) as [[l|] d1]; simpl in *; auto.
      specialize (IH d1).
      destruct (print_tasks c fs o pl d1); simpl in *; try apply ign_kept_refl; eapply ign_kept_trans; eauto.
    + specialize (IH d). destruct (print_tasks c fs o pl d); simpl in *; auto; apply ign_kept_refl.
Qed.

Lemma list_cmd_ign_kept name_ltb o c fs d : ign_kept d (lres_db d (list_cmd md5 v name_ltb iv cv tb o c fs d)).
Proof.
  unfold Introspect.list_cmd. destruct (print_list name_ltb tb o); simpl; try apply ign_kept_refl.
  apply print_tasks_ign_kept.
Qed.

(* every line `list --status` prints for a task that carries the ignore mark when the command starts shows I *)
Lemma status_letters_ignored c fs pl : forall d n l dk,
  In (n, l, dk) (status_letters c fs pl d) -> status_is_ignore d n = true -> l = Some LtI /\ dk n = d n.
Proof.
  induction pl as [|t pl IH]; intros d n l dk H Hi; simpl in H; [destruct H|].
  destruct H as [H|H].
  - inversion H; subst. rewrite task_status_ignored by auto. auto.
  - pose proof (task_status_ign_kept c fs d t) as K.
    destruct (IH _ _ _ _ H (ign_kept_ignore _ _ _ K Hi)) as [A B]. split; auto. rewrite B. apply K; auto.
Qed.

(* `info` (HEAD: the ignore mark is looked at first) *)
Lemma info_cmd_ign_kept pos hide c fs d : fixIgn iv = true -> ign_kept d (ires_db d (info_cmd pos hide c fs d)).
Proof.
  intros Hfix. unfold Introspect.info_cmd. destruct pos as [|n [|n2 pos]]; simpl; try apply ign_kept_refl.
  destruct (lookup tb n) as [t|]; simpl; try apply ign_kept_refl.
  destruct hide; simpl; try apply ign_kept_refl.
  rewrite Hfix. simpl.
  destruct (status_is_ignore d (l_name t)) eqn:Ei; simpl; try apply ign_kept_refl.
  pose proof (get_status_ign_kept c fs d (l_name t) (shown_def d t) true Ei) as F.
  destruct (g_status (get_status c fs d (l_name t) (shown_def d t) true)); simpl; auto.
Qed.

Lemma info_cmd_ignored n t c fs d : fixIgn iv = true -> lookup tb n = Some t -> status_is_ignore d (l_name t) = true ->
  info_cmd [n] false c fs d = IOk IIgnored [] 0 d.
Proof. intros Hfix Hl Hi. unfold Introspect.info_cmd. rewrite Hl, Hfix, Hi. reflexivity. Qed.

End Cmds.

(* ---- Runner.select_task on a node selected for the first time, with no bad / ignored dependency
   and without --always, does what run_decision says ---- *)
Section Select.
Variable tasks : name -> option Dispatch.task.
Variable continue_ : bool.
Definition first_selection (r : Runner.rstate) (k : name) : Prop :=
  let nd := Dispatch.node_of tasks (Runner.r_d r) k in
  Dispatch.n_st nd = Dispatch.SNone /\ Dispatch.n_ign nd = [] /\ Dispatch.n_bad nd = [].

(* what the reporter / dep_manager see, per decision *)
Definition decision_events (k : name) (x : decision) : list Runner.event :=
  match x with
  | DIgnore => [Runner.EGetStatus k; Runner.ESkipIgnore k]
  | DError => [Runner.EGetStatus k; Runner.ERemove k; Runner.EFailure k Runner.kind_dep]
  | DUpToDate => [Runner.EGetStatus k; Runner.ESkipUpToDate k]
  | _ => [Runner.EGetStatus k]
  end.
Definition decision_node_status (x : decision) : Dispatch.status :=
  match x with
  | DIgnore => Dispatch.SIgnore | DError => Dispatch.SFailure | DUpToDate => Dispatch.SUpToDate | _ => Dispatch.SRun
  end.

Lemma node_of_set_status d k s :
  Dispatch.n_st (Dispatch.node_of tasks (Runner.set_status tasks d k s) k) = s.
Proof.
  unfold Runner.set_status, Dispatch.node_of, Dispatch.set_node. simpl. rewrite upd_same. reflexivity.
Qed.

Lemma select_task_decision c fs d n df r k :
  first_selection r k ->
  Dispatch.t_dbignore (Dispatch.get_task tasks k) = status_is_ignore d n ->
  check_of (g_status (get_status c fs d n df false)) = Some (Dispatch.t_check (Dispatch.get_task tasks k)) ->
  let x := run_decision c fs d n df in
  let '(go, r') := Runner.select_task tasks continue_ false r k in
  Runner.r_tr r' = Runner.r_tr r ++ decision_events k x ++
                   (if go then [] else match x with
                                      | DRun => if is_nil (Dispatch.t_setup (Dispatch.get_task tasks k))
                                                then [Runner.ERemove k; Runner.EFailure k Runner.kind_dep] else []
                                      | _ => [] end) /\
  (go = true -> x = DRun) /\
  (x <> DRun -> Dispatch.n_st (Dispatch.node_of tasks (Runner.r_d r') k) = decision_node_status x).
Proof.
  intros (Hst & Hign & Hbad) Hig Hck. unfold Introspect.run_decision. rewrite <- Hig.
  unfold Runner.select_task. rewrite Hst, Hign, Hbad. simpl.
  destruct (Dispatch.t_dbignore (Dispatch.get_task tasks k)) eqn:Ei; simpl.
  - split; [rewrite <- app_assoc; reflexivity|]. split; [discriminate|]. intros _. apply node_of_set_status.
  - destruct (g_status (get_status c fs d n df false)) eqn:Es; simpl in Hck; [injection Hck as Hc | injection Hck as Hc | injection Hck as Hc | discriminate]; rewrite <- Hc; simpl.
    + split; [rewrite <- app_assoc; reflexivity|]. split; [discriminate|]. intros _. apply node_of_set_status.
    + destruct (is_nil (Dispatch.t_setup (Dispatch.get_task tasks k))) eqn:Esu; simpl.
      * unfold Runner.get_args. destruct (Dispatch.t_argerr (Dispatch.get_task tasks k)); simpl.
        -- split; [rewrite <- app_assoc; reflexivity|]. split; [discriminate|]. intros X; congruence.
        -- split; [reflexivity|]. split; auto. intros X; congruence.
      * split; [rewrite ?app_nil_r; reflexivity|]. split; [discriminate|]. intros X; congruence.
    + split; [rewrite <- !app_assoc; reflexivity|]. split; [discriminate|]. intros _. apply node_of_set_status.
Qed.
End Select.

(* ------------------------------------------------------------------ info: the verdict *)
Lemma check_files_no_missing c fs r deps :
  (forall f, In f deps -> dep_verdict md5 v c fs r f <> FMissing) ->
  forall ch ms, check_files md5 v c fs r true deps ch ms = check_files md5 v c fs r false deps ch ms.
Proof.
  induction deps as [|f deps IH]; intros H ch ms; simpl; auto.
  destruct (dep_verdict md5 v c fs r f) eqn:E; auto; try (apply IH; intros; apply H; simpl; auto).
  exfalso. apply (H f); simpl; auto.
Qed.

Lemma file_verdict_missing c fs r f : dep_verdict md5 v c fs r f = FMissing <-> fs f = None.
Proof. apply dep_verdict_missing. Qed.

(* every file dependency exists and no record was written by the other checker's code path:
   get_log=True answers what get_log=False answers *)
Lemma get_status_modes_agree c fs d t df :
  (forall f, In f (file_dep df) -> fs f <> None) ->
  g_status (get_status c fs d t df true) <> Crash ->
  g_status (get_status c fs d t df true) = g_status (get_status c fs d t df false).
Proof.
  intros Hex Hnc.
  assert (Hcf : forall r, check_files md5 v c fs r true (file_dep df) [] [] = check_files md5 v c fs r false (file_dep df) [] []).
  { intros r. apply check_files_no_missing. intros f Hf E. apply file_verdict_missing in E. apply (Hex f); auto. }
  revert Hnc. unfold Status.get_status. cbv zeta. fold (ck_changed c (getrec d t)). simpl.
  rewrite <- Hcf.
  set (d1 := if ck_changed c (getrec d t) then remove d t else d).
  destruct (check_files md5 v c fs (getrec d1 t) true (file_dep df) [] []) as [ch ms| |] eqn:E; simpl.
  - intros _.
    assert (Hms : ms = []).
    { pose proof (check_files_no_error md5 v c fs (getrec d1 t) true (file_dep df)) as Hne.
      specialize (Hne (fun f Hf E' => Hex f Hf (proj1 (file_verdict_missing c fs _ f) E')) [] []).
      rewrite E in Hne. exact Hne. }
    subst ms.
    destruct (is_nil (false_positions (map (eval_utd d t) (uptodate df)) 0)) eqn:E1; simpl;
    destruct (is_nil (file_dep df) && is_nil (evaluated (map (eval_utd d t) (uptodate df)))) eqn:E2; simpl;
    destruct (is_nil (filter (fun x => negb (exists_ fs x)) (targets df))) eqn:E3; simpl;
    destruct (ck_changed c (getrec d t)) eqn:E4; simpl; rewrite ?E; simpl; rewrite ?orb_true_r; simpl;
    try reflexivity; apply final_status_decided_nomissing.
  - pose proof (check_files_no_error md5 v c fs (getrec d1 t) true (file_dep df)) as Hne.
    specialize (Hne (fun f0 Hf E' => Hex f0 Hf (proj1 (file_verdict_missing c fs _ f0) E')) [] []).
    rewrite E in Hne. destruct Hne.
  - intros H. exfalso.
    repeat (match type of H with context [if ?b then _ else _] => destruct b end; simpl in H); congruence.
Qed.

(* ------------------------------------------------------------------ info: the reasons *)
Definition is_changed (c : ck) (fs : fsys) (r : rec) (f : file) : bool :=
  match dep_verdict md5 v c fs r f with FChanged => true | _ => false end.
Definition is_missing (c : ck) (fs : fsys) (r : rec) (f : file) : bool :=
  match dep_verdict md5 v c fs r f with FMissing => true | _ => false end.

Lemma check_files_log c fs r deps : forall ch ms,
  check_files md5 v c fs r true deps ch ms = FLCrash \/
  check_files md5 v c fs r true deps ch ms =
    FLDone (rev ch ++ filter (is_changed c fs r) deps) (rev ms ++ filter (is_missing c fs r) deps).
Proof.
  induction deps as [|f deps IH]; intros ch ms; simpl.
  - right. rewrite !app_nil_r. reflexivity.
  - unfold is_changed, is_missing. destruct (dep_verdict md5 v c fs r f) eqn:E; auto.
    + destruct (IH ch (f :: ms)) as [H|H]; [left; auto|right]. rewrite H. simpl. rewrite <- !app_assoc. reflexivity.
    + destruct (IH (f :: ch) ms) as [H|H]; [left; auto|right]. rewrite H. simpl. rewrite <- !app_assoc. reflexivity.
Qed.

Lemma false_positions_spec l : forall k i,
  In i (false_positions l k) <-> (k <= i)%nat /\ nth_error l (i - k) = Some (Some false).
Proof.
  induction l as [|x l IH]; intros k i; simpl.
  - split; [tauto|]. intros [_ H]. destruct (i - k)%nat; discriminate.
  - assert (Hstep : forall P : Prop, (In i (false_positions l (S k)) <-> P) ->
                    (k < i)%nat -> nth_error l (i - S k) = nth_error (x :: l) (i - k)).
    { intros _ _ Hlt. replace (i - k)%nat with (S (i - S k)) by lia. reflexivity. }
    destruct x as [[|]|].
    + rewrite IH. split.
      * intros [H1 H2]. split; [lia|]. replace (i - k)%nat with (S (i - S k)) by lia. exact H2.
      * intros [H1 H2]. destruct (Nat.eq_dec i k) as [->|Hne].
        -- rewrite Nat.sub_diag in H2. discriminate.
        -- split; [lia|]. replace (i - k)%nat with (S (i - S k)) in H2 by lia. exact H2.
    + simpl. rewrite IH. split.
      * intros [->|[H1 H2]].
        -- split; [lia|]. rewrite Nat.sub_diag. reflexivity.
        -- split; [lia|]. replace (i - k)%nat with (S (i - S k)) by lia. exact H2.
      * intros [H1 H2]. destruct (Nat.eq_dec i k) as [->|Hne]; [left; auto|right].
        split; [lia|]. replace (i - k)%nat with (S (i - S k)) in H2 by lia. exact H2.
    + rewrite IH. split.
      * intros [H1 H2]. split; [lia|]. replace (i - k)%nat with (S (i - S k)) by lia. exact H2.
      * intros [H1 H2]. destruct (Nat.eq_dec i k) as [->|Hne].
        -- rewrite Nat.sub_diag in H2. discriminate.
        -- split; [lia|]. replace (i - k)%nat with (S (i - S k)) in H2 by lia. exact H2.
Qed.

Lemma diff_In a b f : In f (diff a b) <-> In f a /\ ~ In f b.
Proof.
  unfold diff. rewrite filter_In. split; intros [H1 H2]; split; auto.
  - intros Hb. apply mem_In in Hb. rewrite Hb in H2. discriminate.
  - apply negb_true_iff. apply mem_false_In. auto.
Qed.

Definition prev_deps (r : rec) : list file := match r_deps r with Some p => p | None => [] end.

(* everything get_status(get_log=True) reports, read off its definition *)
Lemma get_status_log_reasons c fs d t df :
  let g := get_status c fs d t df true in
  g_status g <> Crash ->
  let r := g_reasons g in
  let rc := getrec (g_db g) t in
  g_db g = (if ck_changed c (getrec d t) then remove d t else d) /\
  rs_uptodate_false r = false_positions (map (eval_utd d t) (uptodate df)) 0 /\
  rs_no_deps r = is_nil (file_dep df) && is_nil (evaluated (map (eval_utd d t) (uptodate df))) /\
  rs_missing_target r = filter (fun x => negb (exists_ fs x)) (targets df) /\
  rs_checker_changed r = (if ck_changed c (getrec d t) then match r_checker (getrec d t) with Some p => Some (p, c) | None => None end else None) /\
  rs_added r = (if deps_changed v rc df then Some (diff (file_dep df) (prev_deps rc)) else None) /\
  rs_removed r = (if deps_changed v rc df then Some (diff (prev_deps rc) (file_dep df)) else None) /\
  rs_missing_file_dep r = filter (is_missing c fs rc) (file_dep df) /\
  rs_changed_file_dep r = filter (is_changed c fs rc) (file_dep df).
Proof.
  cbv zeta. unfold Status.get_status. cbv zeta. fold (ck_changed c (getrec d t)). simpl.
  set (d1 := if ck_changed c (getrec d t) then remove d t else d).
  fold (deps_changed v (getrec d1 t) df). fold (prev_deps (getrec d1 t)).
  destruct (check_files_log c fs (getrec d1 t) (file_dep df) [] []) as [E|E]; rewrite E; simpl.
  - intros H; congruence.
  - intros _. repeat split; reflexivity.
Qed.

(* ---- rendering (Info.get_reasons) ---- *)
Lemma insert_file_In x l f : In f (insert_file x l) <-> f = x \/ In f l.
Proof.
  induction l as [|y l IH]; simpl; [intuition auto|].
  destruct (N.ltb x y); simpl; [intuition auto|]. rewrite IH. intuition auto.
Qed.
Lemma sort_files_In l f : In f (sort_files l) <-> In f l.
Proof.
  unfold sort_files.
  assert (H : forall acc, In f (fold_left (fun acc x => insert_file x acc) l acc) <-> In f acc \/ In f l).
  { induction l as [|x l IH]; intros acc; simpl; [tauto|]. rewrite IH, insert_file_In. intuition auto. }
  rewrite H. simpl. tauto.
Qed.

Lemma in_kind_block r k0 k f :
  In (IItem k f) (match entries r k0 with [] => [] | l => IHeader k0 :: map (IItem k0) l end) <-> k0 = k /\ In f (entries r k).
Proof.
  destruct (entries r k0) as [|x l] eqn:E.
  - split; [intros []|]. intros [-> H]. rewrite E in H. destruct H.
  - split.
    + intros [H|H]; [discriminate|]. apply in_map_iff in H. destruct H as [y [Hy Hin]]. inversion Hy; subst. rewrite E. auto.
    + intros [-> H]. right. rewrite E in H. apply in_map_iff. exists f. auto.
Qed.

Lemma get_reasons_item r k f : In (IItem k f) (get_reasons r) <-> In f (entries r k).
Proof.
  unfold get_reasons. rewrite !in_app_iff. split.
  - intros [H|[H|[H|H]]].
    + destruct (rs_no_deps r); [destruct H as [H|[]]; discriminate | destruct H].
    + destruct (rs_uptodate_false r); [destruct H|]. destruct H as [H|H]; [discriminate|].
      apply in_map_iff in H. destruct H as [y [Hy _]]. discriminate.
    + destruct (rs_checker_changed r) as [[p c']|]; [destruct H as [H|[]]; discriminate | destruct H].
    + apply in_flat_map in H. destruct H as [k0 [_ H]]. apply in_kind_block in H. tauto.
  - intros H. right. right. right. apply in_flat_map. exists k. split.
    + unfold all_kinds. destruct k; simpl; auto 6.
    + apply in_kind_block. auto.
Qed.

Lemma get_reasons_nodeps r : In INoDeps (get_reasons r) <-> rs_no_deps r = true.
Proof.
  unfold get_reasons. rewrite !in_app_iff. split.
  - intros [H|[H|[H|H]]].
    + destruct (rs_no_deps r); auto; destruct H.
    + destruct (rs_uptodate_false r); [destruct H|]. destruct H as [H|H]; [discriminate|].
      apply in_map_iff in H. destruct H as [y [Hy _]]. discriminate.
    + destruct (rs_checker_changed r) as [[p c']|]; [destruct H as [H|[]]; discriminate | destruct H].
    + apply in_flat_map in H. destruct H as [k0 [_ H]].
      destruct (entries r k0); [destruct H|]. destruct H as [H|H]; [discriminate|].
      apply in_map_iff in H. destruct H as [y [Hy _]]. discriminate.
  - intros ->. left. simpl. auto.
Qed.

Lemma get_reasons_utd r i : In (IUtdItem i) (get_reasons r) <-> In i (rs_uptodate_false r).
Proof.
  unfold get_reasons. rewrite !in_app_iff. split.
  - intros [H|[H|[H|H]]].
    + destruct (rs_no_deps r); [destruct H as [H|[]]; discriminate | destruct H].
    + destruct (rs_uptodate_false r) as [|x l]; [destruct H|]. destruct H as [H|H]; [discriminate|].
      apply in_map_iff in H. destruct H as [y [Hy Hin]]. inversion Hy; subst; auto.
    + destruct (rs_checker_changed r) as [[p c']|]; [destruct H as [H|[]]; discriminate | destruct H].
    + apply in_flat_map in H. destruct H as [k0 [_ H]].
      destruct (entries r k0); [destruct H|]. destruct H as [H|H]; [discriminate|].
      apply in_map_iff in H. destruct H as [y [Hy _]]. discriminate.
  - intros H. right. left. destruct (rs_uptodate_false r) as [|x l]; [destruct H|].
    right. apply in_map_iff. exists i. auto.
Qed.

Lemma get_reasons_checker r p c' : In (IChecker p c') (get_reasons r) <-> rs_checker_changed r = Some (p, c').
Proof.
  unfold get_reasons. rewrite !in_app_iff. split.
  - intros [H|[H|[H|H]]].
    + destruct (rs_no_deps r); [destruct H as [H|[]]; discriminate | destruct H].
    + destruct (rs_uptodate_false r); [destruct H|]. destruct H as [H|H]; [discriminate|].
      apply in_map_iff in H. destruct H as [y [Hy _]]. discriminate.
    + destruct (rs_checker_changed r) as [[p0 c0]|]; [|destruct H]. destruct H as [H|[]]. inversion H; subst; auto.
    + apply in_flat_map in H. destruct H as [k0 [_ H]].
      destruct (entries r k0); [destruct H|]. destruct H as [H|H]; [discriminate|].
      apply in_map_iff in H. destruct H as [y [Hy _]]. discriminate.
  - intros ->. right. right. left. simpl. auto.
Qed.

(* nothing to print <-> every reason is empty *)
Lemma get_reasons_nil r :
  get_reasons r = [] <->
  rs_no_deps r = false /\ rs_uptodate_false r = [] /\ rs_checker_changed r = None /\ forall k, entries r k = [].
Proof.
  unfold get_reasons. split.
  - intros H. apply app_eq_nil in H. destruct H as [H1 H]. apply app_eq_nil in H. destruct H as [H2 H].
    apply app_eq_nil in H. destruct H as [H3 H4].
    split; [destruct (rs_no_deps r); [discriminate|auto]|].
    split; [destruct (rs_uptodate_false r); [auto|discriminate]|].
    split; [destruct (rs_checker_changed r) as [[? ?]|]; [discriminate|auto]|].
    intros k. unfold all_kinds in H4. simpl in H4.
    repeat (apply app_eq_nil in H4; let A := fresh "A" in destruct H4 as [A H4]).
    destruct k; simpl;
      [destruct (rs_missing_target r) | destruct (rs_changed_file_dep r) | destruct (rs_missing_file_dep r)
       | destruct (match rs_removed r with Some l => sort_files l | None => [] end)
       | destruct (match rs_added r with Some l => sort_files l | None => [] end)]; auto; discriminate.
  - intros (H1 & H2 & H3 & H4). rewrite H1, H2, H3. unfold all_kinds. cbn [flat_map app]. rewrite !H4. reflexivity.
Qed.

Lemma set_eqb_false_diff a b : set_eqb a b = false -> diff a b <> [] \/ diff b a <> [].
Proof.
  unfold set_eqb. intros H. apply andb_false_iff in H. destruct H as [H|H].
  - left. intros E. assert (Hall : forallb (fun x => mem x b) a = true).
    { apply forallb_forall. intros x Hx. destruct (mem x b) eqn:Em; auto.
      assert (Hin : In x (diff a b)) by (apply diff_In; split; auto; apply mem_false_In; auto).
      rewrite E in Hin. destruct Hin. }
    congruence.
  - right. intros E. assert (Hall : forallb (fun x => mem x a) b = true).
    { apply forallb_forall. intros x Hx. destruct (mem x a) eqn:Em; auto.
      assert (Hin : In x (diff b a)) by (apply diff_In; split; auto; apply mem_false_In; auto).
      rewrite E in Hin. destruct Hin. }
    congruence.
Qed.

Lemma sort_files_nil l : sort_files l = [] <-> l = [].
Proof.
  split; [|intros ->; reflexivity]. intros H. destruct l as [|x l]; auto.
  assert (Hin : In x (sort_files (x :: l))) by (apply sort_files_In; simpl; auto).
  rewrite H in Hin. destruct Hin.
Qed.

Lemma filter_nil_iff {A} (p : A -> bool) l : filter p l = [] <-> forall x, In x l -> p x = false.
Proof.
  induction l as [|y l IH]; simpl; [tauto|].
  destruct (p y) eqn:E.
  - split; [discriminate|]. intros H. rewrite (H y) in E by auto. discriminate.
  - rewrite IH. split; [intros H x [<-|Hx]; auto | intros H x Hx; apply H; auto].
Qed.

Lemma deps_changed_diff r df :
  deps_changed v r df = true -> diff (file_dep df) (prev_deps r) <> [] \/ diff (prev_deps r) (file_dep df) <> [].
Proof.
  unfold deps_changed, prev_deps. destruct (r_deps r) as [[|x p]|]; [| |discriminate].
  - intros H. apply andb_true_iff in H. destruct H as [_ H]. apply negb_true_iff in H.
    apply set_eqb_false_diff in H. tauto.
  - intros H. apply negb_true_iff in H. apply set_eqb_false_diff in H. tauto.
Qed.

(* info prints no reason exactly when the verdict is up-to-date *)
Lemma info_no_reason_iff_uptodate c fs d t df :
  let g := get_status c fs d t df true in
  g_status g <> Crash ->
  (get_reasons (g_reasons g) = [] <-> g_status g = UpToDate).
Proof.
  cbv zeta. intros Hnc.
  destruct (get_status_log_reasons c fs d t df Hnc) as (Edb & R1 & R2 & R3 & R4 & R5 & R6 & R7 & R8).
  set (g := get_status c fs d t df true) in *.
  set (rc := getrec (g_db g) t) in *.
  rewrite get_reasons_nil.
  pose proof (get_status_log_uptodate_iff md5 v c fs d t df) as Hu. fold g in Hu. rewrite Hu. clear Hu.
  rewrite <- items_ok_b, <- some_dep_b, <- targets_ok_b.
  assert (Hrc : ck_changed c (getrec d t) = false -> rc = getrec d t).
  { intros E. unfold rc. rewrite Edb, E. reflexivity. }
  split.
  - intros (N1 & N2 & N3 & N4).
    assert (Eck : ck_changed c (getrec d t) = false).
    { destruct (ck_changed c (getrec d t)) eqn:E; auto. rewrite R4 in N3. unfold ck_changed in E.
      destruct (r_checker (getrec d t)); discriminate. }
    specialize (Hrc Eck). rewrite <- Hrc.
    split; [rewrite <- R1, N2; reflexivity|]. split; [rewrite <- R2; exact N1|].
    split; [rewrite <- R3; pose proof (N4 KMissingTarget) as X; simpl in X; rewrite X; reflexivity|]. split; [rewrite Hrc; exact Eck|].
    split.
    + destruct (deps_changed v rc df) eqn:E; auto. exfalso.
      pose proof (N4 KAdded) as A. pose proof (N4 KRemoved) as B. unfold entries in A, B. rewrite R5 in A. rewrite R6 in B.
      apply (proj1 (sort_files_nil _)) in A. apply (proj1 (sort_files_nil _)) in B. destruct (deps_changed_diff rc df E); auto.
    + apply Forall_forall. intros f Hf.
      pose proof (N4 KChanged) as A. pose proof (N4 KMissingDep) as B. unfold entries in A, B. rewrite R8 in A. rewrite R7 in B.
      rewrite filter_nil_iff in A, B. specialize (A f Hf). specialize (B f Hf). unfold is_changed in A. unfold is_missing in B.
      destruct (dep_verdict md5 v c fs rc f) eqn:E; try discriminate; auto.
      exfalso. apply Hnc. fold g.
      (* a TypeError verdict is excluded by the hypothesis *)
      clear -E Hf Hnc Edb. exfalso. apply Hnc.
      unfold g, Status.get_status. cbv zeta. fold (ck_changed c (getrec d t)).
      assert (Hcr : check_files md5 v c fs rc true (file_dep df) [] [] = FLCrash).
      { destruct (check_files_log c fs rc (file_dep df) [] []) as [X|X]; auto. exfalso.
        clear -E Hf X. revert X. generalize (@nil file) at 1 3. generalize (@nil file) at 1 2.
        induction (file_dep df) as [|y l IH]; [destruct Hf|]. intros ms ch. simpl.
        destruct Hf as [->|Hf].
        - rewrite E. discriminate.
        - destruct (dep_verdict md5 v c fs rc y) eqn:Ey.
          + intros X. apply (IH Hf (y :: ms) ch).
            unfold is_missing, is_changed in *. rewrite Ey in X. simpl in X. simpl. rewrite <- !app_assoc. exact X.
          + intros X. apply (IH Hf ms (y :: ch)).
            unfold is_missing, is_changed in *. rewrite Ey in X. simpl in X. simpl. rewrite <- !app_assoc. exact X.
          + intros X. apply (IH Hf ms ch). unfold is_missing, is_changed in *. rewrite Ey in X. exact X.
          + discriminate. }
      unfold rc in Hcr. rewrite Edb in Hcr. simpl. rewrite Hcr.
      repeat (match goal with |- context [if ?b then _ else _] => destruct b end; simpl); reflexivity.
  - intros (U1 & U2 & U3 & U4 & U5 & U6).
    specialize (Hrc U4).
    split; [rewrite R2; exact U2|]. split; [rewrite R1; apply is_nil_true; exact U1|].
    split; [rewrite R4, U4; reflexivity|].
    intros k. destruct k; unfold entries.
    + rewrite R3. apply is_nil_true. exact U3.
    + rewrite R8. apply filter_nil_iff. intros f Hf. rewrite Forall_forall in U6. unfold is_changed. rewrite Hrc, (U6 f Hf). reflexivity.
    + rewrite R7. apply filter_nil_iff. intros f Hf. rewrite Forall_forall in U6. unfold is_missing. rewrite Hrc, (U6 f Hf). reflexivity.
    + rewrite R6, Hrc, U5. reflexivity.
    + rewrite R5, Hrc, U5. reflexivity.
Qed.


(* ---- the reasons, each one against the fact it states ---- *)
Lemma deps_changed_iff r df : fixA v = true ->
  (deps_changed v r df = true <-> exists p, r_deps r = Some p /\ ~ same_set p (file_dep df)).
Proof.
  intros HA. unfold deps_changed. rewrite HA. destruct (r_deps r) as [[|x p]|]; simpl.
  - rewrite negb_true_iff. split.
    + intros H. exists []. split; auto. intros S. apply set_eqb_same in S. congruence.
    + intros [p [E S]]. inversion E; subst. destruct (set_eqb [] (file_dep df)) eqn:X; auto.
      exfalso. apply S. apply set_eqb_same. exact X.
  - rewrite negb_true_iff. split.
    + intros H. exists (x :: p). split; auto. intros S. apply set_eqb_same in S. congruence.
    + intros [p' [E S]]. inversion E; subst. destruct (set_eqb (x :: p) (file_dep df)) eqn:X; auto.
      exfalso. apply S. apply set_eqb_same. exact X.
  - split; [discriminate|]. intros [p [E _]]. discriminate.
Qed.

(* what the loop lists: an existing dependency with no saved state, or outside the saved 'deps:' list
   (fixC), or modified according to the checker *)
Lemma file_verdict_changed c fs r f :
  dep_verdict md5 v c fs r f = FChanged <->
  exists st, fs f = Some st /\
    (r_saved r f = None \/
     (r_saved r f <> None /\ fixC v = true /\ outside_saved_deps r f = true) \/
     (fixC v && outside_saved_deps r f = false /\ exists e, r_saved r f = Some e /\ check_modified md5 c st e = Some true)).
Proof. apply dep_verdict_changed. Qed.

Lemma info_lines_true c fs d t df : fixA v = true ->
  let g := get_status c fs d t df true in
  g_status g <> Crash ->
  let lines := get_reasons (g_reasons g) in
  let rc := getrec (g_db g) t in
  (ck_changed c (getrec d t) = false -> rc = getrec d t) /\
  (ck_changed c (getrec d t) = true -> rc = empty_rec) /\
  (In INoDeps lines <-> ~ some_dep d t df) /\
  (forall i, In (IUtdItem i) lines <-> nth_error (map (eval_utd d t) (uptodate df)) i = Some (Some false)) /\
  (forall p c', In (IChecker p c') lines <-> r_checker (getrec d t) = Some p /\ p <> c /\ c' = c) /\
  (forall x, In (IItem KMissingTarget x) lines <-> In x (targets df) /\ exists_ fs x = false) /\
  (forall f, In (IItem KMissingDep f) lines <-> In f (file_dep df) /\ fs f = None) /\
  (forall f, In (IItem KChanged f) lines <-> In f (file_dep df) /\ dep_verdict md5 v c fs rc f = FChanged) /\
  (forall f, In (IItem KAdded f) lines <-> In f (file_dep df) /\ exists p, r_deps rc = Some p /\ ~ In f p) /\
  (forall f, In (IItem KRemoved f) lines <-> ~ In f (file_dep df) /\ exists p, r_deps rc = Some p /\ In f p).
Proof.
  intros HA. cbv zeta. intros Hnc.
  destruct (get_status_log_reasons c fs d t df Hnc) as (Edb & R1 & R2 & R3 & R4 & R5 & R6 & R7 & R8).
  set (g := get_status c fs d t df true) in *.
  set (rc := getrec (g_db g) t) in *.
  split; [intros E; unfold rc; rewrite Edb, E; reflexivity|].
  split; [intros E; unfold rc; rewrite Edb, E; apply getrec_remove|].
  split.
  { rewrite get_reasons_nodeps, R2, <- some_dep_b.
    destruct (is_nil (file_dep df) && is_nil (evaluated (map (eval_utd d t) (uptodate df)))); split; congruence. }
  split.
  { intros i. rewrite get_reasons_utd, R1, false_positions_spec. rewrite Nat.sub_0_r. split; [tauto|]. intros H; split; [lia|auto]. }
  split.
  { intros p c'. rewrite get_reasons_checker, R4. unfold ck_changed.
    destruct (r_checker (getrec d t)) as [p0|]; [|split; [discriminate | intros [H _]; discriminate]].
    destruct (ck_eqb p0 c) eqn:E; simpl.
    - apply ck_eqb_eq in E. subst. split; [discriminate|]. intros (H1 & H2 & _). inversion H1; subst. congruence.
    - apply ck_eqb_neq in E. split.
      + intros H. inversion H; subst. auto.
      + intros (H1 & _ & ->). inversion H1; subst. reflexivity. }
  split.
  { intros x. rewrite get_reasons_item. unfold entries. rewrite R3, filter_In, negb_true_iff. tauto. }
  split.
  { intros f. rewrite get_reasons_item. unfold entries. rewrite R7, filter_In. unfold is_missing.
    rewrite <- (file_verdict_missing c fs rc f). destruct (dep_verdict md5 v c fs rc f); split; intros [A B]; split; auto; discriminate. }
  split.
  { intros f. rewrite get_reasons_item. unfold entries. rewrite R8, filter_In. unfold is_changed.
    destruct (dep_verdict md5 v c fs rc f); split; intros [A B]; split; auto; discriminate. }
  split.
  { intros f. rewrite get_reasons_item. unfold entries. rewrite R5.
    destruct (deps_changed v rc df) eqn:E.
    - rewrite sort_files_In, diff_In. apply (deps_changed_iff rc df HA) in E. destruct E as [p [Ep _]].
      unfold prev_deps. rewrite Ep. split.
      + intros [A B]. split; auto. exists p. auto.
      + intros [A [p' [E' B]]]. inversion E'; subst. auto.
    - split; [intros []|]. intros [A [p [Ep B]]]. exfalso.
      assert (X : deps_changed v rc df = true).
      { apply (deps_changed_iff rc df HA). exists p. split; auto. intros S. apply B. apply S. exact A. }
      congruence. }
  { intros f. rewrite get_reasons_item. unfold entries. rewrite R6.
    destruct (deps_changed v rc df) eqn:E.
    - rewrite sort_files_In, diff_In. apply (deps_changed_iff rc df HA) in E. destruct E as [p [Ep _]].
      unfold prev_deps. rewrite Ep. split.
      + intros [A B]. split; auto. exists p. auto.
      + intros [A [p' [E' B]]]. inversion E'; subst. auto.
    - split; [intros []|]. intros [A [p [Ep B]]]. exfalso.
      assert (X : deps_changed v rc df = true).
      { apply (deps_changed_iff rc df HA). exists p. split; auto. intros S. apply A. apply S. exact B. }
      congruence. }
Qed.

End IntrospectP.

(* ------------------------------------------------------------------ clean --dry-run (Model/Clean.v):
   nothing is executed but clean actions that asked for the `dryrun` flag, and they receive True *)
From DoitV Require Clean CleanP.
Definition harmless (e : Clean.event) : Prop :=
  match e with Clean.EExec _ _ d => d = Some true | _ => True end.

Lemma clean_actions_dry t : forall acts i w e,
  In e (Clean.w_ev (Clean.clean_actions t true i acts w)) -> In e (Clean.w_ev w) \/ harmless e.
Proof.
  induction acts as [|a acts IH]; intros i w e H; simpl in H; auto.
  apply IH in H. destruct H as [H|H]; auto.
  destruct a; simpl in H; rewrite ?in_app_iff in H; simpl in H.
  - destruct H as [[H|[<-|[]]]|[<-|[]]]; simpl; auto.
  - destruct H as [H|[<-|[]]]; simpl; auto.
Qed.

Lemma clean_target_dry t w p e :
  In e (Clean.w_ev (Clean.clean_target t true w p)) -> In e (Clean.w_ev w) \/ harmless e.
Proof.
  unfold Clean.clean_target. destruct (Clean.fs_get (Clean.w_fs w) p) as [[|]|]; simpl; auto.
  - rewrite in_app_iff. simpl. intros [H|[<-|[]]]; simpl; auto.
  - destruct (Clean.fs_nonempty (Clean.w_fs w) p); simpl; rewrite in_app_iff; simpl; intros [H|[<-|[]]]; simpl; auto.
Qed.

Lemma clean_targets_dry t : forall L w e,
  In e (Clean.w_ev (fold_left (Clean.clean_target t true) L w)) -> In e (Clean.w_ev w) \/ harmless e.
Proof.
  induction L as [|p L IH]; intros w e H; simpl in H; auto.
  apply IH in H. destruct H as [H|H]; auto. apply clean_target_dry in H. exact H.
Qed.

Lemma task_clean_dry t w e :
  In e (Clean.w_ev (Clean.task_clean t true w)) -> In e (Clean.w_ev w) \/ harmless e.
Proof.
  unfold Clean.task_clean. intros H.
  assert (H0 : In e (Clean.w_ev (Clean.emit w (Clean.EClean (Clean.t_name t)))) \/ harmless e).
  { destruct (Clean.t_clean t) as [acts|].
    - apply clean_actions_dry in H. exact H.
    - unfold Clean.clean_targets in H. apply clean_targets_dry in H. exact H. }
  destruct H0 as [H0|H0]; auto. simpl in H0. rewrite in_app_iff in H0. simpl in H0.
  destruct H0 as [H0|[<-|[]]]; simpl; auto.
Qed.

Lemma clean_tasks_dry forget : forall ts cleaned w l w' e,
  Clean.clean_tasks true forget ts cleaned w = (l, w') ->
  In e (Clean.w_ev w') -> In e (Clean.w_ev w) \/ harmless e.
Proof.
  induction ts as [|t ts IH]; intros cleaned w l w' e H Hin; simpl in H.
  - inversion H; subst; auto.
  - destruct (mem (Clean.t_name t) cleaned).
    + eapply IH; eauto.
    + rewrite andb_false_r in H.
      destruct (Clean.clean_tasks true forget ts (Clean.t_name t :: cleaned) (Clean.task_clean t true w)) as [l1 w3] eqn:E.
      inversion H; subst.
      destruct (IH _ _ _ _ e E Hin) as [X|X]; auto. apply task_clean_dry in X. exact X.
Qed.

(* ------------------------------------------------------------------ the statements of Properties/C20.v *)
Lemma ck_changed_foreign c r : ck_changed c r = true -> exists p, r_checker r = Some p /\ p <> c.
Proof.
  unfold ck_changed. destruct (r_checker r) as [p|]; [|discriminate]. intros F.
  exists p. split; auto. apply ck_eqb_neq. apply negb_true_iff. exact F.
Qed.

Lemma T_status_frame : forall (md5 : N -> N) (v : ver) (c : ck) (fs : fsys) (d : db) (t : name) (df : tdef) (get_log : bool),
  let d' := g_db (get_status md5 v c fs d t df get_log) in
  d' = d \/
  ((exists p, r_checker (getrec d t) = Some p /\ p <> c) /\ d' = remove d t).
Proof.
  intros md5 v c fs d t df gl. cbv zeta.
  destruct (get_status_db md5 v c fs d t df gl) as [E|[F E]]; [left; exact E|right].
  split; [|exact E]. apply ck_changed_foreign; auto.
Qed.

Lemma T_list_frame : forall (md5 : N -> N) (v : ver) (name_ltb : name -> name -> bool) (iv : iver) (cv : name -> cvals)
    (tb : table) (o : lopts) (c : ck) (fs : fsys) (d : db) (b : backend) (x : name),
  let d' := persisted b d (lres_db d (list_cmd md5 v name_ltb iv cv tb o c fs d)) in
  d' x = d x \/ (d' x = None /\ exists p, r_checker (getrec d x) = Some p /\ p <> c).
Proof.
  intros md5 v lt iv cv tb o c fs d b x. cbv zeta.
  destruct (persisted_frame b c d _ (list_cmd_frame md5 v iv cv tb lt o c fs d) x) as [E|[E F]]; [left; exact E|right].
  split; [exact E|]. apply ck_changed_foreign; auto.
Qed.

Lemma T_info_frame : forall (md5 : N -> N) (v : ver) (iv : iver) (cv : name -> cvals) (tb : table) (pos : list name) (hide : bool)
    (c : ck) (fs : fsys) (d : db) (b : backend) (x : name),
  let d' := persisted b d (ires_db d (info_cmd md5 v iv cv tb pos hide c fs d)) in
  d' x = d x \/ (d' x = None /\ exists p, r_checker (getrec d x) = Some p /\ p <> c).
Proof.
  intros md5 v iv cv tb pos hide c fs d b x. cbv zeta.
  destruct (persisted_frame b c d _ (info_cmd_frame md5 v iv cv tb pos hide c fs d) x) as [E|[E F]]; [left; exact E|right].
  split; [exact E|]. apply ck_changed_foreign; auto.
Qed.

Lemma T_no_query_no_change : forall (md5 : N -> N) (v : ver) (name_ltb : name -> name -> bool) (iv : iver) (cv : name -> cvals)
    (tb : table) (o : lopts) (pos : list name) (c : ck) (fs : fsys) (d : db),
  (o_status o = false -> lres_db d (list_cmd md5 v name_ltb iv cv tb o c fs d) = d) /\
  ires_db d (info_cmd md5 v iv cv tb pos true c fs d) = d /\
  (no_foreign c d -> forall hide x,
     lres_db d (list_cmd md5 v name_ltb iv cv tb o c fs d) x = d x /\ ires_db d (info_cmd md5 v iv cv tb pos hide c fs d) x = d x).
Proof.
  intros md5 v lt iv cv tb o pos c fs d. split; [|split].
  - intros Hs. unfold list_cmd. destruct (print_list lt tb o); simpl; auto. apply print_tasks_no_status; auto.
  - apply info_hide_db.
  - intros Hn hide x. split; apply (db_frame_no_foreign c d _ Hn).
    + apply list_cmd_frame.
    + apply info_cmd_frame.
Qed.

Lemma T_readonly_as_history : forall (md5 : N -> N) (size_of : N -> Z) (v : ver) (iv : iver) (cv : name -> cvals) (tb : table)
    (s : state) (o : lopts) (pl : list ltask) (lines : list lline) (d' : db),
  (forall t dk, In t pl -> shown_def iv cv tb dk t = s_defs s (l_name t)) ->
  print_tasks md5 v iv cv tb (s_ck s) (s_fs s) o pl (s_db s) = LOk lines d' ->
  let ops := list_ops (s_db s) (o_status o) pl in
  forallb query_op ops = true /\
  s_db (run_from md5 size_of v s ops) = d' /\
  same_world s (run_from md5 size_of v s ops) /\
  (forall hide n, forallb query_op (info_ops hide n) = true /\ same_world s (run_from md5 size_of v s (info_ops hide n))).
Proof.
  intros md5 size_of v iv cv tb s o pl lines d' Hdef H. cbv zeta.
  split; [apply list_ops_query|].
  split; [exact (print_tasks_as_history md5 v iv cv tb size_of o pl s lines d' Hdef H (s_db s) (ign_frame_refl _))|].
  split; [apply query_run_world; apply list_ops_query|].
  intros hide n. split; [apply info_ops_query | apply query_run_world; apply info_ops_query].
Qed.

Lemma T_clean_dryrun_frame : forall pat (fnmatch : name -> pat -> bool) tb o w l w',
  Clean.clean_execute pat fnmatch tb o w = Clean.Ok (l, w') -> Clean.o_dryrun o = true ->
  Clean.w_fs w' = Clean.w_fs w /\ (forall x, In x (Clean.w_db w') <-> In x (Clean.w_db w)) /\
  forall e, In e (Clean.w_ev w') -> In e (Clean.w_ev w) \/ harmless e.
Proof.
  intros pat fnmatch tb o w l w' H Hd.
  destruct (CleanP.T_dryrun_frame pat fnmatch tb o w l w' H Hd) as [A B]. split; [exact A|]. split; [exact B|].
  destruct (CleanP.clean_execute_inv pat fnmatch tb o w l w' H) as (ts & _ & _ & Hc).
  rewrite Hd in Hc. intros e. exact (clean_tasks_dry _ _ _ _ _ _ e Hc).
Qed.

Lemma T_list_agrees : forall (md5 : N -> N) (v : ver) (name_ltb : name -> name -> bool) (iv : iver) (cv : name -> cvals)
    (tb : table) (o : lopts) (c : ck) (fs : fsys) (d : db) (pl : list ltask) (lines : list lline) (d' : db),
  fixCalc iv = true ->
  print_list name_ltb tb o = POk pl -> o_status o = true ->
  list_cmd md5 v name_ltb iv cv tb o c fs d = LOk lines d' ->
  filter is_task_line lines = map (fun x => LTask (fst (fst x)) (snd (fst x))) (status_letters md5 v iv cv tb c fs pl d) /\
  forall n l dk, In (n, l, dk) (status_letters md5 v iv cv tb c fs pl d) ->
    (forall x, dk x = d x \/ (dk x = None /\ ck_changed c (getrec d x) = true)) /\
    exists t, In t pl /\ n = l_name t /\
              l = decision_letter (run_decision md5 v c fs dk n (run_def tb (saved_cv cv dk) t)).
Proof.
  intros md5 v lt iv cv tb o c fs d pl lines d' Hfix Hpl Hs H. unfold list_cmd in H. rewrite Hpl in H.
  split; [exact (print_tasks_letters md5 v iv cv tb c fs o pl Hs d lines d' H)|].
  intros n l dk Hin. destruct (status_letters_spec md5 v iv cv tb c fs pl d n l dk Hin) as (F & t & A & B & C).
  split; [exact F|]. exists t. split; auto. split; auto. rewrite C. unfold shown_def. rewrite Hfix. reflexivity.
Qed.

Lemma T_list_agrees_one : forall (md5 : N -> N) (v : ver) (iv : iver) (cv : name -> cvals) (tb : table) (c : ck) (fs : fsys) (d : db) (t : ltask),
  fixCalc iv = true ->
  fst (task_status md5 v iv cv tb c fs d t) = decision_letter (run_decision md5 v c fs d (l_name t) (run_def tb (saved_cv cv d) t)).
Proof.
  intros md5 v iv cv tb c fs d t Hfix. rewrite task_status_decision. unfold shown_def. rewrite Hfix. reflexivity.
Qed.

Lemma persisted_ign_kept b d d' : ign_kept d d' -> ign_kept d (persisted b d d').
Proof. intros H. destruct b; simpl; auto; apply ign_kept_refl. Qed.

(* ignore mark + any checker: `list` (any options, any outcome, any code version) leaves the record alone -- in memory and,
   whatever the backend, on disk --, shows I on its line, and `run` skips the task as ignored *)
Lemma T_list_status_ignored : forall (md5 : N -> N) (v : ver) (name_ltb : name -> name -> bool) (iv : iver) (cv : name -> cvals)
    (tb : table) (o : lopts) (c : ck) (fs : fsys) (d : db) (b : backend) (x : name),
  status_is_ignore d x = true ->
  persisted b d (lres_db d (list_cmd md5 v name_ltb iv cv tb o c fs d)) x = d x /\
  (forall t, l_name t = x -> task_status md5 v iv cv tb c fs d t = (Some LtI, d)) /\
  (forall df, run_decision md5 v c fs d x df = DIgnore) /\
  (forall pl, print_list name_ltb tb o = POk pl ->
     forall l dk, In (x, l, dk) (status_letters md5 v iv cv tb c fs pl d) -> l = Some LtI /\ dk x = d x).
Proof.
  intros md5 v lt iv cv tb o c fs d b x Hi. split; [|split; [|split]].
  - apply (persisted_ign_kept b d _ (list_cmd_ign_kept md5 v iv cv tb lt o c fs d) x Hi).
  - intros t <-. apply task_status_ignored; auto.
  - intros df. unfold run_decision. rewrite Hi. reflexivity.
  - intros pl _ l dk Hin. apply (status_letters_ignored md5 v iv cv tb c fs pl d x l dk Hin Hi).
Qed.

Lemma T_info_ignored : forall (md5 : N -> N) (v : ver) (iv : iver) (cv : name -> cvals) (tb : table) (pos : list name) (hide : bool)
    (c : ck) (fs : fsys) (d : db) (b : backend) (x : name),
  fixIgn iv = true -> status_is_ignore d x = true ->
  persisted b d (ires_db d (info_cmd md5 v iv cv tb pos hide c fs d)) x = d x /\
  (forall t, lookup tb x = Some t -> info_cmd md5 v iv cv tb [x] false c fs d = IOk IIgnored [] 0 d).
Proof.
  intros md5 v iv cv tb pos hide c fs d b x Hfix Hi. split.
  - apply (persisted_ign_kept b d _ (info_cmd_ign_kept md5 v iv cv tb pos hide c fs d Hfix) x Hi).
  - intros t Hl. apply (info_cmd_ignored md5 v iv cv tb x t c fs d Hfix Hl). destruct (lookup_name tb x t Hl) as [-> _]. exact Hi.
Qed.

Lemma T_reachable_no_typeerror : forall (md5 : N -> N) (size_of : N -> Z) (ops : list op) (t : name) (df : tdef) (gl : bool),
  let s := run md5 size_of current ops in
  g_status (get_status md5 current (s_ck s) (s_fs s) (s_db s) t df gl) <> Crash.
Proof.
  intros md5 size_of ops t df gl. cbv zeta. apply get_status_no_crash.
  exact (proj1 (run_typed md5 size_of current eq_refl ops) t).
Qed.

Lemma T_info_agrees_partial : forall (md5 : N -> N) (v : ver) (c : ck) (fs : fsys) (d : db) (t : name) (df : tdef),
  (g_status (get_status md5 v c fs d t df true) = UpToDate <-> g_status (get_status md5 v c fs d t df false) = UpToDate) /\
  ((forall f, In f (file_dep df) -> fs f <> None) ->
   g_status (get_status md5 v c fs d t df true) <> Crash ->
   g_status (get_status md5 v c fs d t df true) = g_status (get_status md5 v c fs d t df false) /\
   (status_is_ignore d t = false ->
    decision_of_status (g_status (get_status md5 v c fs d t df true)) = run_decision md5 v c fs d t df)).
Proof.
  intros md5 v c fs d t df. split; [exact (get_status_modes_agree_uptodate md5 v c fs d t df)|].
  intros Hex Hnc. pose proof (get_status_modes_agree md5 v c fs d t df Hex Hnc) as E. split; [exact E|].
  intros Hig. unfold run_decision. rewrite Hig, E. reflexivity.
Qed.

(* the status line of `info` (repaired code) is the decision of `run`: always for an ignored task and
   for the verdict up-to-date, and in every case when all file dependencies exist *)
Lemma T_info_cmd_agrees_partial : forall (md5 : N -> N) (v : ver) (iv : iver) (cv : name -> cvals) (tb : table)
    (n : name) (t : ltask) (c : ck) (fs : fsys) (d : db) (st : istatus) (lines : list iline) (rc : Z) (d' : db),
  fixCalc iv = true -> fixIgn iv = true ->
  lookup tb n = Some t ->
  info_cmd md5 v iv cv tb [n] false c fs d = IOk st lines rc d' ->
  let x := run_decision md5 v c fs d (l_name t) (run_def tb (saved_cv cv d) t) in
  (x = DIgnore <-> st = IIgnored) /\
  (x = DUpToDate <-> st = IStatus UpToDate) /\
  ((forall f, In f (file_dep (run_def tb (saved_cv cv d) t)) -> fs f <> None) -> istatus_decision st = Some x).
Proof.
  intros md5 v iv cv tb n t c fs d st lines rc d' Hc Hi Hl H. cbv zeta.
  destruct (info_cmd_status md5 v iv cv tb n t c fs d st lines rc d' Hl H) as [(Ei & -> & _)|(Ei & Hst)].
  - rewrite Hi in Ei. simpl in Ei. unfold run_decision. rewrite Ei.
    split; [tauto|]. split; [split; discriminate|]. reflexivity.
  - cbv zeta in Hst. destruct Hst as (-> & Hnc & _ & _). rewrite Hi in Ei. simpl in Ei.
    unfold shown_def in *. rewrite Hc in *.
    set (df := run_def tb (saved_cv cv d) t) in *.
    unfold run_decision. rewrite Ei.
    split; [split; [intros X|discriminate]|].
    { destruct (g_status (get_status md5 v c fs d (l_name t) df false)); discriminate. }
    split.
    { pose proof (get_status_modes_agree_uptodate md5 v c fs d (l_name t) df) as A. split.
      - intros X. f_equal. apply A. destruct (g_status (get_status md5 v c fs d (l_name t) df false)); try discriminate; reflexivity.
      - intros X. inversion X as [X']. apply A in X'. rewrite X'. reflexivity. }
    intros Hex. simpl. rewrite (get_status_modes_agree md5 v c fs d (l_name t) df Hex Hnc). reflexivity.
Qed.

(* ---- the repaired DependencyStatus (fixL of Model/Status.v): the first reason decides ---- *)
(* get_status: the accumulate-all mode answers what the stop-at-the-first-reason mode answers, in every case
   (up-to-date, run, error), whatever files are missing.  The TypeError of Status.v ([Crash]: a state saved by the
   other checker handed to MD5Checker) is the one exception, stated exactly: get_log=True compares EVERY file
   dependency, get_log=False stops at the first reason, so get_log=True can meet a TypeError that get_log=False does
   not reach -- never the other way round --, and there is none at all on a well-typed record *)
Lemma T_info_agrees : forall (md5 : N -> N) (v : ver) (c : ck) (fs : fsys) (d : db) (t : name) (df : tdef),
  fixL v = true ->
  let gl := g_status (get_status md5 v c fs d t df true) in
  let gn := g_status (get_status md5 v c fs d t df false) in
  (gl <> Crash -> gl = gn) /\
  (gn = Crash -> gl = Crash) /\
  (rec_typed (getrec d t) -> gl = gn /\ gl <> Crash) /\
  (gl <> Crash -> status_is_ignore d t = false -> decision_of_status gl = run_decision md5 v c fs d t df).
Proof.
  intros md5 v c fs d t df HL. cbv zeta.
  split; [exact (get_status_modes_agree_fixL md5 v c fs d t df HL)|].
  split; [exact (get_status_crash_modes md5 v c fs d t df)|].
  split.
  - intros Hty. split; [exact (get_status_modes_agree_typed md5 v c fs d t df HL Hty) | exact (get_status_no_crash md5 v c fs d t df true Hty)].
  - intros Hnc Hig. unfold run_decision. rewrite Hig. rewrite (get_status_modes_agree_fixL md5 v c fs d t df HL Hnc). reflexivity.
Qed.

(* `info T` answered (anything but the TypeError): the status line is the decision of `run` on the merged definition --
   ignored, up-to-date, run or error -- with no hypothesis on the file system *)
Lemma T_info_cmd_agrees : forall (md5 : N -> N) (v : ver) (iv : iver) (cv : name -> cvals) (tb : table)
    (n : name) (t : ltask) (c : ck) (fs : fsys) (d : db) (st : istatus) (lines : list iline) (rc : Z) (d' : db),
  fixL v = true -> fixCalc iv = true -> fixIgn iv = true ->
  lookup tb n = Some t ->
  info_cmd md5 v iv cv tb [n] false c fs d = IOk st lines rc d' ->
  istatus_decision st = Some (run_decision md5 v c fs d (l_name t) (run_def tb (saved_cv cv d) t)).
Proof.
  intros md5 v iv cv tb n t c fs d st lines rc d' HL Hc Hi Hl H.
  destruct (info_cmd_status md5 v iv cv tb n t c fs d st lines rc d' Hl H) as [(Ei & -> & _)|(Ei & Hst)].
  - rewrite Hi in Ei. simpl in Ei. unfold run_decision. rewrite Ei. reflexivity.
  - cbv zeta in Hst. destruct Hst as (-> & Hnc & _ & _). rewrite Hi in Ei. simpl in Ei.
    unfold shown_def in *. rewrite Hc in *.
    set (df := run_def tb (saved_cv cv d) t) in *.
    unfold run_decision. rewrite Ei. simpl.
    rewrite (get_status_modes_agree_fixL md5 v c fs d (l_name t) df HL Hnc). reflexivity.
Qed.

(* `info T` on a task of the table ends in the TypeError exactly when get_status(get_log=True) does; never on a
   well-typed record *)
Lemma T_info_cmd_answers : forall (md5 : N -> N) (v : ver) (iv : iver) (cv : name -> cvals) (tb : table)
    (n : name) (t : ltask) (c : ck) (fs : fsys) (d : db),
  lookup tb n = Some t ->
  (exists st lines rc d', info_cmd md5 v iv cv tb [n] false c fs d = IOk st lines rc d') \/
  (fixIgn iv && status_is_ignore d (l_name t) = false /\
   g_status (get_status md5 v c fs d (l_name t) (shown_def iv cv tb d t) true) = Crash /\
   exists d', info_cmd md5 v iv cv tb [n] false c fs d = ICrash d').
Proof.
  intros md5 v iv cv tb n t c fs d Hl. unfold info_cmd. rewrite Hl.
  destruct (fixIgn iv && status_is_ignore d (l_name t)) eqn:Ei; simpl.
  - left. repeat eexists.
  - destruct (g_status (get_status md5 v c fs d (l_name t) (shown_def iv cv tb d t) true)) eqn:Es;
      [left; repeat eexists | left; repeat eexists | left; repeat eexists | right; split; [reflexivity|]; split; [reflexivity|]; eexists; reflexivity].
Qed.

(* in EVERY state reached by a history (Model/History.v; no freshness hypothesis), on every table and for every
   task of it: `info T` answers, and its status line is the decision of `run` *)
Lemma T_info_cmd_agrees_reachable : forall (md5 : N -> N) (size_of : N -> Z) (ops : list op) (iv : iver) (cv : name -> cvals) (tb : table)
    (n : name) (t : ltask),
  fixCalc iv = true -> fixIgn iv = true ->
  lookup tb n = Some t ->
  let s := run md5 size_of current ops in
  exists st lines rc d',
    info_cmd md5 current iv cv tb [n] false (s_ck s) (s_fs s) (s_db s) = IOk st lines rc d' /\
    istatus_decision st = Some (run_decision md5 current (s_ck s) (s_fs s) (s_db s) (l_name t) (run_def tb (saved_cv cv (s_db s)) t)).
Proof.
  intros md5 size_of ops iv cv tb n t Hc Hi Hl. cbv zeta.
  destruct (T_info_cmd_answers md5 current iv cv tb n t
              (s_ck (run md5 size_of current ops)) (s_fs (run md5 size_of current ops)) (s_db (run md5 size_of current ops)) Hl)
    as [(st & lines & rc & d' & H)|(_ & Hcr & _)].
  - exists st, lines, rc, d'. split; [exact H|].
    exact (T_info_cmd_agrees md5 current iv cv tb n t _ _ _ st lines rc d' eq_refl Hc Hi Hl H).
  - exfalso. revert Hcr. apply T_reachable_no_typeerror.
Qed.

(* ================================================================== clean [--dry-run] over clean lists
   (Introspect.v, last part) *)
Lemma cemit_ev w e x : In x (c_ev (cemit w e)) <-> In x (c_ev w) \/ x = e.
Proof. simpl. rewrite in_app_iff. simpl. intuition. Qed.

(* ---- clean_targets: prints only; removes only when not dry *)
Lemma ctarget_db t dry w f : c_db (ctarget t dry w f) = c_db w.
Proof. unfold ctarget. destruct (mem f (c_fs w)); [destruct dry|]; reflexivity. Qed.
Lemma ctarget_fs_dry t w f : c_fs (ctarget t true w f) = c_fs w.
Proof. unfold ctarget. destruct (mem f (c_fs w)); reflexivity. Qed.
Lemma ctarget_ev t dry w f x :
  In x (c_ev (ctarget t dry w f)) <-> In x (c_ev w) \/ (x = VMsg t f /\ mem f (c_fs w) = true).
Proof.
  unfold ctarget. destruct (mem f (c_fs w)).
  - destruct dry; simpl; rewrite in_app_iff; simpl; intuition.
  - intuition. discriminate.
Qed.

Lemma ctargets_fold_db t dry : forall L w, c_db (fold_left (ctarget t dry) L w) = c_db w.
Proof. induction L as [|f L IH]; intros w; simpl; auto. rewrite IH. apply ctarget_db. Qed.
Lemma ctargets_fold_fs_dry t : forall L w, c_fs (fold_left (ctarget t true) L w) = c_fs w.
Proof. induction L as [|f L IH]; intros w; simpl; auto. rewrite IH. apply ctarget_fs_dry. Qed.
Lemma ctargets_fold_ev t dry : forall L w x,
  In x (c_ev (fold_left (ctarget t dry) L w)) -> In x (c_ev w) \/ exists f, x = VMsg t f.
Proof.
  induction L as [|f L IH]; intros w x H; simpl in H; auto.
  apply IH in H. destruct H as [H|H]; auto. apply ctarget_ev in H. destruct H as [H|[H _]]; eauto.
Qed.
Lemma ctargets_fold_keeps t dry : forall L w x, In x (c_ev w) -> In x (c_ev (fold_left (ctarget t dry) L w)).
Proof. induction L as [|f L IH]; intros w x H; simpl; auto. apply IH. apply ctarget_ev. auto. Qed.

Lemma ctargets_db t tg dry w : c_db (ctargets t tg dry w) = c_db w.
Proof. apply ctargets_fold_db. Qed.
Lemma ctargets_fs_dry t tg w : c_fs (ctargets t tg true w) = c_fs w.
Proof. apply ctargets_fold_fs_dry. Qed.
Lemma ctargets_exec t tg dry w t' i fl :
  In (VExec t' i fl) (c_ev (ctargets t tg dry w)) <-> In (VExec t' i fl) (c_ev w).
Proof.
  split.
  - intros H. apply ctargets_fold_ev in H. destruct H as [H|[f H]]; [exact H|discriminate].
  - apply ctargets_fold_keeps.
Qed.
Lemma ctargets_ev t tg dry w x :
  In x (c_ev (ctargets t tg dry w)) -> In x (c_ev w) \/ exists f, x = VMsg t f.
Proof. apply ctargets_fold_ev. Qed.

(* ---- one action *)
Definition flag_of (a : cact) (dry : bool) : option bool := if takes_dryrun a then Some dry else None.

Lemma exec_act_db t tg i dry a w : c_db (exec_act t tg i dry a w) = c_db w.
Proof. destruct a; simpl; auto. rewrite ctargets_db. reflexivity. Qed.

Lemma exec_act_exec t tg i dry a w t' i' fl :
  In (VExec t' i' fl) (c_ev (exec_act t tg i dry a w)) <->
  In (VExec t' i' fl) (c_ev w) \/ (t' = t /\ i' = i /\ fl = flag_of a dry).
Proof.
  assert (E : forall f, VExec t' i' fl = VExec t i f <-> t' = t /\ i' = i /\ fl = f).
  { intros f. split; [intros H; inversion H; auto | intros (-> & -> & ->); reflexivity]. }
  destruct a; unfold flag_of; simpl.
  - rewrite ctargets_exec. rewrite cemit_ev. rewrite E. reflexivity.
  - rewrite in_app_iff. simpl. rewrite <- E. intuition.
  - rewrite in_app_iff. simpl. rewrite <- E. intuition.
  - rewrite in_app_iff. simpl. rewrite <- E. intuition.
Qed.

Lemma exec_act_ev t tg i dry a w x :
  In x (c_ev (exec_act t tg i dry a w)) -> In x (c_ev w) \/ x = VExec t i (flag_of a dry) \/ exists f, x = VMsg t f.
Proof.
  destruct a; unfold flag_of; simpl.
  - intros H. apply ctargets_ev in H. destruct H as [H|H]; auto. apply cemit_ev in H. intuition.
  - rewrite in_app_iff. simpl. intuition.
  - rewrite in_app_iff. simpl. intuition.
  - rewrite in_app_iff. simpl. intuition.
Qed.

Lemma exec_act_fs_dry t tg i a w : takes_dryrun a = true -> honours a -> c_fs (exec_act t tg i true a w) = c_fs w.
Proof.
  destruct a; simpl; try discriminate; intros _ H.
  - rewrite ctargets_fs_dry. reflexivity.
  - rewrite H. reflexivity.
Qed.

(* ---- the loop over the clean actions: action k of the list (index i0 + k) is invoked iff
   the run is not a dry-run or the action itself takes `dryrun`; nothing else about the list matters *)
Definition invoked (dry : bool) (a : cact) : Prop := dry = false \/ takes_dryrun a = true.

Lemma cclean_actions_exec t tg dry : forall acts i0 w t' i fl,
  In (VExec t' i fl) (c_ev (cclean_actions t tg dry i0 acts w)) <->
  In (VExec t' i fl) (c_ev w) \/
  (t' = t /\ exists k a, i = (i0 + k)%nat /\ nth_error acts k = Some a /\ invoked dry a /\ fl = flag_of a dry).
Proof.
  induction acts as [|a r IH]; intros i0 w t' i fl.
  - simpl. split; auto. intros [H|(_ & k & a & _ & H & _)]; auto. destruct k; discriminate.
  - simpl cclean_actions. rewrite IH.
    assert (W2 : In (VExec t' i fl) (c_ev (if negb dry || takes_dryrun a
                                           then exec_act t tg i0 dry a (cemit w (VAnnounce t i0)) else cemit w (VAnnounce t i0))) <->
                 In (VExec t' i fl) (c_ev w) \/ (t' = t /\ i = i0 /\ invoked dry a /\ fl = flag_of a dry)).
    { destruct (negb dry || takes_dryrun a) eqn:C.
      - rewrite exec_act_exec, cemit_ev.
        assert (I : invoked dry a). { unfold invoked. destruct dry; simpl in C; auto. }
        split.
        + intros [[H|H]|H]; auto; [discriminate|]. right. tauto.
        + intros [H|H]; auto. right. tauto.
      - rewrite cemit_ev. split.
        + intros [H|H]; auto. discriminate.
        + intros [H|(_ & _ & [I|I] & _)]; auto; exfalso.
          * subst dry. discriminate.
          * rewrite I in C. rewrite orb_true_r in C. discriminate. }
    rewrite W2. split.
    + intros [[H|(-> & -> & I & F)]|(-> & k & a' & E & N & I & F)]; auto.
      * right. split; auto. exists 0%nat, a. rewrite Nat.add_0_r. auto.
      * right. split; auto. exists (S k), a'. split; [lia|]. auto.
    + intros [H|(-> & k & a' & E & N & I & F)]; auto.
      destruct k as [|k]; simpl in N.
      * inversion N; subst a'. left. right. rewrite Nat.add_0_r in E. auto.
      * right. split; auto. exists k, a'. split; [lia|]. auto.
Qed.

Lemma cclean_actions_ev t tg dry : forall acts i0 w x,
  In x (c_ev (cclean_actions t tg dry i0 acts w)) ->
  In x (c_ev w) \/ (exists i, x = VAnnounce t i) \/ (exists f, x = VMsg t f) \/ (exists i fl, x = VExec t i fl).
Proof.
  induction acts as [|a r IH]; intros i0 w x H; simpl in H; auto.
  apply IH in H. destruct H as [H|H]; auto.
  assert (A : In x (c_ev (cemit w (VAnnounce t i0))) -> In x (c_ev w) \/ (exists i, x = VAnnounce t i)).
  { intros X. apply cemit_ev in X. destruct X; eauto. }
  destruct (negb dry || takes_dryrun a).
  - apply exec_act_ev in H. destruct H as [H|[H|H]]; eauto 6. apply A in H. tauto.
  - apply A in H. tauto.
Qed.

Lemma cclean_actions_db t tg dry : forall acts i0 w, c_db (cclean_actions t tg dry i0 acts w) = c_db w.
Proof.
  induction acts as [|a r IH]; intros i0 w; simpl; auto. rewrite IH.
  destruct (negb dry || takes_dryrun a); [rewrite exec_act_db|]; reflexivity.
Qed.

Lemma cclean_actions_fs_dry t tg : forall acts i0 w,
  (forall a, In a acts -> honours a) -> c_fs (cclean_actions t tg true i0 acts w) = c_fs w.
Proof.
  induction acts as [|a r IH]; intros i0 w Hh; simpl; auto.
  rewrite IH; [|intros; apply Hh; right; auto].
  destruct (takes_dryrun a) eqn:E; simpl; auto.
  rewrite exec_act_fs_dry; auto. apply Hh. left; auto.
Qed.

(* every action is announced, whether executed or not *)
Lemma cclean_actions_announce t tg dry : forall acts i0 w k,
  (k < length acts)%nat -> In (VAnnounce t (i0 + k)) (c_ev (cclean_actions t tg dry i0 acts w)).
Proof.
  assert (K : forall acts i0 w x, In x (c_ev w) -> In x (c_ev (cclean_actions t tg dry i0 acts w))).
  { induction acts as [|a r IH]; intros i0 w x H; simpl; auto. apply IH.
    destruct (negb dry || takes_dryrun a).
    - destruct a; simpl; try (rewrite !in_app_iff; simpl; tauto).
      apply ctargets_fold_keeps. rewrite !cemit_ev. auto.
    - apply cemit_ev. auto. }
  induction acts as [|a r IH]; intros i0 w k Hk; simpl in Hk; [lia|].
  simpl. destruct k as [|k].
  - rewrite Nat.add_0_r. apply K. destruct (negb dry || takes_dryrun a).
    + destruct a; simpl; try (rewrite !in_app_iff; simpl; tauto).
      apply ctargets_fold_keeps. rewrite !cemit_ev. auto.
    + apply cemit_ev. auto.
  - replace (i0 + S k)%nat with (S i0 + k)%nat by lia. apply IH. lia.
Qed.

(* ---- one task, a list of tasks, the command *)
Lemma ctask_clean_db t dry w : c_db (ctask_clean t dry w) = c_db w.
Proof. unfold ctask_clean. destruct (ct_clean t); [rewrite cclean_actions_db | rewrite ctargets_db]; reflexivity. Qed.

Lemma ctask_clean_fs_dry t w : honest t -> c_fs (ctask_clean t true w) = c_fs w.
Proof.
  intros H. unfold ctask_clean. destruct (ct_clean t) as [acts|] eqn:E.
  - rewrite cclean_actions_fs_dry; auto. intros a Ha. exact (H acts a E Ha).
  - rewrite ctargets_fs_dry. reflexivity.
Qed.

Lemma ctask_clean_ev_dry tb t w x : In t tb ->
  In x (c_ev (ctask_clean t true w)) -> In x (c_ev w) \/ dry_ok tb x.
Proof.
  intros Ht. unfold ctask_clean. destruct (ct_clean t) as [acts|] eqn:E; intros H.
  - destruct x as [n d|n i|n i fl|n f]; try (right; exact I).
    + apply cclean_actions_ev in H. destruct H as [H|[[i H]|[[f H]|[i [fl H]]]]]; try discriminate.
      apply cemit_ev in H. destruct H as [H|H]; auto. inversion H; subst. right. reflexivity.
    + apply cclean_actions_exec in H. destruct H as [H|(-> & k & a & -> & N & [I|I] & F)]; [|discriminate|].
      * apply cemit_ev in H. destruct H as [H|H]; [auto|discriminate].
      * right. unfold flag_of in F. rewrite I in F. split; [exact F|].
        exists t, acts, a. simpl. auto.
  - apply ctargets_ev in H. destruct H as [H|[f ->]]; [|right; exact I].
    apply cemit_ev in H. destruct H as [H| ->]; auto. right. reflexivity.
Qed.

Lemma cclean_tasks_dry tb forget : forall ts cleaned w l w',
  (forall t, In t ts -> In t tb) ->
  cclean_tasks true forget ts cleaned w = (l, w') ->
  c_db w' = c_db w /\
  (forall x, In x (c_ev w') -> In x (c_ev w) \/ dry_ok tb x) /\
  ((forall t, In t ts -> honest t) -> c_fs w' = c_fs w).
Proof.
  induction ts as [|t ts IH]; intros cleaned w l w' Hin H; simpl in H.
  - inversion H; subst. auto.
  - destruct (mem (ct_name t) cleaned).
    + destruct (IH _ _ _ _ (fun u Hu => Hin u (or_intror Hu)) H) as (A & B & C).
      split; auto. split; auto. intros Hh. apply C. intros u Hu. apply Hh. right; auto.
    + rewrite andb_false_r in H.
      destruct (cclean_tasks true forget ts (ct_name t :: cleaned) (ctask_clean t true w)) as [l1 w3] eqn:E.
      inversion H; subst.
      destruct (IH _ _ _ _ (fun u Hu => Hin u (or_intror Hu)) E) as (A & B & C).
      split; [rewrite A; apply ctask_clean_db|]. split.
      * intros x Hx. destruct (B x Hx) as [X|X]; auto.
        apply (ctask_clean_ev_dry tb t w x (Hin t (or_introl eq_refl))) in X. exact X.
      * intros Hh. rewrite C; [|intros u Hu; apply Hh; right; auto].
        apply ctask_clean_fs_dry. apply Hh. left; auto.
Qed.

Lemma clookup_In : forall tb n t, clookup tb n = Some t -> In t tb /\ ct_name t = n.
Proof.
  induction tb as [|u tb IH]; intros n t H; simpl in H; [discriminate|].
  destruct (N.eqb (ct_name u) n) eqn:E.
  - inversion H; subst. apply N.eqb_eq in E. split; [left|]; auto.
  - destruct (IH _ _ H). split; [right|]; auto.
Qed.
Lemma clookup_all_In tb : forall l ts, clookup_all tb l = Some ts -> forall t, In t ts -> In t tb.
Proof.
  induction l as [|n l IH]; intros ts H t Ht; simpl in H.
  - inversion H; subst. destruct Ht.
  - destruct (clookup tb n) as [u|] eqn:E; [|discriminate].
    destruct (clookup_all tb l) as [us|] eqn:E2; [|discriminate]. inversion H; subst.
    destruct Ht as [<-|Ht]; [exact (proj1 (clookup_In _ _ _ E))|eauto].
Qed.

Lemma cclean_cmd_inv pat fnmatch tb o w l w' :
  cclean_cmd pat fnmatch tb o w = Clean.Ok (l, w') ->
  exists order ts, Clean.clean_order pat fnmatch (map to_clean_task tb) o = Clean.Ok order /\
                   clookup_all tb order = Some ts /\
                   cclean_tasks (Clean.o_dryrun o) (Clean.o_forget o) ts [] w = (l, w').
Proof.
  unfold cclean_cmd. destruct (Clean.clean_order pat fnmatch (map to_clean_task tb) o) as [order| | |]; try discriminate.
  destruct (clookup_all tb order) as [ts|] eqn:E; [|discriminate].
  intros H. inversion H as [H1]. exists order, ts. auto.
Qed.

(* the invocation of the actions of one clean list, as Properties/C20.v states it *)
Lemma T_clean_action_invoked_iff : forall (t : name) (tg : list file) (dry : bool) (acts : list cact) (w : cworld)
    (t' : name) (i : nat) (fl : option bool),
  In (VExec t' i fl) (c_ev (cclean_actions t tg dry 0 acts w)) <->
  In (VExec t' i fl) (c_ev w) \/
  (t' = t /\ exists a, nth_error acts i = Some a /\ (dry = false \/ takes_dryrun a = true) /\
                       fl = if takes_dryrun a then Some dry else None).
Proof.
  intros t tg dry acts w t' i fl. rewrite cclean_actions_exec. split.
  - intros [H|(-> & k & a & -> & N & I & F)]; auto. right. split; auto. exists a. auto.
  - intros [H|(-> & a & N & I & F)]; auto. right. split; auto. exists i, a. auto.
Qed.

Lemma T_clean_dryrun_invoked_iff : forall (t : name) (tg : list file) (acts : list cact) (fs : cfs) (d : db) (i : nat) (fl : option bool),
  In (VExec t i fl) (c_ev (cclean_actions t tg true 0 acts {| c_fs := fs; c_db := d; c_ev := [] |})) <->
  exists a, nth_error acts i = Some a /\ takes_dryrun a = true /\ fl = Some true.
Proof.
  intros t tg acts fs d i fl. rewrite T_clean_action_invoked_iff. simpl. split.
  - intros [[]|(_ & a & N & [I|I] & F)]; [discriminate|]. exists a. rewrite I in F. auto.
  - intros (a & N & I & F). right. split; auto. exists a. rewrite I. auto.
Qed.

Lemma T_clean_announces_all : forall (t : name) (tg : list file) (dry : bool) (acts : list cact) (w : cworld) (i : nat),
  (i < length acts)%nat -> In (VAnnounce t i) (c_ev (cclean_actions t tg dry 0 acts w)).
Proof. intros t tg dry acts w i H. exact (cclean_actions_announce t tg dry acts 0%nat w i H). Qed.

Lemma T_clean_list_dryrun_frame : forall (t : name) (tg : list file) (acts : list cact) (w : cworld),
  let w' := cclean_actions t tg true 0 acts w in
  c_db w' = c_db w /\
  ((forall a, In a acts -> honours a) -> c_fs w' = c_fs w) /\
  (forall t' i fl, In (VExec t' i fl) (c_ev w') -> In (VExec t' i fl) (c_ev w) \/
     (t' = t /\ fl = Some true /\ exists a, nth_error acts i = Some a /\ takes_dryrun a = true)).
Proof.
  intros t tg acts w. cbv zeta. split; [apply cclean_actions_db|]. split; [apply cclean_actions_fs_dry|].
  intros t' i fl H. apply T_clean_action_invoked_iff in H. destruct H as [H|(-> & a & N & [I|I] & F)]; auto; [discriminate|].
  right. rewrite I in F. split; auto. split; auto. exists a. auto.
Qed.

Lemma T_cclean_dryrun_frame : forall (pat : Type) (fnmatch : name -> pat -> bool) (tb : ctable) (o : Clean.opts pat) (w : cworld) l w',
  cclean_cmd pat fnmatch tb o w = Clean.Ok (l, w') -> Clean.o_dryrun o = true ->
  (forall x, c_db w' x = c_db w x) /\
  (forall e, In e (c_ev w') -> In e (c_ev w) \/ dry_ok tb e) /\
  ((forall t, In t tb -> honest t) -> c_fs w' = c_fs w).
Proof.
  intros pat fnmatch tb o w l w' H Hd.
  destruct (cclean_cmd_inv pat fnmatch tb o w l w' H) as (order & ts & _ & Hl & Hc). rewrite Hd in Hc.
  destruct (cclean_tasks_dry tb _ ts [] w l w' (clookup_all_In tb order ts Hl) Hc) as (A & B & C).
  split; [intros x; rewrite A; reflexivity|]. split; [exact B|].
  intros Hh. apply C. intros t Ht. apply Hh. exact (clookup_all_In tb order ts Hl t Ht).
Qed.

(* the tasks handed to Task.clean, in order, are those of Model/Clean.v's command (C14) *)
Lemma cclean_tasks_names dry forget : forall ts cleaned w,
  fst (cclean_tasks dry forget ts cleaned w) =
  fst (Clean.clean_tasks dry forget (map to_clean_task ts) cleaned {| Clean.w_fs := []; Clean.w_db := []; Clean.w_ev := [] |}).
Proof.
  assert (G : forall ts cleaned w cw, fst (cclean_tasks dry forget ts cleaned w) = fst (Clean.clean_tasks dry forget (map to_clean_task ts) cleaned cw)).
  { induction ts as [|t ts IH]; intros cleaned w cw; simpl; auto.
    destruct (mem (ct_name t) cleaned); [apply IH|].
    match goal with |- fst (let '(l, w3) := ?X in _) = fst (let '(l', w3') := ?Y in _) =>
      pose proof (IH (ct_name t :: cleaned)) as E; destruct X as [l1 w1] eqn:E1; destruct Y as [l2 w2] eqn:E2 end.
    simpl. f_equal.
    match type of E1 with cclean_tasks _ _ _ _ ?W = _ => match type of E2 with Clean.clean_tasks _ _ _ _ ?CW = _ =>
      specialize (E W CW); rewrite E1, E2 in E; exact E end end. }
  intros. apply G.
Qed.

Lemma clookup_map tb n : Clean.lookup (map to_clean_task tb) n = option_map to_clean_task (clookup tb n).
Proof. induction tb as [|t tb IH]; simpl; auto. destruct (N.eqb (ct_name t) n); auto. Qed.
Lemma clookup_all_map tb : forall l ts, clookup_all tb l = Some ts ->
  Clean.lookup_all (map to_clean_task tb) l = Some (map to_clean_task ts).
Proof.
  induction l as [|n l IH]; intros ts H; simpl in *.
  - inversion H; reflexivity.
  - rewrite clookup_map. destruct (clookup tb n) as [u|]; [|discriminate].
    destruct (clookup_all tb l) as [us|]; [|discriminate]. inversion H; subst.
    simpl. rewrite (IH us eq_refl). reflexivity.
Qed.

(* the tasks cleaned, in order, are exactly those of Model/Clean.v's command on the same table: what C14
   proves about that list (selected tasks, once, dependents first) holds for [cclean_cmd] *)
Lemma T_cclean_cleaned_is_C14 : forall (pat : Type) (fnmatch : name -> pat -> bool) (tb : ctable) (o : Clean.opts pat) (w : cworld) l w',
  cclean_cmd pat fnmatch tb o w = Clean.Ok (l, w') ->
  exists cw', Clean.clean_execute pat fnmatch (map to_clean_task tb) o
                {| Clean.w_fs := []; Clean.w_db := []; Clean.w_ev := [] |} = Clean.Ok (l, cw').
Proof.
  intros pat fnmatch tb o w l w' H.
  destruct (cclean_cmd_inv pat fnmatch tb o w l w' H) as (order & ts & Ho & Hl & Hc).
  unfold Clean.clean_execute. rewrite Ho. rewrite (clookup_all_map tb order ts Hl).
  pose proof (cclean_tasks_names (Clean.o_dryrun o) (Clean.o_forget o) ts [] w) as E. rewrite Hc in E. simpl in E.
  destruct (Clean.clean_tasks (Clean.o_dryrun o) (Clean.o_forget o) (map to_clean_task ts) [] _) as [l2 cw2] eqn:E2.
  simpl in E. subst l2. exists cw2. reflexivity.
Qed.

(* ---- clean --dry-run over targets that are directories (Model/Clean.v, task.py 621-638): one target ---- *)
(* whatever the target is at that moment -- a regular file, an empty directory, a directory that holds
   something, nothing at all -- the dry-run prints exactly what the real clean prints for it from the
   same state and leaves every file, every directory and every DB record as they are *)
Lemma T_clean_dryrun_target_frame : forall (t : name) (w : Clean.world) (p : Clean.path),
  Clean.w_fs (Clean.clean_target t true w p) = Clean.w_fs w /\
  Clean.w_db (Clean.clean_target t true w p) = Clean.w_db w /\
  Clean.w_ev (Clean.clean_target t true w p) = Clean.w_ev (Clean.clean_target t false w p).
Proof.
  intros t w p. unfold Clean.clean_target.
  destruct (Clean.fs_get (Clean.w_fs w) p) as [[|]|]; simpl; auto.
  destruct (Clean.fs_nonempty (Clean.w_fs w) p); simpl; auto.
Qed.

(* all the targets of a task (`clean: True`), in the order of clean_targets: nothing changes, so every
   target is judged in the state the command started in -- an empty directory is announced as removed and
   is still there, a directory holding only files that are targets too is reported as not empty (the
   real clean would have removed the files first, and then the directory) *)
Lemma clean_targets_dry_fold : forall (t : name) (ps : list Clean.path) (w : Clean.world),
  Clean.w_fs (fold_left (Clean.clean_target t true) ps w) = Clean.w_fs w /\
  Clean.w_db (fold_left (Clean.clean_target t true) ps w) = Clean.w_db w.
Proof.
  intros t ps. induction ps as [|p ps IH]; intros w; simpl; auto.
  destruct (IH (Clean.clean_target t true w p)) as [A B].
  destruct (T_clean_dryrun_target_frame t w p) as (C & D & _).
  rewrite A, B, C, D. auto.
Qed.
Lemma T_clean_dryrun_targets_frame : forall (t : Clean.task) (w : Clean.world),
  Clean.w_fs (Clean.clean_targets t true w) = Clean.w_fs w /\
  Clean.w_db (Clean.clean_targets t true w) = Clean.w_db w.
Proof. intros t w. unfold Clean.clean_targets. apply clean_targets_dry_fold. Qed.

(* an empty directory that is a target: the dry-run says it would be removed, the real clean removes it *)
Lemma T_clean_empty_dir_target : forall (t : name) (w : Clean.world) (p : Clean.path),
  Clean.fs_get (Clean.w_fs w) p = Some Clean.KDir -> Clean.fs_nonempty (Clean.w_fs w) p = false ->
  Clean.clean_target t true w p = Clean.emit w (Clean.EMsgDir t p) /\
  Clean.w_fs (Clean.clean_target t false w p) = Clean.fs_remove (Clean.w_fs w) p.
Proof.
  intros t w p H1 H2. unfold Clean.clean_target. rewrite H1, H2. simpl. auto.
Qed.
