(* OrderP.v -- which tasks a serial run looks at, and in which order (C12 / C02).

   (1) closure, upper half: every task that gets a node -- hence every task named by any event of the
       trace -- is a selected task or is reachable from one through effective dependencies (task_dep,
       calc_dep, setup, what calc_dep tasks return).  Any table, cyclic or not, any prefix of the run.
   (2) order: the selected tasks are examined in the order given except where dependencies require
       otherwise: with selection = pre ++ post, over an acyclic table, a task b that is not needed by pre
       (not in pre, not reachable from pre) is first handed to the runner (EGetStatus b) only after every
       task of pre was handed over AND got its final report.  Over a cyclic table this is false
       (serial_order_needs_acyclic).

   Method: nodes are created in two places only.  A generator creates nodes for effective dependencies
   of its own task (relation [born]); _get_next_node creates a node for the next element of
   tasks_to_run, and only when nothing is ready and no generator is active -- over an acyclic table
   nothing is waiting then either (HoldP.hold_cycle), so every node created so far is finished. *)
From DoitV Require Import Base Dispatch Runner DispatchP DispatchInv RunnerTr RunnerP AncP HoldP CompleteP.
Open Scope N_scope.

Section O.
Variable tasks : name -> option task.
Variable wake_rank : name -> name -> N.
Variable calc_rank : name -> N.
Variable continue_ always : bool.

Notation node_of := (node_of tasks).
Notation st_of := (st_of tasks).
Notation get_task := (get_task tasks).
Notation eff_dep := (eff_dep tasks).
Notation eff_calc := (eff_calc tasks).
Notation reach := (reach tasks).
Notation AInv := (AInv tasks).
Notation gen_node := (gen_node tasks).
Notation add_wait_one := (add_wait_one tasks).
Notation add_wait_run := (add_wait_run tasks).
Notation gen_step := (gen_step tasks calc_rank).
Notation set_pc := (set_pc tasks).
Notation set_status := (set_status tasks).
Notation exn_set_node := (HoldP.exn_set_node tasks wake_rank calc_rank).
Notation HI := (HoldP.HI tasks).
Notation PS := (HoldP.PS tasks).

Implicit Types P : name -> Prop.
Implicit Types d : dstate.

(* ================================================================== who creates nodes *)
(* from d to d': tasks_to_run untouched, no node lost, every new node is for a name satisfying P *)
Definition born (P : name -> Prop) (d d' : dstate) : Prop :=
  d_torun d' = d_torun d /\ (forall z, exn d z -> exn d' z) /\ (forall z, exn d' z -> exn d z \/ P z).

Lemma born_refl P d : born P d d.
Proof. split; [reflexivity|]. split; auto. Qed.
Lemma born_trans P a b c : born P a b -> born P b c -> born P a c.
Proof.
  intros (A1 & A2 & A3) (B1 & B2 & B3). split; [congruence|]. split; [auto|].
  intros z Hz. destruct (B3 z Hz) as [H|H]; auto.
Qed.
Lemma born_set_old P d k nd : exn d k -> born P d (set_node d k nd).
Proof.
  intros Hk. split; [reflexivity|]. split.
  - intros z Hz. apply exn_set_node. auto.
  - intros z Hz. apply exn_set_node in Hz. destruct Hz as [Hz| ->]; auto.
Qed.
Lemma born_set_new P d k nd : P k -> born P d (set_node d k nd).
Proof.
  intros Hk. split; [reflexivity|]. split.
  - intros z Hz. apply exn_set_node. auto.
  - intros z Hz. apply exn_set_node in Hz. destruct Hz as [Hz| ->]; auto.
Qed.
Lemma born_q P d d' : d_nodes d' = d_nodes d -> d_torun d' = d_torun d -> born P d d'.
Proof. intros E T. split; [exact T|]. unfold exn. rewrite E. split; auto. Qed.
Lemma born_exn P d d' z : born P d d' -> exn d z -> exn d' z.
Proof. intros (_ & A & _). apply A. Qed.

Lemma gen_node_born P d pa k : P k -> born P d (snd (gen_node d pa k)).
Proof.
  intros Hk. unfold Dispatch.gen_node. destruct (d_nodes d k).
  - destruct pa as [a|]; [destruct (mem k a)|]; apply born_refl.
  - simpl. apply born_set_new. exact Hk.
Qed.

Lemma add_wait_one_born P d me x calc : exn d me -> P x -> born P d (add_wait_one d me x calc).
Proof.
  intros Hme Hx. unfold Dispatch.add_wait_one. destruct (unfinished (Dispatch.st_of tasks d x)).
  - eapply born_trans; [apply born_set_new; exact Hx|]. apply born_set_old. apply exn_set_node. auto.
  - apply born_set_old. exact Hme.
Qed.
Lemma add_wait_run_born P l : forall d me calc, exn d me -> (forall x, In x l -> P x) ->
  born P d (add_wait_run d me l calc).
Proof.
  induction l as [|x r IH]; intros d me calc Hme Hl; cbn [Dispatch.add_wait_run]; [apply born_refl|].
  pose proof (add_wait_one_born P d me x calc Hme (Hl x (or_introl eq_refl))) as B.
  eapply born_trans; [exact B|]. apply IH; [eapply born_exn; eauto|]. intros y Hy. apply Hl. right. exact Hy.
Qed.
Lemma set_pc_born P d me p : exn d me -> born P d (set_pc d me p).
Proof. intros H. unfold Dispatch.set_pc. apply born_set_old. exact H. Qed.

(* one resumption of the generator of [me]: new nodes are effective dependencies of me *)
Lemma gen_step_born fuel : forall d me y d',
  AInv d -> exn d me -> gen_step fuel d me = (y, d') -> born (eff_dep me) d d'.
Proof.
  induction fuel as [|fuel IH]; intros d me y d' H Hme Hg; cbn [Dispatch.gen_step] in Hg.
  { inversion Hg; subst. apply born_refl. }
  assert (Hdone : forall d0 y0, born (eff_dep me) d d0 -> (y0, d0) = (y, d') -> born (eff_dep me) d d').
  { intros d0 y0 B E. inversion E; subst. exact B. }
  assert (Hrec : forall d0, born (eff_dep me) d d0 -> AInv d0 -> gen_step fuel d0 me = (y, d') -> born (eff_dep me) d d').
  { intros d0 B A E. eapply born_trans; [exact B|]. eapply IH; [exact A| |exact E]. eapply born_exn; eauto. }
  pose proof (anode_of_ok tasks d me H) as Hok. destruct Hok as [Ac At Apc Apt Aw Awr Ap Aa].
  assert (Hchild : forall c (p' : pc), eff_dep me c -> pc_ok tasks me (nd_pc (node_of d me) p') ->
            match gen_node d (Some (n_anc (node_of d me))) c with
            | (GCycle, _) => (YCycle (n_anc (node_of d me) ++ [c]), d)
            | (GNew, d1) => (YNode c, set_pc d1 me p')
            | (GOld, d1) => gen_step fuel (set_pc d1 me p') me end = (y, d') ->
            born (eff_dep me) d d').
  { intros c p' He Hp Hg'.
    pose proof (child_step tasks d me c p' H Hme He Hp) as Hc.
    pose proof (gen_node_born (eff_dep me) d (Some (n_anc (node_of d me))) c He) as B.
    destruct (gen_node d (Some (n_anc (node_of d me))) c) as [[| |] d1]; simpl in B.
    - eapply Hdone; [|exact Hg']. eapply born_trans; [exact B|]. apply set_pc_born. eapply born_exn; eauto.
    - eapply Hrec; [|exact Hc|exact Hg']. eapply born_trans; [exact B|]. apply set_pc_born. eapply born_exn; eauto.
    - eapply Hdone; [|exact Hg']. apply born_refl. }
  destruct (n_pc (node_of d me)) as [|rest calcs tks|rest tks| | | |rest| |] eqn:Epc.
  - (* PLoop *)
    eapply Hrec; [apply born_set_old; exact Hme| |exact Hg].
    apply AInv_set_node; auto. split; simpl; auto.
    + intros z [].
    + intros z [].
    + unfold pc_ok. simpl. split; [apply incl_refl|]. split; auto.
      intros z Hz. apply sort_by_In in Hz. apply Apc. exact Hz.
  - (* PCalc *)
    unfold pc_ok in Ap. rewrite Epc in Ap. destruct Ap as (P1 & P2 & P3).
    destruct rest as [|c r].
    + destruct (add_wait_run_A tasks wake_rank calc_rank calcs d me true H) as (H1 & E1 & E2 & I1 & J1).
      { intros _. exact P2. }
      { intros E; discriminate. }
      assert (B1 : born (eff_dep me) d (add_wait_run d me calcs true)).
      { apply add_wait_run_born; [exact Hme|]. intros x Hx. apply eff_calc_dep. apply Ac. apply P2. exact Hx. }
      eapply Hrec; [| |exact Hg].
      * eapply born_trans; [exact B1|]. apply set_pc_born. eapply born_exn; eauto.
      * apply set_pc_A; auto. unfold pc_ok. simpl. split; [apply incl_refl|]. eapply incl_tran; eauto.
    + apply (Hchild c (PCalc r calcs tks)); [| |exact Hg].
      * apply eff_calc_dep; apply Ac; apply P2; apply P1; left; reflexivity.
      * unfold pc_ok. simpl. split; auto. intros z Hz. apply P1. right; exact Hz.
  - (* PTask *)
    unfold pc_ok in Ap. rewrite Epc in Ap. destruct Ap as (P1 & P2).
    destruct rest as [|c r].
    + destruct (add_wait_run_A tasks wake_rank calc_rank tks d me false H) as (H1 & E1 & E2 & I1 & J1).
      { intros E; discriminate. }
      { intros _ z Hz. apply in_app_iff. left. apply P2. exact Hz. }
      assert (B1 : born (eff_dep me) d (add_wait_run d me tks false)).
      { apply add_wait_run_born; [exact Hme|]. intros x Hx. apply At. apply P2. exact Hx. }
      set (d1 := add_wait_run d me tks false) in *.
      assert (Hme1 : exn d1 me) by (eapply born_exn; eauto).
      assert (HL : AInv (set_pc d1 me PLoop)) by (apply set_pc_A; auto; exact I).
      assert (HS : AInv (set_pc d1 me PSelf)) by (apply set_pc_A; auto; exact I).
      assert (BL : born (eff_dep me) d (set_pc d1 me PLoop)) by (eapply born_trans; [exact B1|apply set_pc_born; exact Hme1]).
      assert (BS : born (eff_dep me) d (set_pc d1 me PSelf)) by (eapply born_trans; [exact B1|apply set_pc_born; exact Hme1]).
      destruct (negb (is_nil (n_pend_calc (node_of d1 me))) || negb (is_nil (n_pend_task (node_of d1 me)))).
      * eapply Hrec; [exact BL|exact HL|exact Hg].
      * destruct (negb (is_nil (n_wrun (node_of d1 me))) || negb (is_nil (n_wcalc (node_of d1 me)))).
        -- eapply Hdone; [exact BL|exact Hg].
        -- eapply Hrec; [exact BS|exact HS|exact Hg].
    + apply (Hchild c (PTask r tks)); [| |exact Hg].
      * apply At; apply P2; apply P1; left; reflexivity.
      * unfold pc_ok. simpl. split; auto. intros z Hz. apply P1. right; exact Hz.
  - (* PSelf *)
    eapply Hdone; [|exact Hg]. apply set_pc_born. exact Hme.
  - (* PAfterSelf *)
    destruct (is_nil (t_setup (get_task me))).
    + eapply Hdone; [|exact Hg]. apply set_pc_born. exact Hme.
    + assert (HW : AInv (set_pc d me PAfterSelWait)) by (apply set_pc_A; auto; exact I).
      assert (BW : born (eff_dep me) d (set_pc d me PAfterSelWait)) by (apply set_pc_born; exact Hme).
      destruct (n_st (node_of d me)); try (eapply Hrec; [exact BW|exact HW|exact Hg]).
      eapply Hdone; [|exact Hg]. apply born_set_old. exact Hme.
  - (* PAfterSelWait *)
    assert (BD : born (eff_dep me) d (set_pc d me PDone)) by (apply set_pc_born; exact Hme).
    destruct (n_st (node_of d me)); try (eapply Hdone; [exact BD|exact Hg]).
    eapply Hrec; [apply set_pc_born; exact Hme| |exact Hg].
    apply set_pc_A; auto. unfold pc_ok. simpl. apply incl_refl.
  - (* PSetup *)
    unfold pc_ok in Ap. rewrite Epc in Ap.
    destruct rest as [|c r].
    + assert (B1 : born (eff_dep me) d (add_wait_run d me (t_setup (get_task me)) false)).
      { apply add_wait_run_born; [exact Hme|]. intros x Hx. apply ed_static. unfold static_deps. rewrite !in_app_iff. auto. }
      set (d1 := add_wait_run d me (t_setup (get_task me)) false) in *.
      assert (Hme1 : exn d1 me) by (eapply born_exn; eauto).
      destruct (is_nil (n_wrun (node_of d1 me)));
        (eapply Hdone; [|exact Hg]; eapply born_trans; [exact B1|apply set_pc_born; exact Hme1]).
    + apply (Hchild c (PSetup r)); [| |exact Hg].
      * apply ed_static. unfold static_deps. rewrite !in_app_iff. right; right. apply Ap. left; reflexivity.
      * unfold pc_ok. simpl. intros z Hz. apply Ap. right; exact Hz.
  - (* PSetupWaited *)
    eapply Hdone; [|exact Hg]. apply set_pc_born. exact Hme.
  - (* PDone *)
    eapply Hdone; [|exact Hg]. apply born_refl.
Qed.

(* _update_waiting creates no node (every node registered in a waiting_me set exists) *)
Definition nobody (x : name) : Prop := False.

Lemma wake_one_born d fin fs w : exn d w -> born nobody d (wake_one tasks d fin fs w).
Proof.
  intros Hw. unfold Dispatch.wake_one. set (d1 := set_node d w _).
  assert (B1 : born nobody d d1) by (apply born_set_old; exact Hw).
  destruct (wake_ready _ _ _ && mem w (d_waiting d1)); [|exact B1].
  eapply born_trans; [exact B1|]. apply born_q; reflexivity.
Qed.
Lemma wake_born l : forall d fin fs, (forall w, In w l -> exn d w) -> born nobody d (wake tasks d fin fs l).
Proof.
  induction l as [|w r IH]; intros d fin fs Hl; simpl; [apply born_refl|].
  pose proof (wake_one_born d fin fs w (Hl w (or_introl eq_refl))) as B.
  eapply born_trans; [exact B|]. apply IH. intros z Hz. eapply born_exn; [exact B|]. apply Hl. right. exact Hz.
Qed.
Lemma update_waiting_born d p : HI p d -> born nobody d (update_waiting tasks wake_rank d p).
Proof.
  intros H. unfold Dispatch.update_waiting. destruct p as [p|]; [|apply born_refl].
  rewrite (h_nws _ _ _ H p).
  assert (Hw : forall s, born nobody d (wake tasks d p s (wake_order wake_rank p (n_wme (node_of d p))))).
  { intros s. apply wake_born. intros w Hw. unfold wake_order in Hw. apply sort_by_In in Hw.
    apply (h_wex _ _ _ H w p). exact Hw. }
  destruct (n_st (node_of d p)); try apply Hw. apply born_refl.
Qed.

(* _get_next_node on tasks_to_run: the elements that have a node already are dropped, the first one without
   gets a node and is returned *)
Lemma next_from_torun_O l : forall d o d',
  next_from_torun tasks d l = (o, d') ->
  match o with
  | Some x => exists skipped rest, l = skipped ++ x :: rest /\ (forall y, In y skipped -> exn d y) /\
                d_torun d' = rest /\ (forall z, exn d' z <-> exn d z \/ z = x)
  | None => (forall y, In y l -> exn d y) /\ d_torun d' = [] /\ (forall z, exn d' z <-> exn d z)
  end.
Proof.
  induction l as [|x r IH]; intros d o d' E; simpl in E.
  - inversion E; subst. split; [intros y []|]. split; [reflexivity|]. intros z. reflexivity.
  - unfold Dispatch.gen_node in E. destruct (d_nodes d x) eqn:Ex.
    + assert (Hx : exn d x) by (unfold exn; rewrite Ex; discriminate).
      specialize (IH d o d' E). destruct o as [x'|].
      * destruct IH as (sk & rest & E1 & E2 & E3 & E4). exists (x :: sk), rest. split; [rewrite E1; reflexivity|].
        split; [intros y [<-|Hy]; auto|]. split; auto.
      * destruct IH as (E1 & E2 & E3). split; [intros y [<-|Hy]; auto|]. split; auto.
    + inversion E; subst. exists [], r. split; [reflexivity|]. split; [intros y []|]. split; [reflexivity|].
      intros z. simpl. apply exn_set_node.
Qed.

(* ================================================================== the invariant, generic
   sel: the selection;  C: a set of names closed under effective dependencies;  Q: an escape clause;
   SF: what is known about the statuses (the dispatcher does not change any);
   Hroot: when _get_next_node creates a node for the element x of the selection -- no generator active,
   nothing ready, every earlier element of the selection has a node -- x is in C or Q holds *)
Section Gen.
Variable sel : list name.
Variable C : name -> Prop.
Variable Q : Prop.
Variable SF : dstate -> Prop.
Hypothesis Cclosed : forall x y, C x -> eff_dep x y -> C y.
Hypothesis SF_st : forall d d', (forall y, st_of d' y = st_of d y) -> SF d -> SF d'.
Hypothesis Hroot : forall d done x rest,
  AInv d -> HI None d -> d_cur d = None -> d_ready d = [] -> SF d ->
  sel = done ++ x :: rest -> (forall y, In y done -> exn d y) -> C x \/ Q.

Record OI (d : dstate) : Prop := {
  o_tr : exists done, sel = done ++ d_torun d /\ forall y, In y done -> exn d y;
  o_cq : forall x, exn d x -> C x \/ Q
}.

Lemma OI_born me d d' : OI d -> exn d me -> born (eff_dep me) d d' -> OI d'.
Proof.
  intros [(done & E1 & E2) Hc] Hme (B1 & B2 & B3). split.
  - exists done. rewrite B1. split; auto.
  - intros x Hx. destruct (B3 x Hx) as [A|A]; auto.
    destruct (Hc me Hme) as [Cm|q]; auto. left. eapply Cclosed; eauto.
Qed.
Lemma OI_nobody d d' : OI d -> born nobody d d' -> OI d'.
Proof.
  intros [(done & E1 & E2) Hc] (B1 & B2 & B3). split.
  - exists done. rewrite B1. split; auto.
  - intros x Hx. destruct (B3 x Hx) as [A|[]]; auto.
Qed.
Lemma OI_q d d' : d_nodes d' = d_nodes d -> d_torun d' = d_torun d -> OI d -> OI d'.
Proof. intros E T H. apply (OI_nobody d); auto. apply born_q; auto. Qed.

Lemma disp_run_O fuel : forall d y d',
  AInv d -> HI None d -> PS None d -> SF d -> OI d ->
  disp_run tasks calc_rank fuel d = (y, d') -> OI d'.
Proof.
  induction fuel as [|fuel IH]; intros d y d' HA H P HS O E; cbn [Dispatch.disp_run] in E.
  { inversion E; subst. exact O. }
  destruct (d_cur d) as [me|] eqn:Ecur.
  - destruct (gen_step (S (S fuel)) d me) as [g d1] eqn:Eg.
    assert (Hme : exn d me) by (apply (h_qex _ _ _ H); right; right; exact Ecur).
    pose proof (gen_step_H tasks wake_rank calc_rank _ _ _ _ _ H P Ecur Hme Eg) as G.
    destruct (gen_step_A tasks wake_rank calc_rank _ _ _ _ _ HA Eg) as [HA1 _].
    pose proof (gen_step_born _ _ _ _ _ HA Hme Eg) as B.
    pose proof (OI_born me d d1 O Hme B) as O1.
    assert (S1 : SF d1).
    { apply (SF_st d); auto. intros z. pose proof (gen_step_st tasks calc_rank (S (S fuel)) d me z) as X. rewrite Eg in X. exact X. }
    destruct g; simpl in G.
    + destruct G as (A1 & B1 & C1).
      eapply IH; [| exact A1| | | |exact E].
      * apply (AInv_queues tasks d1); [reflexivity|exact HA1].
      * apply (PS_q tasks None d1); [reflexivity|exact B1].
      * apply (SF_st d1); auto.
      * apply (OI_q d1); auto.
    + destruct G as (A1 & B1).
      eapply IH; [| exact A1| | | |exact E].
      * apply (AInv_queues tasks d1); [reflexivity|exact HA1].
      * apply (PS_q tasks None d1); [reflexivity|exact B1].
      * apply (SF_st d1); auto.
      * apply (OI_q d1); auto.
    + inversion E; subst. exact O1.
    + destruct G as (A1 & B1).
      eapply IH; [| exact A1| | | |exact E].
      * apply (AInv_queues tasks d1); [reflexivity|exact HA1].
      * apply (PS_q tasks None d1); [reflexivity|exact B1].
      * apply (SF_st d1); auto.
      * apply (OI_q d1); auto.
    + inversion E; subst. exact O1.
    + inversion E; subst. exact O1.
  - destruct (d_ready d) as [|x r] eqn:Er.
    + destruct (next_from_torun tasks d (d_torun d)) as [o d1] eqn:En.
      destruct (next_from_torun_H tasks wake_rank calc_rank _ _ _ _ H P Ecur En) as [P1 H1].
      pose proof (next_from_torun_A tasks _ _ _ _ HA En) as HA1.
      pose proof (next_from_torun_O _ _ _ _ En) as N.
      assert (S1 : SF d1).
      { apply (SF_st d); auto. intros z. pose proof (next_from_torun_st tasks (d_torun d) d z) as X. rewrite En in X. exact X. }
      destruct O as [(done & E1 & E2) Hc].
      destruct o as [x|].
      * destruct N as (sk & rest & F1 & F2 & F3 & F4).
        assert (O1 : OI d1).
        { split.
          - exists (done ++ sk ++ [x]). split.
            + rewrite F3, E1, F1, <- !app_assoc. reflexivity.
            + intros y1 Hy. apply F4. rewrite !in_app_iff in Hy. destruct Hy as [Hy|[Hy|[<-|[]]]]; auto.
          - intros z Hz. apply F4 in Hz. destruct Hz as [Hz| ->]; auto.
            apply (Hroot d (done ++ sk) x rest); auto.
            + rewrite E1, F1, <- app_assoc. reflexivity.
            + intros y1 Hy. apply in_app_iff in Hy. destruct Hy; auto. }
        eapply IH; [| exact H1| | | |exact E].
        -- apply (AInv_queues tasks d1); [reflexivity|exact HA1].
        -- apply (PS_q tasks None d1); [reflexivity|exact P1].
        -- apply (SF_st d1); auto.
        -- apply (OI_q d1); auto.
      * destruct N as (F1 & F2 & F3).
        assert (O1 : OI d1).
        { split.
          - exists (done ++ d_torun d). split; [rewrite F2, app_nil_r; exact E1|].
            intros y1 Hy. apply F3. apply in_app_iff in Hy. destruct Hy; auto.
          - intros z Hz. apply F3 in Hz. auto. }
        destruct (is_nil (d_waiting d1)); inversion E; subst; exact O1.
    + eapply IH; [| | | | |exact E].
      * apply (AInv_queues tasks d); [reflexivity|exact HA].
      * apply (HI_q tasks wake_rank calc_rank None d); auto.
        -- intros w Hw. apply (h_wne _ _ _ H). exact Hw.
        -- intros y0 _ _ [Hy|[Hy|Hy]]; [|right; left; exact Hy|congruence].
           rewrite Er in Hy. destruct Hy as [<-|Hy]; [right; right; reflexivity|left; exact Hy].
        -- intros y0 [Hy|[Hy|Hy]]; [left; rewrite Er; right; exact Hy|right; left; exact Hy|].
           simpl in Hy. inversion Hy; subst. left. rewrite Er. left. reflexivity.
      * apply (PS_q tasks None d); [reflexivity|exact P].
      * apply (SF_st d); auto.
      * apply (OI_q d); auto.
Qed.

End Gen.

(* ================================================================== the runner *)
(* the task an event is about *)
Definition ev_task (e : event) : option name :=
  match e with
  | EGetStatus k | ESkipIgnore k | ESkipUpToDate k | EFailure k _ | EExecute k | ESuccess k | ESave k
  | ERemove k | ETeardown k | EInterrupt k => Some k
  | EClose | ECycleError _ | EHoldError => None
  end.
Definition only (k : name) (evs : list event) : Prop := forall e k', In e evs -> ev_task e = Some k' -> k' = k.

Lemma only_nil k : only k []. Proof. intros e k' []. Qed.
Lemma only_app k a b : only k a -> only k b -> only k (a ++ b).
Proof. intros A B e k' Hin. apply in_app_iff in Hin. destruct Hin; eauto. Qed.

(* what select_task / process_task_result do to the trace, the statuses, the nodes, the teardown list *)
Definition step_of (k : name) (r r1 : rstate) : Prop :=
  (exists evs, r_tr r1 = r_tr r ++ evs /\ only k evs) /\ r_td r1 = r_td r /\ born nobody (r_d r) (r_d r1) /\ exn (r_d r1) k.
Lemma step_of_refl k r : exn (r_d r) k -> step_of k r r.
Proof.
  intros H. split; [exists []; rewrite app_nil_r; split; [reflexivity|apply only_nil]|].
  split; [reflexivity|]. split; [apply born_refl|exact H].
Qed.
Lemma step_of_status k r r0 s : step_of k r r0 -> step_of k r (with_d r0 (set_status (r_d r0) k s)).
Proof.
  intros (A & B & D & E). split; [exact A|]. split; [exact B|]. cbn [r_d with_d]. unfold Runner.set_status. split.
  - eapply born_trans; [exact D|]. apply born_set_old. exact E.
  - apply exn_set_node. auto.
Qed.
Lemma step_of_emit k r r0 evs : step_of k r r0 -> only k evs -> step_of k r (emit r0 evs).
Proof.
  intros ((e0 & A1 & A2) & B & D & E) Ho. split; [|split; [exact B|split; [exact D|exact E]]].
  exists (e0 ++ evs). unfold emit. cbn [r_tr]. rewrite A1, app_assoc. split; [reflexivity|apply only_app; auto].
Qed.
Lemma only_two k a b : ev_task a = Some k -> ev_task b = Some k -> only k [a; b].
Proof. intros A B e k' [<-|[<-|[]]] E; congruence. Qed.
Lemma only_one k a : ev_task a = Some k -> only k [a].
Proof. intros A e k' [<-|[]] E; congruence. Qed.
Lemma step_of_error k r r0 st kd : step_of k r r0 -> step_of k r (handle_error_gen tasks continue_ st r0 k kd).
Proof.
  intros H. pose proof (step_of_status k r r0 st H) as H1.
  destruct H1 as ((e0 & A1 & A2) & B & D & E). unfold handle_error_gen. split; [|split; [exact B|split; [exact D|exact E]]].
  cbn [r_tr]. exists (e0 ++ [ERemove k; EFailure k kd]). cbn [r_tr with_d] in A1. rewrite A1, app_assoc.
  split; [reflexivity|]. apply only_app; auto. apply only_two; reflexivity.
Qed.

Lemma select_task_step r k b r1 : exn (r_d r) k ->
  select_task tasks continue_ always r k = (b, r1) -> step_of k r r1.
Proof.
  intros Hk. apply (select_task_pres tasks continue_ always (step_of k r) k).
  - intros r0 s H. apply step_of_status. exact H.
  - intros r0 e H Hin. apply step_of_emit; auto. apply only_one. destruct Hin as [<-|[<-|[<-|[]]]]; reflexivity.
  - intros r0 kd H. apply step_of_error. exact H.
  - apply step_of_refl. exact Hk.
Qed.
Lemma process_result_step r k : exn (r_d r) k -> step_of k r (process_result tasks continue_ r k).
Proof.
  intros Hk. pose proof (step_of_refl k r Hk) as H0. unfold process_result, handle_error.
  destruct (t_outcome (get_task k)); try (apply step_of_error; exact H0); try exact H0.
  apply step_of_emit; [apply step_of_status; exact H0|]. apply only_two; reflexivity.
Qed.

(* a status other than None was given by select_task, after reporter.get_status *)
Definition G (r : rstate) : Prop := forall y, st_of (r_d r) y <> SNone -> In (EGetStatus y) (r_tr r).

Lemma G_step k r r1 : G r -> step_of k r r1 -> In (EGetStatus k) (r_tr r1) ->
  (forall x, x <> k -> st_of (r_d r1) x = st_of (r_d r) x) -> G r1.
Proof.
  intros Hg ((evs & A & _) & _) Hin Hst y Hy. destruct (N.eqb_spec y k) as [->|Hne]; [exact Hin|].
  rewrite A. apply in_app_iff. left. apply Hg. rewrite <- (Hst y Hne). exact Hy.
Qed.

Lemma select_task_handed r k b r1 : G r ->
  select_task tasks continue_ always r k = (b, r1) -> In (EGetStatus k) (r_tr r1).
Proof.
  intros Hg. unfold select_task, get_args, handle_error, handle_error_gen, emit.
  destruct (n_st (node_of (r_d r) k)) eqn:Est;
    repeat match goal with
    | |- context [if ?c then _ else _] => destruct c eqn:?
    | |- context [match t_check ?t with _ => _ end] => destruct (t_check t) eqn:?
    end;
    intros E; inversion E; subst; clear E; cbn [r_tr r_d with_d];
    rewrite ?in_app_iff; simpl;
    first [ left; left; apply Hg; unfold Dispatch.st_of; rewrite Est; discriminate
          | left; apply Hg; unfold Dispatch.st_of; rewrite Est; discriminate
          | apply Hg; unfold Dispatch.st_of; rewrite Est; discriminate
          | tauto ].
Qed.

Lemma unfinished_false_not_none s : unfinished s = false -> s <> SNone.
Proof. destruct s; simpl; congruence. Qed.

(* ================================================================== the serial run, generic *)
Section Ser.
Variable sel : list name.
Variable C : name -> Prop.
Variable Q : list event -> Prop.
Hypothesis Cclosed : forall x y, C x -> eff_dep x y -> C y.
Hypothesis Qmono : forall tr evs, Q tr -> Q (tr ++ evs).
(* a final status comes with get_status and a final report in the trace *)
Definition SFr (tr : list event) (d : dstate) : Prop :=
  forall y, unfinished (st_of d y) = false -> finished_in tr y /\ In (EGetStatus y) tr.
Hypothesis HrootS : forall tr d done x rest,
  AInv d -> HI None d -> d_cur d = None -> d_ready d = [] -> SFr tr d ->
  sel = done ++ x :: rest -> (forall y, In y done -> exn d y) -> C x \/ Q tr.

(* the task of every event is in C, or Q holds of the trace before the event *)
Definition TO (tr : list event) : Prop :=
  forall tpre e tpost k, tr = tpre ++ e :: tpost -> ev_task e = Some k -> C k \/ Q tpre.
Definition TD (r : rstate) : Prop := forall k, In k (r_td r) -> C k \/ Q (r_tr r).

Lemma TO_ext tr evs : TO tr -> (forall e k, In e evs -> ev_task e = Some k -> C k \/ Q tr) -> TO (tr ++ evs).
Proof.
  intros T Hev tpre e tpost k E Ek. apply app_eq_app in E. destruct E as [l [[E1 E2]|[E1 E2]]].
  - destruct l as [|e0 l'].
    + rewrite app_nil_r in E1. subst tpre. simpl in E2. apply (Hev e k); auto. rewrite <- E2. left. reflexivity.
    + simpl in E2. inversion E2; subst e0. eapply T; eauto.
  - destruct (Hev e k) as [A|A]; auto.
    + rewrite E2. apply in_app_iff. right. left. reflexivity.
    + right. rewrite E1. apply Qmono. exact A.
Qed.
Lemma TO_only tr evs k : TO tr -> only k evs -> C k \/ Q tr -> TO (tr ++ evs).
Proof. intros T Ho Hk. apply TO_ext; auto. intros e k' Hin Ek. rewrite (Ho e k' Hin Ek). exact Hk. Qed.

Lemma OI_mono (q q' : Prop) d : (q -> q') -> OI sel C q d -> OI sel C q' d.
Proof. intros Hq [A B]. split; auto. intros x Hx. destruct (B x Hx); auto. Qed.

Lemma finish_TO r : TO (r_tr r) -> TD r -> TO (r_tr (finish r)).
Proof.
  intros T D. unfold finish, emit. cbn [r_tr]. apply TO_ext; auto.
  intros e k [<-|Hin] Ek; [discriminate|]. apply in_map_iff in Hin. destruct Hin as (k0 & <- & Hk0).
  simpl in Ek. inversion Ek; subst k0. apply D. apply in_rev. exact Hk0.
Qed.

Record SI (last : option name) (r : rstate) : Prop := {
  s_a : AInv (r_d r);
  s_h : HI last (r_d r);
  s_p : PS None (r_d r);
  s_l : Lk tasks r;
  s_g : G r;
  s_o : OI sel C (Q (r_tr r)) (r_d r);
  s_td : TD r;
  s_to : TO (r_tr r)
}.

(* the bookkeeping common to select_task and process_task_result: OI, TD, TO after a step about k *)
Lemma step_of_inv k r r1 :
  OI sel C (Q (r_tr r)) (r_d r) -> TD r -> TO (r_tr r) -> (C k \/ Q (r_tr r)) -> step_of k r r1 ->
  OI sel C (Q (r_tr r1)) (r_d r1) /\ TD r1 /\ TO (r_tr r1) /\ (C k \/ Q (r_tr r1)).
Proof.
  intros O D T Hk ((evs & A1 & A2) & B & Bn & E).
  assert (Hq : Q (r_tr r) -> Q (r_tr r1)) by (rewrite A1; apply Qmono).
  split; [|split; [|split]].
  - apply (OI_mono (Q (r_tr r))); auto. apply (OI_nobody sel C (Q (r_tr r)) (r_d r)); auto.
  - intros k0 Hk0. rewrite B in Hk0. destruct (D k0 Hk0); auto.
  - rewrite A1. apply (TO_only _ _ k); auto.
  - destruct Hk; auto.
Qed.

Lemma serial_O fuel : forall r last r' s,
  SI last r -> serial tasks wake_rank calc_rank continue_ always fuel r last = (r', s) ->
  TO (r_tr r') /\ OI sel C (Q (r_tr r')) (r_d r') /\ (forall k, s = StopInterrupt k -> C k \/ Q (r_tr r')).
Proof.
  induction fuel as [|fuel IH]; intros r last r' s [HA H P L Hg O D T] E; cbn [Runner.serial] in E.
  { inversion E; subst. split; auto. split; auto. intros k Ek; discriminate. }
  assert (Hfin : forall r0, TO (r_tr r0) -> TD r0 -> OI sel C (Q (r_tr r0)) (r_d r0) ->
            TO (r_tr (finish r0)) /\ OI sel C (Q (r_tr (finish r0))) (r_d (finish r0))).
  { intros r0 T0 D0 O0. split; [apply finish_TO; auto|]. unfold finish, emit. cbn [r_tr r_d].
    apply (OI_mono (Q (r_tr r0))); auto. }
  destruct (r_stop r) eqn:Er.
  { inversion E; subst. destruct (Hfin r T D O) as [A B]. split; auto. split; auto. intros k Ek; discriminate. }
  destruct (disp_send tasks wake_rank calc_rank (S fuel) (r_d r) last) as [y d] eqn:Ed.
  destruct (disp_send_A tasks wake_rank calc_rank _ _ _ _ _ HA Ed) as [HA1 _].
  unfold Dispatch.disp_send in Ed.
  destruct (update_waiting_H tasks wake_rank calc_rank (r_d r) last H) as (H0 & S0 & _).
  pose proof (PS_same tasks _ _ _ S0 P) as P0.
  pose proof (disp_run_H tasks wake_rank calc_rank _ _ _ _ H0 P0 Ed) as Gd.
  assert (Est : forall x, st_of d x = st_of (r_d r) x).
  { intros x. pose proof (disp_send_st tasks wake_rank calc_rank (S fuel) (r_d r) last x) as X.
    unfold Dispatch.disp_send in X. rewrite Ed in X. exact X. }
  assert (SF0 : SFr (r_tr r) (update_waiting tasks wake_rank (r_d r) last)).
  { intros z Hz. rewrite update_waiting_st in Hz. split; [apply L; exact Hz|].
    apply Hg. apply unfinished_false_not_none. exact Hz. }
  assert (O1 : OI sel C (Q (r_tr r)) d).
  { apply (disp_run_O sel C (Q (r_tr r)) (SFr (r_tr r)) Cclosed) with (fuel := S fuel) (d := update_waiting tasks wake_rank (r_d r) last) (y := y); auto.
    - intros d1 d2 Hst Hs z Hz. rewrite Hst in Hz. apply Hs. exact Hz.
    - intros d0 done x rest A1 A2 A3 A4 A5 A6 A7. eapply HrootS; eauto.
    - apply update_waiting_A; auto.
    - apply (OI_nobody sel C (Q (r_tr r)) (r_d r)); auto. apply update_waiting_born. exact H. }
  assert (L0 : Lk tasks (with_d r d)) by (intros x Hx; simpl in *; rewrite Est in Hx; apply L; exact Hx).
  assert (G0 : G (with_d r d)) by (intros x Hx; simpl in *; rewrite Est in Hx; apply Hg; exact Hx).
  assert (Hend : forall s0, (finish (with_d r d), s0) = (r', s) ->
            TO (r_tr r') /\ OI sel C (Q (r_tr r')) (r_d r')).
  { intros s0 E0. inversion E0; subst. apply (Hfin (with_d r d)); auto. }
  destruct y as [k| | |path|].
  - destruct Gd as (H1 & P1 & C1).
    assert (Hk : exn d k) by (apply (h_qex _ _ _ H1); right; right; exact C1).
    assert (Ck : C k \/ Q (r_tr r)) by (apply (o_cq _ _ _ _ O1); exact Hk).
    set (p0 := n_pc (node_of d k)).
    assert (R0 : RH tasks k p0 (with_d r d)).
    { split; [apply HI_strengthen; exact H1|]. split; [exact C1|]. split; [|reflexivity].
      intros me Hne. apply (p_all _ _ _ P1). congruence. }
    pose proof (p_exc _ _ _ P1 k eq_refl) as Hp0. fold p0 in Hp0.
    destruct (select_task tasks continue_ always (with_d r d) k) as [b r1] eqn:Esel.
    pose proof (select_task_RH tasks wake_rank calc_rank continue_ always k p0 _ _ _ R0 Esel) as R1.
    pose proof (select_task_Lk _ _ _ _ _ _ _ L0 Esel) as L1.
    assert (HA2 : AInv (r_d r1)) by (eapply select_task_A; [|exact Esel]; exact HA1).
    pose proof (select_task_step (with_d r d) k b r1 Hk Esel) as St1.
    pose proof (select_task_handed _ _ _ _ G0 Esel) as Hh1.
    destruct (select_task_ext _ _ _ _ _ _ _ Esel) as [_ Hst1].
    pose proof (G_step k _ _ G0 St1 Hh1 Hst1) as G1.
    destruct (step_of_inv k (with_d r d) r1 O1 D T Ck St1) as (O2 & D2 & T2 & Ck2).
    destruct b.
    + (* the task is executed *)
      set (r2 := start_task tasks r1 k) in *.
      assert (Etr2 : r_tr r2 = r_tr r1 ++ [EExecute k]) by reflexivity.
      assert (T3 : TO (r_tr r2)) by (rewrite Etr2; apply (TO_only _ _ k); auto; apply only_one; reflexivity).
      assert (Ck3 : C k \/ Q (r_tr r2)) by (rewrite Etr2; destruct Ck2; auto).
      assert (O3 : OI sel C (Q (r_tr r2)) (r_d r2)) by (apply (OI_mono (Q (r_tr r1))); [rewrite Etr2; apply Qmono|exact O2]).
      assert (D3 : TD r2).
      { intros k0 Hk0. unfold r2, start_task in Hk0. cbn [r_td] in Hk0.
        assert (X : In k0 (r_td r1) \/ k0 = k).
        { destruct (t_teardown (get_task k)); auto. apply in_app_iff in Hk0. destruct Hk0 as [A|[<-|[]]]; auto. }
        destruct X as [X| ->]; [|exact Ck3]. destruct (D2 k0 X); auto. right. rewrite Etr2. apply Qmono. auto. }
      destruct (is_interrupt tasks k) eqn:Ei.
      { inversion E; subst. destruct (Hfin r2 T3 D3 O3) as [A B]. split; auto. split; auto.
        intros k0 Ek0. inversion Ek0; subst k0. destruct Ck3; auto. right. unfold finish, emit. cbn [r_tr]. apply Qmono. auto. }
      assert (R2 : RH tasks k p0 r2) by exact R1.
      pose proof (process_result_RH tasks wake_rank calc_rank continue_ k p0 _ R2) as R3.
      pose proof (process_result_final tasks continue_ r2 k Ei) as F3.
      assert (Hk2 : exn (r_d r2) k) by (destruct St1 as (_ & _ & _ & X); exact X).
      pose proof (process_result_step r2 k Hk2) as St3.
      destruct (step_of_inv k r2 _ O3 D3 T3 Ck3 St3) as (O4 & D4 & T4 & _).
      destruct R3 as (H3 & C3 & S3).
      eapply IH; [|exact E]. split; [| exact H3| | | |exact O4|exact D4|exact T4].
      * apply process_result_A. exact HA2.
      * apply (PS_of_PSo tasks k p0); [exact S3|]. unfold pstn. destruct S3 as [_ S3]. rewrite S3.
        unfold Dispatch.st_of in F3.
        destruct Hp0 as [Hp0|[Hp0 _]]; rewrite Hp0; [|exact F3]. split; [|intros _; exact F3].
        intros E0. rewrite E0 in F3. discriminate.
      * apply process_result_Lk. intros x Hx. unfold r2, start_task. simpl. apply finished_in_app_l. apply L1. exact Hx.
      * assert (G2 : G r2) by (intros x Hx; rewrite Etr2; apply in_app_iff; left; apply G1; exact Hx).
        apply (G_step k r2); auto.
        -- destruct St3 as ((evs & A & _) & _). rewrite A, Etr2. apply in_app_iff. left. apply in_app_iff. left. exact Hh1.
        -- intros x Hx. unfold process_result, handle_error, handle_error_gen.
           destruct (t_outcome (get_task k)); cbn [r_d with_d emit]; rewrite ?set_status_st;
             try (destruct (N.eqb_spec x k); [contradiction|reflexivity]); reflexivity.
    + destruct (select_false_st tasks continue_ always _ _ _ Esel) as [F1 F2]. destruct R1 as (H3 & C3 & S3).
      eapply IH; [|exact E]. split; [exact HA2|exact H3| |exact L1|exact G1|exact O2|exact D2|exact T2].
      apply (PS_of_PSo tasks k p0); [exact S3|]. unfold pstn. destruct S3 as [_ S3]. rewrite S3.
      destruct Hp0 as [Hp0|[Hp0 Hn]]; rewrite Hp0; [split; [exact F1|intros En; apply F2; left; exact En]|].
      apply F2. right. exact Hn.
  - destruct (Hend _ E) as [A B]. inversion E; subst. split; auto. split; auto. intros k Ek; discriminate.
  - destruct (Hend _ E) as [A B]. inversion E; subst. split; auto. split; auto. intros k Ek; discriminate.
  - destruct (Hend _ E) as [A B]. inversion E; subst. split; auto. split; auto. intros k Ek; discriminate.
  - inversion E; subst. split; auto. split; auto. intros k Ek; discriminate.
Qed.

Lemma SI_init : SI None (r_init sel).
Proof.
  split.
  - apply AInv_init.
  - apply HI_init.
  - apply PS_init.
  - apply Lk_init.
  - intros y Hy. exfalso. apply Hy. reflexivity.
  - split.
    + exists []. split; [reflexivity|intros y []].
    + intros x Hx. exfalso. apply Hx. reflexivity.
  - intros k [].
  - intros tpre e tpost k E. destruct tpre; discriminate.
Qed.

(* the whole trace of run_serial, the marker of the exception that ended it included *)
Theorem run_serial_TO fuel : TO (fst (run_serial tasks wake_rank calc_rank continue_ always fuel sel)).
Proof.
  unfold run_serial.
  destruct (serial tasks wake_rank calc_rank continue_ always fuel (r_init sel) None) as [r' s] eqn:E.
  destruct (serial_O fuel _ _ _ _ SI_init E) as (T & _ & I). cbn [fst].
  apply TO_ext; auto. intros e k Hin Ek.
  destruct s; simpl in Hin; try contradiction; destruct Hin as [<-|[]]; try discriminate.
  simpl in Ek. inversion Ek; subst. apply I. reflexivity.
Qed.

Theorem serial_nodes_O fuel r' s :
  serial tasks wake_rank calc_rank continue_ always fuel (r_init sel) None = (r', s) ->
  forall x, exn (r_d r') x -> C x \/ Q (r_tr r').
Proof. intros E x Hx. destruct (serial_O fuel _ _ _ _ SI_init E) as (_ & O & _). apply (o_cq _ _ _ _ O). exact Hx. Qed.

End Ser.

(* ================================================================== (1) nothing outside the closure *)
(* x is one of the roots or is reachable from one through effective dependencies *)
Definition needed (roots : list name) (x : name) : Prop := exists p, In p roots /\ (p = x \/ reach p x).

Lemma needed_closed roots x y : needed roots x -> eff_dep x y -> needed roots y.
Proof.
  intros (p & Hp & [Hpx|Hr]) He; exists p; split; auto; right.
  - subst p. apply re_step. exact He.
  - eapply reach_snoc; eauto.
Qed.
Lemma needed_root roots x : In x roots -> needed roots x.
Proof. intros H. exists x. auto. Qed.

Definition never (tr : list event) : Prop := False.

Theorem serial_closure_events fuel sel :
  forall e k, In e (fst (run_serial tasks wake_rank calc_rank continue_ always fuel sel)) -> ev_task e = Some k -> needed sel k.
Proof.
  intros e k Hin Ek.
  assert (T : TO (needed sel) never (fst (run_serial tasks wake_rank calc_rank continue_ always fuel sel))).
  { apply (run_serial_TO sel (needed sel) never).
    - apply needed_closed.
    - intros tr evs [].
    - intros tr d done x rest _ _ _ _ _ E _. left. apply needed_root. rewrite E. apply in_app_iff. right. left. reflexivity. }
  apply in_split in Hin. destruct Hin as (l1 & l2 & E). destruct (T l1 e l2 k E Ek) as [A|[]]. exact A.
Qed.

Theorem serial_closure_nodes fuel sel r' s :
  serial tasks wake_rank calc_rank continue_ always fuel (r_init sel) None = (r', s) ->
  forall x, exn (r_d r') x -> needed sel x.
Proof.
  intros E x Hx.
  assert (Hq : forall tr evs, never tr -> never (tr ++ evs)) by (intros tr evs []).
  assert (Hr : forall tr d done y rest, AInv d -> HI None d -> d_cur d = None -> d_ready d = [] ->
               SFr tr d -> sel = done ++ y :: rest -> (forall z, In z done -> exn d z) -> needed sel y \/ never tr).
  { intros tr d done y rest _ _ _ _ _ E0 _. left. apply needed_root. rewrite E0. apply in_app_iff. right. left. reflexivity. }
  pose proof (serial_nodes_O sel (needed sel) never (needed_closed sel) Hq Hr fuel r' s E x Hx) as X.
  destruct X as [A|[]]. exact A.
Qed.

(* ================================================================== (2) the order of the selection *)
Lemma prefix_split (pre : list name) : forall post done x rest,
  pre ++ post = done ++ x :: rest -> ~ In x pre -> exists m, done = pre ++ m.
Proof.
  induction pre as [|p pre IH]; intros post done x rest E Hn.
  - exists done. reflexivity.
  - destruct done as [|q done]; simpl in E; inversion E; subst.
    + exfalso. apply Hn. left. reflexivity.
    + destruct (IH post done x rest H1) as [m ->]; [intros Hx; apply Hn; right; exact Hx|]. exists m. reflexivity.
Qed.

(* every task of pre was handed to the runner and got its final report *)
Definition all_done (pre : list name) (tr : list event) : Prop :=
  forall a, In a pre -> In (EGetStatus a) tr /\ finished_in tr a.

Theorem serial_selection_order :
  (forall k, ~ reach k k) ->
  forall fuel pre post b e tpre tpost,
  ev_task e = Some b -> ~ needed pre b ->
  fst (run_serial tasks wake_rank calc_rank continue_ always fuel (pre ++ post)) = tpre ++ e :: tpost ->
  all_done pre tpre.
Proof.
  intros Hac fuel pre post b e tpre tpost Eb Hn E.
  assert (T : TO (needed pre) (all_done pre) (fst (run_serial tasks wake_rank calc_rank continue_ always fuel (pre ++ post)))).
  { apply (run_serial_TO (pre ++ post) (needed pre) (all_done pre)).
    - apply needed_closed.
    - intros tr evs H a Ha. destruct (H a Ha) as [A B]. split; [apply in_app_iff; auto|apply finished_in_app_l; exact B].
    - intros tr d done x rest HA HH Hc Hr HS E0 Hex.
      destruct (in_dec N.eq_dec x pre) as [Hin|Hnin]; [left; apply needed_root; exact Hin|right].
      destruct (prefix_split pre post done x rest E0 Hnin) as [m ->].
      assert (Hw : d_waiting d = []).
      { destruct (d_waiting d) as [|w ws] eqn:Ew; auto. exfalso.
        destruct (hold_cycle tasks d HA HH Hc Hr) as [k Hk]; [rewrite Ew; discriminate|]. exact (Hac k Hk). }
      intros a Ha.
      assert (Hfin : unfinished (st_of d a) = false).
      { destruct (unfinished (st_of d a)) eqn:Eu; auto. exfalso.
        assert (Hxa : exn d a) by (apply Hex; apply in_app_iff; auto).
        destruct (h_loc _ _ _ HH a Hxa Eu) as [A|[A|A]].
        - rewrite Hr in A. destruct A.
        - rewrite Hw in A. destruct A.
        - rewrite Hc in A. discriminate. }
      destruct (HS a Hfin) as [A B]. split; auto. }
  destruct (T tpre e tpost b E Eb) as [A|A]; [contradiction|exact A].
Qed.

(* two selected tasks: a listed before b, b needed neither by a nor by anything listed before a: every
   event about b comes after get_status and the final report of a *)
Corollary serial_order_pair :
  (forall k, ~ reach k k) ->
  forall fuel l1 a l2 b l3 e tpre tpost,
  ev_task e = Some b -> ~ needed (l1 ++ [a]) b ->
  fst (run_serial tasks wake_rank calc_rank continue_ always fuel (l1 ++ a :: l2 ++ b :: l3)) = tpre ++ e :: tpost ->
  In (EGetStatus a) tpre /\ finished_in tpre a.
Proof.
  intros Hac fuel l1 a l2 b l3 e tpre tpost Eb Hn E.
  replace (l1 ++ a :: l2 ++ b :: l3) with ((l1 ++ [a]) ++ (l2 ++ b :: l3)) in E by (rewrite <- app_assoc; reflexivity).
  apply (serial_selection_order Hac fuel _ _ b e tpre tpost Eb Hn E). apply in_app_iff. right. left. reflexivity.
Qed.

(* a sufficient condition for an acyclic table: a rank that increases along effective dependencies *)
Lemma ranked_reach (rank : name -> N) : (forall x y, eff_dep x y -> rank x < rank y) ->
  forall x y, reach x y -> rank x < rank y.
Proof.
  intros Hr. induction 1 as [x y H|x y z H _ IH]; [apply Hr; exact H|]. specialize (Hr x y H). lia.
Qed.
Lemma ranked_acyclic (rank : name -> N) : (forall x y, eff_dep x y -> rank x < rank y) -> forall k, ~ reach k k.
Proof. intros Hr k Hk. pose proof (ranked_reach rank Hr k k Hk). lia. Qed.
(* a set closed under effective dependencies contains everything reachable from its members *)
Lemma reach_closed (S : name -> Prop) : (forall x y, S x -> eff_dep x y -> S y) ->
  forall x y, S x -> reach x y -> S y.
Proof. intros Hc x y Hx Hr. induction Hr as [x y H|x y z H _ IH]; eauto. Qed.

End O.
