(* OutcomeParP.v -- SOUNDNESS of the outcome specification for the parallel runners (MRunner /
   MThreadRunner model, every worker count, every schedule, both flavours), and the C08 statement:
   two runs over the same task table -- serial or parallel, whatever the parameters -- never
   disagree on the final report of a task. *)
From DoitV Require Import Base Dispatch Runner Parallel DispatchP DispatchInv RunnerTr RunnerP AncP ParallelP
  OutcomeSpec OutcomeInvP OutcomeSerialP.
Open Scope N_scope.

Section Par.
Variable tasks : name -> option task.
Variable wake_rank : name -> name -> N.
Variable calc_rank : name -> N.
Variable continue_ always proc : bool.

Notation node_of := (node_of tasks).
Notation st_of := (st_of tasks).
Notation get_task := (get_task tasks).
Notation RI := (RI tasks).
Notation Pre := (Pre tasks).
Notation PI := (PI tasks).
Notation AInv := (AInv tasks).
Notation OInv := (OInv tasks).
Notation SI := (SI tasks always).
Notation fin := (fin tasks always).
Notation worker_step := (worker_step tasks proc).
Notation main_get := (main_get tasks proc).
Notation join_all := (join_all tasks proc).
Notation next_job_loop := (next_job_loop tasks wake_rank calc_rank continue_ always).
Notation get_next_job := (get_next_job tasks wake_rank calc_rank continue_ always).
Notation start_procs := (start_procs tasks wake_rank calc_rank continue_ always proc).
Notation hand_out := (hand_out tasks wake_rank calc_rank continue_ always).
Notation main_loop := (main_loop tasks wake_rank calc_rank continue_ always proc).
Notation terminate := (terminate proc).
Notation process_result := (process_result tasks continue_).
Notation select_task := (select_task tasks continue_ always).

Record PO (p : pstate) : Prop := {
  po_a : AInv (r_d (p_r p));
  po_o : OInv (r_d (p_r p));
  po_s : SI (r_d (p_r p)) (r_tr (p_r p));
  (* a task that was selected to run passed _get_task_args *)
  po_arg : forall k, In k (tasks_of p) -> t_argerr (get_task k) = false
}.

(* a step that leaves the dispatcher alone, reports nothing final and starts no new task *)
Definition frame (p p' : pstate) : Prop :=
  r_d (p_r p') = r_d (p_r p) /\
  (exists evs, r_tr (p_r p') = r_tr (p_r p) ++ evs /\ forall e x, In e evs -> is_final_ev x e = false) /\
  (forall k, In k (tasks_of p') -> In k (tasks_of p)).

Lemma frame_refl p : frame p p.
Proof. split; [reflexivity|]. split; [exists []; rewrite app_nil_r; split; [reflexivity|intros e x []]|auto]. Qed.

Lemma frame_trans p1 p2 p3 : frame p1 p2 -> frame p2 p3 -> frame p1 p3.
Proof.
  intros (A1 & (e1 & B1 & C1) & D1) (A2 & (e2 & B2 & C2) & D2). split; [congruence|]. split; [|auto].
  exists (e1 ++ e2). rewrite B2, B1, app_assoc. split; auto.
  intros e x Hin. apply in_app_iff in Hin. destruct Hin; eauto.
Qed.

Lemma PO_frame p p' : frame p p' -> PO p -> PO p'.
Proof.
  intros (A & (evs & B & C) & D) [a o s g]. split; rewrite ?A; auto.
  - rewrite B. apply SI_emit; auto.
Qed.

(* frames that only touch queues / log / counters *)
Lemma frame_same p p' : p_r p' = p_r p -> (forall k, In k (tasks_of p') -> In k (tasks_of p)) -> frame p p'.
Proof.
  intros E H. split; [rewrite E; reflexivity|]. split; [|exact H].
  exists []. rewrite app_nil_r, E. split; [reflexivity|intros e x []].
Qed.

Lemma frame_plog p evs : frame p (plog p evs).
Proof. apply frame_same; [reflexivity|]. intros k H. exact H. Qed.

Lemma msg_tasks_teardown l : msg_tasks (map MTeardown l) = [].
Proof. induction l; simpl; auto. Qed.

(* ---------- workers ---------- *)
Lemma worker_step_frame p w : frame p (worker_step p w).
Proof.
  unfold Parallel.worker_step.
  destruct (nth w (p_workers p) WExited) as [|k|] eqn:Ew; [| |apply frame_refl].
  - destruct (p_jobs p) as [|j js] eqn:Ej; [apply frame_refl|].
    destruct j as [k| |].
    + (* a task *)
      assert (Hk : In k (tasks_of p)) by (unfold tasks_of; rewrite Ej; simpl; auto).
      assert (Hjs : forall x, In x (job_tasks js) -> In x (tasks_of p)).
      { intros x Hx. unfold tasks_of. rewrite Ej. simpl. rewrite !in_app_iff. auto. }
      assert (Hb : forall x, In x (busy_tasks (set_nth (p_workers p) w (WBusy k))) -> In x (tasks_of p)).
      { intros x Hx. destruct (busy_tasks_set_nth _ _ _ _ Hx) as [H|H]; [unfold tasks_of; rewrite !in_app_iff; auto|].
        inversion H; subst. exact Hk. }
      destruct proc.
      * apply frame_same; [reflexivity|]. intros x Hx. unfold tasks_of in Hx.
        cbn [p_jobs p_workers p_results plog sync with_workers with_results with_jobs] in Hx.
        rewrite msg_tasks_app in Hx. rewrite !in_app_iff in Hx. destruct Hx as [Hx|[Hx|[Hx|Hx]]]; auto.
        -- unfold tasks_of. rewrite !in_app_iff. auto.
        -- simpl in Hx. destruct Hx as [<-|[]]. exact Hk.
      * split; [reflexivity|]. split.
        -- exists [EExecute k]. split; [reflexivity|]. intros e x [<-|[]]. reflexivity.
        -- intros x Hx. unfold tasks_of in Hx.
           cbn [p_jobs p_workers p_results plog sync with_workers with_results with_jobs with_r] in Hx.
           rewrite !in_app_iff in Hx. destruct Hx as [Hx|[Hx|Hx]]; auto.
           unfold tasks_of. rewrite !in_app_iff. auto.
    + (* hold *)
      apply frame_same; [reflexivity|]. intros x Hx. unfold tasks_of in *. cbn [p_jobs p_workers p_results with_jobs] in Hx.
      rewrite Ej. simpl. exact Hx.
    + (* no more jobs *)
      assert (Hb : forall x ws, ws = p_workers p -> In x (busy_tasks (set_nth ws w WExited)) -> In x (busy_tasks (p_workers p))).
      { intros x ws -> Hx. destruct (busy_tasks_set_nth _ _ _ _ Hx) as [H|H]; [exact H|discriminate]. }
      destruct proc.
      * apply frame_same; [reflexivity|]. intros x Hx. unfold tasks_of in *.
        cbn [p_jobs p_workers p_results plog sync with_workers with_results with_jobs] in Hx.
        rewrite msg_tasks_app, msg_tasks_teardown, app_nil_r in Hx. rewrite Ej. simpl.
        rewrite !in_app_iff in *. destruct Hx as [Hx|[Hx|Hx]]; auto. right; left. eapply Hb; eauto.
      * apply frame_same; [reflexivity|]. intros x Hx. unfold tasks_of in *.
        cbn [p_jobs p_workers p_results with_workers with_jobs] in Hx. rewrite Ej. simpl.
        rewrite !in_app_iff in *. destruct Hx as [Hx|[Hx|Hx]]; auto. right; left. eapply Hb; eauto.
  - (* a busy worker finishes *)
    assert (Hk : In k (tasks_of p)).
    { unfold tasks_of. rewrite !in_app_iff. right; left. eapply busy_tasks_nth; eauto. }
    assert (Hb : forall x s, busy_of s = [] -> In x (busy_tasks (set_nth (p_workers p) w s)) -> In x (busy_tasks (p_workers p))).
    { intros x s Hs Hx. destruct (busy_tasks_set_nth _ _ _ _ Hx) as [H|H]; [exact H|]. subst s. discriminate. }
    destruct (is_interrupt tasks k).
    + apply frame_same; [reflexivity|]. intros x Hx. unfold tasks_of in *.
      cbn [p_jobs p_workers p_results plog sync with_workers with_results] in Hx.
      rewrite msg_tasks_app in Hx. simpl in Hx. rewrite app_nil_r in Hx.
      rewrite !in_app_iff in *. destruct Hx as [Hx|[Hx|Hx]]; auto. right; left. eapply (Hb x WExited); eauto.
    + apply frame_same; [reflexivity|]. intros x Hx. unfold tasks_of in Hx.
      cbn [p_jobs p_workers p_results plog sync with_workers with_results] in Hx.
      rewrite msg_tasks_app in Hx. simpl in Hx.
      rewrite !in_app_iff in Hx. destruct Hx as [Hx|[Hx|[Hx|[<-|[]]]]]; auto; unfold tasks_of; rewrite !in_app_iff; auto.
      right; left. eapply (Hb x WIdle); eauto.
Qed.

Lemma main_get_PO fuel : forall p m p', PO p -> main_get fuel p = (m, p') ->
  PO p' /\ (forall k, m = Some (MResult k) -> t_argerr (get_task k) = false).
Proof.
  induction fuel as [|fuel IH]; intros p m p' HP E; cbn [Parallel.main_get] in E.
  { inversion E; subst. split; auto. intros k H; discriminate. }
  set (ws := enabled_workers p (length (p_workers p)) 0) in *.
  destruct ((if negb (is_nil (p_results p)) then 1 else 0) + length ws)%nat eqn:En.
  { inversion E; subst. split; [|intros k H; discriminate]. eapply PO_frame; [apply frame_plog|exact HP]. }
  destruct (choose (S n) (p_sched p)) as [c s].
  assert (Hs : PO (with_sched p s)) by (eapply PO_frame; [|exact HP]; apply frame_same; [reflexivity|auto]).
  destruct (negb (is_nil (p_results p)) && Nat.eqb c 0).
  - simpl in E. destruct (p_results p) as [|m0 rs] eqn:Er.
    + inversion E; subst. split; auto. intros k H; discriminate.
    + inversion E; subst. split.
      * eapply PO_frame; [|exact Hs]. apply frame_same; [reflexivity|]. intros x Hx. unfold tasks_of in *.
        cbn [p_jobs p_workers p_results with_results with_sched] in *. rewrite Er.
        rewrite !in_app_iff in *. destruct Hx as [Hx|[Hx|Hx]]; auto. right; right. simpl. apply in_app_iff. auto.
      * intros k Hk. inversion Hk; subst. apply (po_arg _ HP). unfold tasks_of. rewrite Er. simpl.
        rewrite !in_app_iff. right; right. left. reflexivity.
  - eapply IH; [|exact E]. eapply PO_frame; [apply worker_step_frame|exact Hs].
Qed.

Lemma join_all_PO fuel : forall p, PO p -> PO (join_all fuel p).
Proof.
  induction fuel as [|fuel IH]; intros p HP; cbn [Parallel.join_all]; auto.
  destruct (enabled_workers p (length (p_workers p)) 0) as [|w ws] eqn:Ew; auto.
  destruct (choose (length (w :: ws)) (p_sched p)) as [c s].
  apply IH. eapply PO_frame; [apply worker_step_frame|]. eapply PO_frame; [|exact HP]. apply frame_same; [reflexivity|auto].
Qed.

(* ---------- get_next_job ---------- *)
Lemma PO_with_r p r' :
  AInv (r_d r') -> OInv (r_d r') -> SI (r_d r') (r_tr r') -> PO p -> PO (with_r p r').
Proof. intros A O S [a o s g]. split; auto. Qed.

Lemma next_job_loop_PO fuel : forall p completed g p',
  RI (r_d (p_r p)) (r_tr (p_r p)) -> Pre (r_d (p_r p)) ->
  (forall k, completed = Some k -> st_of (r_d (p_r p)) k <> SNone) -> PO p ->
  next_job_loop fuel p completed = (g, p') ->
  PO p' /\ (forall k, g = GJob (JTask k) -> t_argerr (get_task k) = false).
Proof.
  induction fuel as [|fuel IH]; intros p completed g p' HR HPre Hc HP E; cbn [Parallel.next_job_loop] in E.
  { inversion E; subst. split; auto. intros k H; discriminate. }
  destruct (disp_send tasks wake_rank calc_rank (S fuel) (r_d (p_r p)) completed) as [y d] eqn:Ed.
  pose proof (disp_send_spec tasks wake_rank calc_rank _ _ _ _ _ (ri_inv _ _ _ HR) HPre (ri_res _ _ _ HR) (ri_q _ _ _ HR) Hc Ed) as Hpost.
  pose proof (RI_disp tasks _ _ _ _ HR Hpost) as HR'.
  destruct (disp_send_A tasks wake_rank calc_rank _ _ _ _ _ (po_a _ HP) Ed) as [HA' _].
  pose proof (disp_send_O tasks wake_rank calc_rank _ _ _ _ _ (po_a _ HP) (po_o _ HP) Ed) as HO'.
  assert (Hst : forall x, st_of d x = st_of (r_d (p_r p)) x) by (destruct Hpost as (_ & _ & _ & S & _); exact S).
  assert (HS' : SI d (r_tr (p_r p))) by (eapply SI_same; [exact Hst|apply (po_s _ HP)]).
  assert (Hwd : PO (with_r p (with_d (p_r p) d))) by (apply PO_with_r; auto).
  destruct y as [k| | |path|].
  - destruct (handed_of_post tasks _ _ _ Hpost) as (HK & Hcur & Hns).
    destruct (select_task (with_d (p_r p) d) k) as [b r1] eqn:Es.
    pose proof (select_task_post tasks continue_ always (with_d (p_r p) d) k b r1 HR' HK Es) as (R1 & P1 & S1 & Pc1 & C1 & D1 & T1 & O1).
    destruct (select_task_SI tasks continue_ always (with_d (p_r p) d) k b r1 HR' HK HO' HS' Es) as [SI1 Harg].
    assert (A1 : AInv (r_d r1)) by (eapply select_task_A; [|exact Es]; exact HA').
    assert (Oi1 : OInv (r_d r1)).
    { eapply select_task_O; [| |exact Es]; [exact HO'|]. apply (handed_unfinished _ _ _ HK). }
    assert (H1 : PO (with_r p r1)) by (apply PO_with_r; auto).
    destruct b.
    + inversion E; subst. split; auto. intros k0 Ek. inversion Ek; subst. apply Harg. reflexivity.
    + apply (IH (with_r p r1) (Some k) g p'); [exact R1|exact P1| |exact H1|exact E]. intros k0 Ek. inversion Ek; subst. exact S1.
  - inversion E; subst. split; [|intros k H; discriminate].
    eapply PO_frame; [|exact Hwd]. apply frame_same; [reflexivity|auto].
  - inversion E; subst. split; [exact Hwd|intros k H; discriminate].
  - inversion E; subst. split; [exact Hwd|intros k H; discriminate].
  - inversion E; subst. split; auto. intros k H; discriminate.
Qed.

Lemma get_next_job_PO fuel p completed g p' :
  PI p -> (forall k, completed = Some k -> st_of (r_d (p_r p)) k <> SNone) -> PO p ->
  get_next_job fuel p completed = (g, p') ->
  PO p' /\ (forall k, g = GJob (JTask k) -> t_argerr (get_task k) = false).
Proof.
  intros HPI Hc HP E. unfold Parallel.get_next_job in E. destruct (r_stop (p_r p)).
  - inversion E; subst. split; auto. intros k H; discriminate.
  - eapply next_job_loop_PO; [apply (pi_ri _ _ HPI)|apply (pi_pre _ _ HPI)|exact Hc|exact HP|exact E].
Qed.

(* ---------- queues ---------- *)
Lemma put_job_PO p j : PO p -> (forall k, j = JTask k -> t_argerr (get_task k) = false) -> PO (put_job p j).
Proof.
  intros [a o s g] Hj. split; auto. intros x Hx. unfold tasks_of, put_job in Hx. simpl in Hx.
  rewrite job_tasks_app in Hx. rewrite !in_app_iff in Hx.
  destruct Hx as [[Hx|Hx]|[Hx|Hx]]; try (apply g; unfold tasks_of; rewrite !in_app_iff; auto; fail).
  destruct j; simpl in Hx; try contradiction. destruct Hx as [<-|[]]. apply Hj. reflexivity.
Qed.

Lemma start_worker_PO p : PO p -> PO (start_worker p).
Proof.
  intros HP. eapply PO_frame; [|exact HP]. apply frame_same; [reflexivity|]. intros x Hx.
  unfold tasks_of, start_worker in *. simpl in Hx. rewrite busy_tasks_app in Hx. simpl in Hx. rewrite app_nil_r in Hx. exact Hx.
Qed.

Lemma with_counts_PO p a b : PO p -> PO (with_counts p a b).
Proof. intros HP. eapply PO_frame; [|exact HP]. apply frame_same; [reflexivity|auto]. Qed.

Lemma terminate_PO p : PO p -> PO (terminate p).
Proof.
  intros HP. unfold Parallel.terminate. destruct (proc && negb (is_nil (p_workers p))); auto.
  eapply PO_frame; [|exact HP]. apply frame_same; [reflexivity|]. intros x Hx. unfold tasks_of in *.
  cbn [p_jobs p_workers p_results plog sync with_workers] in Hx. rewrite busy_tasks_map_exited in Hx. simpl in Hx.
  rewrite !in_app_iff in *. destruct Hx; auto.
Qed.

Lemma start_procs_PO fuel n : forall p e p', PI p -> PO p -> start_procs fuel n p = (e, p') -> PO p'.
Proof.
  induction n as [|n IH]; intros p e p' HPI HP E; cbn [Parallel.start_procs] in E.
  { inversion E; subst. exact HP. }
  destruct (get_next_job fuel p None) as [g p1] eqn:Eg.
  destruct (get_next_job_PI tasks wake_rank calc_rank continue_ always fuel p None g p1 HPI ltac:(intros k H; discriminate) Eg) as [H1 Hr].
  destruct (get_next_job_PO fuel p None g p1 HPI ltac:(intros k H; discriminate) HP Eg) as [O1 Ha].
  destruct g as [j| |path|].
  - eapply IH; [| |exact E].
    + apply start_worker_PI. apply put_job_PI; auto. intros k ->. apply Hr. reflexivity.
    + apply start_worker_PO. apply put_job_PO; auto. intros k ->. apply Ha. reflexivity.
  - inversion E; subst. exact O1.
  - inversion E; subst. apply terminate_PO. exact O1.
  - inversion E; subst. exact O1.
Qed.

Lemma hand_out_PO fuel n : forall p completed e p',
  PI p -> (forall k, completed = Some k -> st_of (r_d (p_r p)) k <> SNone) -> PO p ->
  hand_out fuel n p completed = (e, p') -> PO p'.
Proof.
  induction n as [|n IH]; intros p completed e p' HPI Hc HP E; cbn [Parallel.hand_out] in E.
  { inversion E; subst. exact HP. }
  destruct (get_next_job fuel p completed) as [g p1] eqn:Eg.
  destruct (get_next_job_PI tasks wake_rank calc_rank continue_ always fuel p completed g p1 HPI Hc Eg) as [H1 Hr].
  destruct (get_next_job_PO fuel p completed g p1 HPI Hc HP Eg) as [O1 Ha].
  destruct g as [j| |path|].
  - eapply IH; [| | |exact E].
    + apply put_job_PI; auto. intros k ->. apply Hr. reflexivity.
    + intros k H; discriminate.
    + apply put_job_PO; auto. intros k ->. apply Ha. reflexivity.
  - eapply IH; [| | |exact E].
    + apply put_job_PI; [apply with_counts_PI; exact H1|intros k H; discriminate].
    + intros k H; discriminate.
    + apply put_job_PO; [apply with_counts_PO; exact O1|intros k H; discriminate].
  - inversion E; subst. exact O1.
  - inversion E; subst. exact O1.
Qed.

(* ---------- the main loop ---------- *)
Lemma process_result_PO p k :
  PI p -> PO p -> ready tasks p k -> running tasks p k -> t_argerr (get_task k) = false ->
  PO (with_r p (process_result (p_r p) k)).
Proof.
  intros HPI HP [Hst Hdeps] [Hrun Hsp] Harg.
  pose proof (pi_ri _ _ HPI) as HR.
  apply PO_with_r; auto.
  - apply process_result_A. apply (po_a _ HP).
  - apply process_result_O; [apply (po_o _ HP)|]. rewrite Hrun. reflexivity.
  - apply process_result_SI; auto; [apply (po_s _ HP)|].
    intros x Hx. apply (good_in_status tasks _ (r_tr (p_r p))); auto.
    apply Hdeps. apply ed_static. unfold static_deps. rewrite !in_app_iff. auto.
Qed.

Lemma PO_emit_main p evs : PO p -> (forall e x, In e evs -> is_final_ev x e = false) -> PO (with_r p (emit (p_r p) evs)).
Proof.
  intros HP Hn. eapply PO_frame; [|exact HP]. split; [reflexivity|]. split; [|auto].
  exists evs. split; [reflexivity|exact Hn].
Qed.

Lemma main_loop_PO fuel : forall p e p', PI p -> PO p -> main_loop fuel p = (e, p') -> PO p'.
Proof.
  induction fuel as [|fuel IH]; intros p e p' HPI HP E; cbn [Parallel.main_loop] in E.
  { inversion E; subst. exact HP. }
  destruct (p_count p). { inversion E; subst. exact HP. }
  destruct (main_get (S fuel * 4) p) as [m p1] eqn:Em.
  destruct (main_get_PI tasks proc _ _ _ _ HPI Em) as (H1 & Hr & Hrr).
  destruct (main_get_PO _ _ _ _ HP Em) as (O1 & Ha).
  destruct m as [[k|k|k|k]|].
  - (* a result *)
    assert (Hk : ready tasks p1 k) by (apply Hr; left; reflexivity).
    destruct (Hrr k eq_refl) as [Hk2 Hk3].
    destruct (process_result_PI tasks continue_ p1 k H1 Hk Hk2 Hk3) as [H2 S2].
    pose proof (process_result_PO p1 k H1 O1 Hk Hk2 (Ha k eq_refl)) as O2.
    set (p2 := with_r p1 (process_result (p_r p1) k)) in *.
    destruct (hand_out (S fuel) (S (p_free p2)) (with_counts p2 0 (p_count p2)) (Some k)) as [e2 p3] eqn:Eh.
    assert (H3 : PI p3).
    { eapply hand_out_PI; [| |exact Eh]; [apply with_counts_PI; exact H2|].
      intros k0 Ek. inversion Ek; subst. exact S2. }
    assert (O3 : PO p3).
    { eapply hand_out_PO; [| | |exact Eh]; [apply with_counts_PI; exact H2| |apply with_counts_PO; exact O2].
      intros k0 Ek. inversion Ek; subst. exact S2. }
    destruct e2; try (inversion E; subst; apply terminate_PO; exact O3).
    destruct (deadlocked p3).
    + inversion E; subst. apply terminate_PO. exact O3.
    + eapply IH; eauto.
  - (* execute report forwarded by a worker process *)
    eapply IH; [| |exact E].
    + apply PI_emit_main; auto.
      apply RI_exec; [apply (pi_ri _ _ H1)|]. apply (ready_deps _ _ _ (Hr k (or_intror eq_refl))).
    + apply PO_emit_main; auto. intros e0 x0 [<-|[]]. reflexivity.
  - (* teardown report *)
    eapply IH; [| |exact E].
    + apply PI_emit_main; auto. apply RI_emit; [apply (pi_ri _ _ H1)|reflexivity|intros e0 x0 [<-|[]]; reflexivity].
    + apply PO_emit_main; auto. intros e0 x0 [<-|[]]. reflexivity.
  - inversion E; subst. apply terminate_PO. exact O1.
  - inversion E; subst. apply terminate_PO. exact O1.
Qed.

Lemma drain_PO p : PO p -> PO (drain p).
Proof.
  intros HP. unfold drain.
  set (evs := flat_map _ (p_results p)).
  assert (Hn : forall e x, In e evs -> is_final_ev x e = false).
  { intros e x He. unfold evs in He. apply in_flat_map in He. destruct He as [m [_ He]].
    destruct m; simpl in He; try contradiction; destruct He as [<-|[]]; reflexivity. }
  eapply PO_frame; [|apply (PO_emit_main p evs HP Hn)].
  apply frame_same; [reflexivity|]. intros x Hx. unfold tasks_of in *.
  cbn [p_jobs p_workers p_results with_results with_r] in *. rewrite !in_app_iff in *. destruct Hx as [Hx|[Hx|Hx]]; auto. destruct Hx.
Qed.

Lemma PO_init sched sel : PO (p_init sched sel).
Proof.
  split; simpl.
  - apply AInv_init.
  - apply OInv_init.
  - apply SI_init.
  - intros k [].
Qed.

Lemma finish_PO p : PO p -> PO (sync (with_r p (finish (p_r p)))).
Proof.
  intros HP. eapply PO_frame; [|apply (PO_emit_main p (EClose :: map ETeardown (rev (r_td (p_r p)))) HP)].
  - apply frame_same; [reflexivity|auto].
  - intros e x [<-|Hin]; [reflexivity|]. apply in_map_iff in Hin. destruct Hin as (z & <- & _). reflexivity.
Qed.

(* the state the run ends in *)
Lemma parallel_final_PO fuel nprocs sched sel :
  exists p3 mk, PI p3 /\ PO p3 /\ p_seen p3 = length (r_tr (p_r p3)) /\ marker_ok mk /\
    fst (run_parallel tasks wake_rank calc_rank continue_ always proc fuel nprocs sched sel) = p_log p3 ++ mk.
Proof.
  unfold run_parallel.
  destruct (start_procs fuel nprocs (p_init sched sel)) as [e1 p1] eqn:E1.
  pose proof (start_procs_PI tasks wake_rank calc_rank continue_ always proc fuel nprocs _ _ _ (PI_init tasks sched sel) E1) as H1.
  pose proof (start_procs_PO fuel nprocs _ _ _ (PI_init tasks sched sel) (PO_init sched sel) E1) as O1.
  assert (Hfin : forall p2 mk, PI p2 -> PO p2 -> marker_ok mk ->
     exists p3 mk', PI p3 /\ PO p3 /\ p_seen p3 = length (r_tr (p_r p3)) /\ marker_ok mk' /\
       p_log (sync (with_r p2 (finish (p_r p2)))) ++ mk = p_log p3 ++ mk').
  { intros p2 mk H2 O2 Hm. exists (sync (with_r p2 (finish (p_r p2)))), mk.
    split; [apply finish_PI; exact H2|]. split; [apply finish_PO; exact O2|]. split; [reflexivity|]. split; [exact Hm|reflexivity]. }
  assert (M0 : marker_ok []) by (left; reflexivity).
  assert (M1 : forall e, is_fin e = false -> is_exec e = false -> is_pair_ev e = false -> marker_ok [PE e]) by (intros e A B C; right; exists e; auto).
  destruct e1; try (cbv beta iota zeta delta [fst snd]; apply Hfin; [exact H1|exact O1|first [exact M0|apply M1; reflexivity]]).
  set (p1' := with_counts p1 (p_free p1) (length (p_workers p1))).
  assert (H1' : PI p1') by (apply with_counts_PI; exact H1).
  assert (O1' : PO p1') by (apply with_counts_PO; exact O1).
  destruct (deadlocked p1').
  { cbv beta iota zeta delta [fst snd]. apply Hfin; [apply terminate_PI; exact H1'|apply terminate_PO; exact O1'|apply M1; reflexivity]. }
  destruct (main_loop fuel p1') as [e2 p2] eqn:E2.
  pose proof (main_loop_PI tasks wake_rank calc_rank continue_ always proc fuel _ _ _ H1' E2) as H2.
  pose proof (main_loop_PO fuel _ _ _ H1' O1' E2) as O2.
  destruct e2; cbv beta iota zeta delta [fst snd]; apply Hfin; auto; try (apply M1; reflexivity).
  - apply drain_PI. apply join_all_PI. exact H2.
  - apply drain_PO. apply join_all_PO. exact O2.
Qed.

(* SOUNDNESS, parallel runners: every final report in the log of a parallel run -- any number of
   workers, any schedule, threads or processes, any selection / oracles / --continue / fuel -- is
   the report of the outcome the specification derives for that task from the task table *)
Theorem parallel_outcome_sound fuel nprocs sched sel k e :
  In (PE e) (fst (run_parallel tasks wake_rank calc_rank continue_ always proc fuel nprocs sched sel)) ->
  is_final_ev k e = true ->
  exists r, fin k r /\ e = ev_of k r.
Proof.
  destruct (parallel_final_PO fuel nprocs sched sel) as (p3 & mk & HPI & HPO & Hs & Hm & ->).
  intros Hin Hf. apply in_app_iff in Hin. destruct Hin as [Hin|Hin].
  - assert (He : In e (r_tr (p_r p3))).
    { rewrite <- (firstn_all (r_tr (p_r p3))), <- Hs, <- (pi_proj _ _ HPI).
      unfold proj. apply in_flat_map. exists (PE e). split; [exact Hin|left; reflexivity]. }
    destruct (po_s _ HPO) as (a & S1 & S2 & S3).
    exists (a k). split; [|apply S2; auto].
    apply S1. apply (ri_link2 _ _ _ (pi_ri _ _ HPI)). apply finished_in_In. eauto.
  - destruct Hm as [->|(e0 & -> & Hnf & _)]; simpl in Hin; [contradiction|].
    destruct Hin as [Hin|[]]. inversion Hin; subst. apply is_final_is_fin in Hf. congruence.
Qed.

End Par.

Print Assumptions parallel_outcome_sound.

(* ---------- the C08 statement ---------- *)
(* a run: serial, or parallel (threads / processes, any number of workers, any schedule); its
   reporter / dep_manager events *)
Inductive run_cfg :=
| RunSerial (wake_rank : name -> name -> N) (calc_rank : name -> N) (continue_ : bool) (fuel : nat) (selection : list name)
| RunParallel (wake_rank : name -> name -> N) (calc_rank : name -> N) (continue_ proc : bool) (fuel nprocs : nat)
              (sched : list nat) (selection : list name).

Definition run_events (tasks : name -> option task) (always : bool) (c : run_cfg) : list event :=
  match c with
  | RunSerial wr cr co fuel sel => fst (run_serial tasks wr cr co always fuel sel)
  | RunParallel wr cr co proc fuel nprocs sched sel => proj (fst (run_parallel tasks wr cr co always proc fuel nprocs sched sel))
  end.

Lemma in_proj e log : In e (proj log) -> In (PE e) log.
Proof.
  unfold proj. intros H. apply in_flat_map in H. destruct H as (pe & Hin & He).
  destruct pe; simpl in He; try contradiction. destruct He as [<-|[]]. exact Hin.
Qed.

Theorem run_outcome_sound tasks always c k e :
  In e (run_events tasks always c) -> is_final_ev k e = true ->
  exists r, fin tasks always k r /\ e = ev_of k r.
Proof.
  destruct c; simpl; intros Hin Hf.
  - eapply serial_outcome_sound; eauto.
  - eapply parallel_outcome_sound; eauto. apply in_proj. exact Hin.
Qed.

(* Any two runs over the same task table and `always` flag -- serial or parallel, whatever the
   selections, worker counts, schedules, set-iteration oracles, --continue flags and fuels -- give a
   task that is reported in both the SAME final report (same kind of report, same failure kind) *)
Theorem same_outcome_any_two_runs tasks always c1 c2 k e1 e2 :
  In e1 (run_events tasks always c1) -> In e2 (run_events tasks always c2) ->
  is_final_ev k e1 = true -> is_final_ev k e2 = true -> e1 = e2.
Proof.
  intros H1 H2 F1 F2.
  destruct (run_outcome_sound tasks always c1 k e1 H1 F1) as (r1 & A1 & ->).
  destruct (run_outcome_sound tasks always c2 k e2 H2 F2) as (r2 & A2 & ->).
  eapply fin_same_report; eauto.
Qed.
Print Assumptions same_outcome_any_two_runs.
