(* FailRerunP.v -- a task that got a failure report (TaskFailed, TaskError, unmet dependency,
   get_status / getargs / save_success DependencyError) is not left recorded in the dependency DB,
   and the next run -- over any file system, checker, task table, flags, selection -- does not
   skip it as up-to-date, except in the one corner where doit never looks at the DB at all (no
   file_dep, every uptodate item a constant that holds: `uptodate=[True]`).

   Part 1: trace facts (every save is followed by the success report; no save of k after the
           failure report of k).
   Part 2: what a run writes to the Status.v DB, as a relation [db_run] over the trace (save_success
           at ESave, remove_success at ERemove, the record removal of get_status on a checker change
           at EGetStatus; any file system at each step), a function [db_after] that is one of its
           instances, and the backend-level [Crash.session_db] of C06.  B1: no record for k.
   Part 3: the next run over such a DB. *)
From DoitV Require Import Base Status History StatusP Commands CommandsP.
From DoitV Require Import Dispatch Runner Parallel RunnerTr RunnerP ParallelP OutcomeSpec OutcomeSerialP OutcomeParP OutcomeLiveP.
From DoitV Require Backends Crash BackendsP CrashP.
Open Scope N_scope.

(* ===================================================================================================== *)
(* Part 1: traces                                                                                         *)
(* ===================================================================================================== *)
Lemma split_tail1 {A} (a : list A) : forall t w e b,
  t ++ [w] = a ++ e :: b -> (b = [] /\ e = w /\ a = t) \/ exists b0, b = b0 ++ [w] /\ t = a ++ e :: b0.
Proof.
  induction a as [|y a IH]; intros t w e b E.
  - destruct t as [|x t]; simpl in E.
    + inversion E; subst. left. auto.
    + inversion E; subst. right. exists t. auto.
  - destruct t as [|x t]; simpl in E.
    + inversion E; subst. destruct a; discriminate.
    + inversion E; subst. destruct (IH _ _ _ _ H1) as [(-> & -> & ->)|(b0 & -> & ->)].
      * left. auto.
      * right. exists b0. auto.
Qed.

Lemma split_tail2 {A} (a : list A) : forall t u w e b,
  t ++ [u; w] = a ++ e :: b ->
  (b = [] /\ e = w /\ a = t ++ [u]) \/ (b = [w] /\ e = u /\ a = t) \/ exists b0, b = b0 ++ [u; w] /\ t = a ++ e :: b0.
Proof.
  intros t u w e b E.
  replace (t ++ [u; w]) with ((t ++ [u]) ++ [w]) in E by (rewrite <- app_assoc; reflexivity).
  destruct (split_tail1 _ _ _ _ _ E) as [(-> & -> & ->)|(b0 & -> & E1)].
  - left. auto.
  - right. destruct (split_tail1 _ _ _ _ _ E1) as [(-> & -> & ->)|(b1 & -> & ->)].
    + left. auto.
    + right. exists b1. rewrite <- app_assoc. auto.
Qed.

(* in a paired trace every save_success is immediately followed by the success report *)
Lemma paired_save_success tr : paired tr ->
  forall a k b, tr = a ++ ESave k :: b -> exists b', b = ESuccess k :: b'.
Proof.
  induction 1 as [|tr e Hp IH He|tr k0 kd0 Hp IH|tr k0 Hp IH]; intros a k b E.
  - destruct a; discriminate.
  - destruct (split_tail1 _ _ _ _ _ E) as [(_ & <- & _)|(b0 & -> & E1)]; [discriminate|].
    destruct (IH _ _ _ E1) as (b' & ->). eexists. reflexivity.
  - destruct (split_tail2 _ _ _ _ _ _ E) as [(_ & Q & _)|[(_ & Q & _)|(b0 & -> & E1)]]; try discriminate.
    destruct (IH _ _ _ E1) as (b' & ->). eexists. reflexivity.
  - destruct (split_tail2 _ _ _ _ _ _ E) as [(_ & Q & _)|[(-> & Q & _)|(b0 & -> & E1)]]; try discriminate.
    + inversion Q; subst. eexists. reflexivity.
    + destruct (IH _ _ _ E1) as (b' & ->). eexists. reflexivity.
Qed.

(* one final report per task + pairing: nothing is saved for a task after its failure report *)
Lemma no_save_after_failure tr : paired tr -> fonce tr ->
  forall pre k kd post, tr = pre ++ EFailure k kd :: post -> ~ In (ESave k) post.
Proof.
  intros Hp Hf pre k kd post E Hin.
  apply in_split in Hin. destruct Hin as (a & b & ->).
  assert (E' : tr = (pre ++ EFailure k kd :: a) ++ ESave k :: b) by (rewrite E, <- app_assoc; reflexivity).
  destruct (paired_save_success tr Hp _ _ _ E') as (b' & ->).
  destruct (fonce_unique tr Hf pre (EFailure k kd) (a ++ ESave k :: ESuccess k :: b') k E) as [_ H].
  { simpl. apply N.eqb_refl. }
  apply H. unfold finished_in. rewrite existsb_app. simpl. rewrite N.eqb_refl. rewrite !orb_true_r. reflexivity.
Qed.

(* the whole serial trace (body, finish(), the escaping exception) is paired *)
Lemma serial_paired tasks wake_rank calc_rank continue_ always fuel selection :
  paired (fst (run_serial tasks wake_rank calc_rank continue_ always fuel selection)).
Proof.
  destruct (serial_shape tasks wake_rank calc_rank continue_ always fuel selection) as (body & s & Hp & _ & [(_ & E1 & _)|(_ & E1 & _)]);
    cbv zeta in E1; rewrite E1; auto.
  apply paired_app_plain; auto. simpl. rewrite forallb_app.
  replace (forallb (fun e => negb (is_pair_ev e)) (stop_marker s)) with true by (destruct s; reflexivity).
  rewrite andb_true_r. generalize (rev (filter (has_td tasks) (execs body))) as l.
  induction l; simpl; auto.
Qed.

Lemma parallel_paired tasks wake_rank calc_rank continue_ always proc fuel nprocs sched sel :
  paired (proj (fst (run_parallel tasks wake_rank calc_rank continue_ always proc fuel nprocs sched sel))).
Proof.
  destruct (parallel_final tasks wake_rank calc_rank continue_ always proc fuel nprocs sched sel) as (p3 & mk & HP & Hs & Hm & -> & _).
  rewrite proj_app, (pi_proj _ _ HP), Hs, firstn_all.
  apply paired_app_plain; [apply (pt_pair _ (pi_pt _ _ HP))|].
  destruct Hm as [->|(e & -> & _ & _ & Hnp)]; simpl; auto. rewrite Hnp. reflexivity.
Qed.

(* the shape every failure report sits in *)
Lemma failure_context tr : paired tr -> fonce tr -> forall k kd, In (EFailure k kd) tr ->
  exists pre post, tr = pre ++ ERemove k :: EFailure k kd :: post /\ ~ In (ESave k) post.
Proof.
  intros Hp Hf k kd Hin. apply in_split in Hin. destruct Hin as (pre & post & E).
  destruct (paired_failure_removed tr Hp _ _ _ _ E) as (pre' & ->).
  exists pre', post. split; [rewrite E, <- app_assoc; reflexivity|].
  eapply no_save_after_failure; eauto.
Qed.

(* ===================================================================================================== *)
(* Part 2: what the run leaves in the DB                                                                  *)
(* ===================================================================================================== *)
Section DB.
Variable md5 : N -> N.
Variable v : ver.
Variable c : ck.          (* the checker configured for the run *)
Variable rt : table.      (* the task definitions of the run *)

(* one dep_manager call of the run.  [fs] is the file system at that moment (tasks write files while
   the run goes on).  get_status is not called for every EGetStatus (a task ignored or with a failed
   dependency is reported without it): [ds_none] *)
Inductive db_step : db -> event -> db -> Prop :=
| ds_check d k ct fs : lookup rt k = Some ct ->
    db_step d (EGetStatus k) (g_db (get_status md5 v c fs d k (c_def ct) false))
| ds_save d k ct fs : lookup rt k = Some ct ->
    db_step d (ESave k) (fst (save_success md5 v c fs d k (file_dep (c_def ct)) (save_extra_values d (c_def ct)) (act_result (c_def ct))))
| ds_remove d k : db_step d (ERemove k) (remove_success d k)
| ds_none d e : (forall k, e <> ERemove k) -> db_step d e d.

Inductive db_run : db -> list event -> db -> Prop :=
| dr_nil d : db_run d [] d
| dr_cons d e d' tr d'' : db_step d e d' -> db_run d' tr d'' -> db_run d (e :: tr) d''.

Lemma db_run_app a : forall d b d2, db_run d (a ++ b) d2 -> exists dm, db_run d a dm /\ db_run dm b d2.
Proof.
  induction a as [|e a IH]; intros d b d2 H; simpl in H.
  - exists d. split; [constructor|exact H].
  - inversion H; subst. destruct (IH _ _ _ H5) as (dm & A & B). exists dm. split; auto. econstructor; eauto.
Qed.

(* remove_success deletes the whole record; nothing but save_success of k creates a record of k *)
Lemma db_step_remove d k d' : db_step d (ERemove k) d' -> d' k = None.
Proof.
  intros H. inversion H; subst.
  - apply remove_same.
  - exfalso. eapply H0. reflexivity.
Qed.

Lemma save_success_other c0 fs d t deps vals res x : x <> t ->
  fst (save_success md5 v c0 fs d t deps vals res) x = d x.
Proof.
  intros Hx. unfold save_success. destruct (save_success_rec md5 v c0 fs (getrec d t) deps vals res) as [r o].
  simpl. apply upd_other. exact Hx.
Qed.

Lemma db_step_frame d e d' k : db_step d e d' -> d k = None -> e <> ESave k -> d' k = None.
Proof.
  intros H Hn He. inversion H; subst; auto.
  - destruct (get_status_db md5 v c fs d k0 (c_def ct) false) as [->|[_ ->]]; auto.
    destruct (N.eq_dec k k0) as [->|Hk]; [apply remove_same|rewrite remove_other; auto].
  - destruct (N.eq_dec k k0) as [->|Hk]; [congruence|]. rewrite save_success_other; auto.
  - unfold remove_success. destruct (N.eq_dec k k0) as [->|Hk]; [apply remove_same|rewrite remove_other; auto].
Qed.

Lemma db_run_frame tr k : forall d d', db_run d tr d' -> d k = None -> ~ In (ESave k) tr -> d' k = None.
Proof.
  induction tr as [|e tr IH]; intros d d' H Hn Hs; inversion H; subst; auto.
  eapply IH; [exact H5| |intro; apply Hs; right; auto].
  eapply db_step_frame; eauto. intros ->. apply Hs. left. reflexivity.
Qed.

(* B1, for every trace with the two shape properties *)
Lemma failed_no_record tr : paired tr -> fonce tr -> forall k kd, In (EFailure k kd) tr ->
  forall d0 d1, db_run d0 tr d1 -> d1 k = None.
Proof.
  intros Hp Hf k kd Hin d0 d1 Hr.
  destruct (failure_context tr Hp Hf k kd Hin) as (pre & post & -> & Hns).
  apply db_run_app in Hr. destruct Hr as (dm & _ & Hr). inversion Hr; subst.
  apply db_step_remove in H2.
  eapply db_run_frame; [exact H4|exact H2|].
  intros [Q|Q]; [discriminate|]. apply Hns. exact Q.
Qed.

(* the function: one file system for the whole run; get_status is called unless the task is
   reported ignored right away *)
Definition ev_db (fs : fsys) (d : db) (e : event) (rest : list event) : db :=
  match e with
  | EGetStatus k =>
      match rest with
      | ESkipIgnore _ :: _ => d
      | _ => match lookup rt k with
             | Some ct => g_db (get_status md5 v c fs d k (c_def ct) false)
             | None => d end
      end
  | ESave k =>
      match lookup rt k with
      | Some ct => fst (save_success md5 v c fs d k (file_dep (c_def ct)) (save_extra_values d (c_def ct)) (act_result (c_def ct)))
      | None => d end
  | ERemove k => remove_success d k
  | _ => d
  end.
Fixpoint db_after (fs : fsys) (d : db) (tr : list event) : db :=
  match tr with
  | [] => d
  | e :: rest => db_after fs (ev_db fs d e rest) rest
  end.

Lemma ev_db_step fs d e rest : db_step d e (ev_db fs d e rest).
Proof.
  destruct e; simpl; try (apply ds_none; intros; discriminate).
  - destruct rest as [|[] rest]; try (apply ds_none; intros; discriminate);
      (destruct (lookup rt k) eqn:E; [eapply ds_check; eauto|apply ds_none; intros; discriminate]).
  - destruct (lookup rt k) eqn:E; [eapply ds_save; eauto|apply ds_none; intros; discriminate].
  - apply ds_remove.
Qed.

Lemma db_after_run fs tr : forall d, db_run d tr (db_after fs d tr).
Proof. induction tr as [|e tr IH]; intros d; simpl; econstructor; [apply ev_db_step|apply IH]. Qed.

End DB.

(* ---- B1 for the two runners ---- *)
Theorem failed_no_record_serial md5 v c rt tasks wake_rank calc_rank continue_ always fuel selection k kind d0 d1 :
  let tr := fst (run_serial tasks wake_rank calc_rank continue_ always fuel selection) in
  In (EFailure k kind) tr -> db_run md5 v c rt d0 tr d1 ->
  d1 k = None /\ status_is_ignore d1 k = false /\ getrec d1 k = empty_rec.
Proof.
  cbv zeta. intros Hin Hr.
  assert (H : d1 k = None).
  { eapply failed_no_record; [apply serial_paired|apply serial_one_final|exact Hin|exact Hr]. }
  split; auto. split; [apply status_is_ignore_none; auto|apply getrec_none; auto].
Qed.

Theorem failed_no_record_parallel md5 v c rt tasks wake_rank calc_rank continue_ always proc fuel nprocs sched selection k kind d0 d1 :
  let tr := proj (fst (run_parallel tasks wake_rank calc_rank continue_ always proc fuel nprocs sched selection)) in
  In (EFailure k kind) tr -> db_run md5 v c rt d0 tr d1 ->
  d1 k = None /\ status_is_ignore d1 k = false /\ getrec d1 k = empty_rec.
Proof.
  cbv zeta. intros Hin Hr.
  assert (H : d1 k = None).
  { eapply failed_no_record; [apply parallel_paired|apply parallel_one_final|exact Hin|exact Hr]. }
  split; auto. split; [apply status_is_ignore_none; auto|apply getrec_none; auto].
Qed.

(* ---- the same at the level of the backends (Model/Crash.v session_db, the function the C06 check
   compares with the DB the real backends hold after a run): no key of k is left ---- *)
Lemma failed_no_record_session recd tr : paired tr -> fonce tr -> forall k kd, In (EFailure k kd) tr ->
  forall m, Crash.session_db recd m tr k = None.
Proof.
  intros Hp Hf k kd Hin m.
  destruct (failure_context tr Hp Hf k kd Hin) as (pre & post & -> & Hns).
  unfold Crash.session_db, Crash.db_ops. rewrite flat_map_app, BackendsP.exec_app. simpl.
  set (m1 := Backends.del _ k).
  assert (Hm1 : Backends.has m1 k = false).
  { unfold m1, Backends.has, Backends.del. rewrite N.eqb_refl. reflexivity. }
  destruct (Backends.has (Backends.exec Backends.spec_step m1 (Crash.db_ops recd post)) k) eqn:Hh.
  - apply (CrashP.db_ops_unsaved recd post m1 k Hns) in Hh. congruence.
  - unfold Backends.has in Hh. unfold Crash.db_ops in Hh.
    destruct (Backends.exec Backends.spec_step m1 (flat_map (Crash.event_ops recd) post) k); [discriminate|reflexivity].
Qed.

Theorem failed_no_record_session_serial recd tasks wake_rank calc_rank continue_ always fuel selection k kind m :
  In (EFailure k kind) (fst (run_serial tasks wake_rank calc_rank continue_ always fuel selection)) ->
  Crash.session_db recd m (fst (run_serial tasks wake_rank calc_rank continue_ always fuel selection)) k = None.
Proof. intros H. eapply failed_no_record_session; [apply serial_paired|apply serial_one_final|exact H]. Qed.

Theorem failed_no_record_session_parallel recd tasks wake_rank calc_rank continue_ always proc fuel nprocs sched selection k kind m :
  In (EFailure k kind) (proj (fst (run_parallel tasks wake_rank calc_rank continue_ always proc fuel nprocs sched selection))) ->
  Crash.session_db recd m (proj (fst (run_parallel tasks wake_rank calc_rank continue_ always proc fuel nprocs sched selection))) k = None.
Proof. intros H. eapply failed_no_record_session; [apply parallel_paired|apply parallel_one_final|exact H]. Qed.

(* ===================================================================================================== *)
(* Part 3: the next run over a DB without a record of k                                                   *)
(* ===================================================================================================== *)
(* the corner in which get_status never needs the DB: no file_dep and only constant items that hold
   (`uptodate=[True]`, a callable that answers True; None items are skipped) *)
Definition const_item (u : utd) : bool :=
  match u with UBool true | UNone | UOpaque (Some true) | UOpaque None => true | _ => false end.
Definition true_item (u : utd) : bool :=
  match u with UBool true | UOpaque (Some true) => true | _ => false end.
Definition constant_uptodate (df : tdef) : bool :=
  is_nil (file_dep df) && forallb const_item (uptodate df) && existsb true_item (uptodate df).

Lemma eval_norec d t u : d t = None ->
  eval_utd d t u = match u with UBool b => Some b | UNone => None | UOpaque r => r | _ => Some false end.
Proof.
  intros H. unfold eval_utd, get_values. rewrite (getrec_none _ _ H). destruct u; reflexivity.
Qed.

(* without a record the verdict is up-to-date exactly in that corner (targets present) *)
Lemma norecord_uptodate_iff md5 v c fs d t df : d t = None ->
  (g_status (get_status md5 v c fs d t df false) = UpToDate <-> constant_uptodate df = true /\ targets_ok fs df).
Proof.
  intros Hn. rewrite (forgotten_uptodate_iff md5 v c fs d t df Hn).
  unfold constant_uptodate. rewrite !andb_true_iff, is_nil_true, forallb_forall, existsb_exists.
  unfold items_ok, some_dep. split.
  - intros (Hf & Hi & Hs & Ht). split; auto. split; [split; auto|].
    + intros u Hu. specialize (Hi u Hu). rewrite (eval_norec d t u Hn) in Hi.
      destruct u as [[]| |[[]|]| | |]; simpl; auto; congruence.
    + destruct Hs as [Hs|(u & b & Hu & Hb)]; [contradiction|]. exists u. split; auto.
      specialize (Hi u Hu). rewrite Hb in Hi. rewrite (eval_norec d t u Hn) in Hb.
      destruct u as [[]| |[[]|]| | |]; simpl; auto; try congruence; inversion Hb; subst; congruence.
  - intros (((Hf & Hi) & (u & Hu & Hb)) & Ht). split; auto. split; [|split; auto].
    + intros u0 Hu0 E. specialize (Hi u0 Hu0). rewrite (eval_norec d t u0 Hn) in E.
      destruct u0 as [[]| |[[]|]| | |]; simpl in *; congruence.
    + right. exists u, true. split; auto. rewrite (eval_norec d t u Hn).
      destruct u as [[]| |[[]|]| | |]; simpl in *; congruence.
Qed.

(* a task is reported up-to-date only when its get_status verdict says so and --always-execute is off *)
Lemma fin_uptodate tasks always k : fin tasks always k FUpToDate ->
  t_check (get_task tasks k) = CkUpToDate /\ always = false /\ t_dbignore (get_task tasks k) = false.
Proof.
  intros H. inversion H as [k0 a p r D F S|k0 a r D F Dset Sec]; subst.
  - destruct p; simpl in S; try discriminate. inversion F; subst. auto.
  - exfalso. inversion Sec as [| |r0 Hg He]; subst.
    unfold exec_res in He. destruct (t_argerr (get_task tasks k)); [discriminate|].
    destruct (t_outcome (get_task tasks k)); discriminate.
Qed.

Lemma skip_uptodate_check_serial tasks wake_rank calc_rank continue_ always fuel sel k :
  In (ESkipUpToDate k) (fst (run_serial tasks wake_rank calc_rank continue_ always fuel sel)) ->
  t_check (get_task tasks k) = CkUpToDate /\ always = false /\ t_dbignore (get_task tasks k) = false.
Proof.
  intros Hin.
  destruct (serial_outcome_sound tasks wake_rank calc_rank continue_ always fuel sel k _ Hin) as (r & Hf & E).
  { simpl. apply N.eqb_refl. }
  destruct r; try discriminate. apply fin_uptodate. exact Hf.
Qed.

Lemma skip_uptodate_check_parallel tasks wake_rank calc_rank continue_ always proc fuel nprocs sched sel k :
  In (PE (ESkipUpToDate k)) (fst (run_parallel tasks wake_rank calc_rank continue_ always proc fuel nprocs sched sel)) ->
  t_check (get_task tasks k) = CkUpToDate /\ always = false /\ t_dbignore (get_task tasks k) = false.
Proof.
  intros Hin.
  destruct (parallel_outcome_sound tasks wake_rank calc_rank continue_ always proc fuel nprocs sched sel k _ Hin) as (r & Hf & E).
  { simpl. apply N.eqb_refl. }
  destruct r; try discriminate. apply fin_uptodate. exact Hf.
Qed.

Lemma run_table_uptodate md5 v c fs d rt k : d k = None ->
  t_check (get_task (run_table md5 v c fs d rt) k) = CkUpToDate ->
  exists ct, lookup rt k = Some ct /\ constant_uptodate (c_def ct) = true /\ targets_ok fs (c_def ct).
Proof.
  intros Hn H. unfold get_task, run_table in H. destruct (lookup rt k) as [ct|] eqn:El; [|discriminate].
  exists ct. split; auto. apply (norecord_uptodate_iff md5 v c fs d k (c_def ct) Hn).
  simpl in H. destruct (g_status (get_status md5 v c fs d k (c_def ct) false)); simpl in H; congruence.
Qed.

(* B2, first half: k is not skipped as up-to-date -- any table, file system, checker, flags, oracles *)
Theorem norecord_never_skipped_serial md5 v wake_rank calc_rank c fs d rt cont always fuel sel k :
  d k = None ->
  In (ESkipUpToDate k) (fst (next_run md5 v wake_rank calc_rank c fs d rt cont always fuel sel)) ->
  exists ct, lookup rt k = Some ct /\ constant_uptodate (c_def ct) = true /\ targets_ok fs (c_def ct) /\ always = false.
Proof.
  intros Hn Hin. unfold next_run in Hin.
  destruct (skip_uptodate_check_serial _ _ _ _ _ _ _ _ Hin) as (Hc & Ha & _).
  destruct (run_table_uptodate md5 v c fs d rt k Hn Hc) as (ct & A & B & C). exists ct. auto.
Qed.

Theorem norecord_never_skipped_parallel md5 v wake_rank calc_rank c fs d rt cont always proc fuel nprocs sched sel k :
  d k = None ->
  In (PE (ESkipUpToDate k)) (fst (run_parallel (run_table md5 v c fs d rt) wake_rank calc_rank cont always proc fuel nprocs sched sel)) ->
  exists ct, lookup rt k = Some ct /\ constant_uptodate (c_def ct) = true /\ targets_ok fs (c_def ct) /\ always = false.
Proof.
  intros Hn Hin.
  destruct (skip_uptodate_check_parallel _ _ _ _ _ _ _ _ _ _ _ Hin) as (Hc & Ha & _).
  destruct (run_table_uptodate md5 v c fs d rt k Hn Hc) as (ct & A & B & C). exists ct. auto.
Qed.

(* ---- B2, second half: a result of the actions is reported only for an executed task ---- *)
Definition acted (k : name) (tr : list event) : Prop :=
  In (ESuccess k) tr \/ In (EFailure k kind_failed) tr \/ In (EFailure k kind_error) tr.
Definition EX (tr : list event) : Prop := forall k, acted k tr -> In (EExecute k) tr.

Definition selq (e : event) : bool :=
  match e with
  | EGetStatus _ | ESkipIgnore _ | ESkipUpToDate _ | ERemove _ => true
  | EFailure _ kd => (kd =? kind_unmet) || (kd =? kind_dep)
  | _ => false end.
Definition finq (e : event) : bool :=
  match e with EClose | ETeardown _ | ECycleError _ | EHoldError | EInterrupt _ | EExecute _ => true | _ => false end.

Lemma not_acted_q l k : Forall (fun e => selq e = true \/ finq e = true) l -> ~ acted k l.
Proof.
  intros H [A|[A|A]]; rewrite Forall_forall in H; apply H in A; simpl in A; destruct A; discriminate.
Qed.

Lemma acted_app k a b : acted k (a ++ b) -> acted k a \/ acted k b.
Proof.
  unfold acted. rewrite !in_app_iff. tauto.
Qed.

Lemma EX_app_q tr l : EX tr -> Forall (fun e => selq e = true \/ finq e = true) l -> EX (tr ++ l).
Proof.
  intros H Hl k Hk. apply in_or_app. left. apply H.
  apply acted_app in Hk. destruct Hk as [Hk|Hk]; auto. exfalso. revert Hk. apply not_acted_q. exact Hl.
Qed.

Section EXS.
Variable tasks : name -> option task.
Variable wake_rank : name -> name -> N.
Variable calc_rank : name -> N.
Variable continue_ always : bool.

Lemma select_task_selq r k b r1 :
  select_task tasks continue_ always r k = (b, r1) ->
  exists l, r_tr r1 = r_tr r ++ l /\ Forall (fun e => selq e = true \/ finq e = true) l.
Proof.
  unfold select_task, get_args, handle_error, handle_error_gen, emit, with_d. intro H.
  repeat match type of H with
         | context [if ?c then _ else _] => destruct c
         | context [match ?x with _ => _ end] => destruct x
         end;
    inversion H; subst; clear H; cbn [r_tr r_td r_d];
    eexists; (split; [rewrite <- ?app_assoc; try reflexivity; rewrite app_nil_r; reflexivity |]);
    repeat (constructor; [left; reflexivity|]); constructor.
Qed.

Lemma process_result_EX r k : EX (r_tr r) -> EX (r_tr (process_result tasks continue_ (start_task tasks r k) k)).
Proof.
  intros H.
  assert (G : forall l, (forall x, acted x l -> x = k) -> EX ((r_tr r ++ [EExecute k]) ++ l)).
  { intros l Hl x Hx. apply acted_app in Hx. destruct Hx as [Hx|Hx].
    - apply in_or_app. left. apply acted_app in Hx. destruct Hx as [Hx|Hx].
      + apply in_or_app. left. apply H. exact Hx.
      + exfalso. revert Hx. apply not_acted_q. constructor; [right; reflexivity|constructor].
    - apply Hl in Hx. subst. apply in_or_app. left. apply in_or_app. right. left. reflexivity. }
  assert (Q : forall l x, acted x l -> (forall e, In e l -> e = ESave k \/ e = ESuccess k \/ e = ERemove k \/ exists kd, e = EFailure k kd) -> x = k).
  { intros l x [A|[A|A]] Hl; apply Hl in A; destruct A as [A|[A|[A|[kd A]]]]; congruence. }
  unfold process_result. cbn [start_task r_tr r_d r_final r_stop r_td].
  destruct (t_outcome (get_task tasks k)); cbn [r_tr emit with_d handle_error handle_error_gen start_task];
    try (apply G; intros x Hx; eapply Q; [exact Hx|]; intros e He; simpl in He;
         repeat (destruct He as [<-|He]; [eauto 6|]); contradiction).
  rewrite <- (app_nil_r (r_tr r ++ [EExecute k])). apply G. intros x Hx. exfalso. revert Hx. apply not_acted_q. constructor.
Qed.

Lemma finish_EX r : EX (r_tr r) -> EX (r_tr (finish r)).
Proof.
  intros H. unfold finish, emit. simpl. apply EX_app_q; auto. constructor; [right; reflexivity|].
  induction (rev (r_td r)); simpl; constructor; auto.
Qed.

Lemma serial_EX fuel : forall r last r' s,
  EX (r_tr r) -> serial tasks wake_rank calc_rank continue_ always fuel r last = (r', s) -> EX (r_tr r').
Proof.
  induction fuel as [|fuel IH]; intros r last r' s HT E; cbn [serial] in E.
  { injection E as <- <-. auto. }
  destruct (r_stop r). { injection E as <- <-. apply finish_EX; auto. }
  destruct (disp_send tasks wake_rank calc_rank (S fuel) (r_d r) last) as [y d].
  destruct y as [k| | |path|]; try (injection E as <- <-; try apply finish_EX; exact HT).
  destruct (select_task tasks continue_ always (with_d r d) k) as [b r1] eqn:Es.
  assert (H1 : EX (r_tr r1)).
  { destruct (select_task_selq _ _ _ _ Es) as (l & -> & Hl). apply EX_app_q; auto. }
  destruct b.
  - destruct (is_interrupt tasks k).
    + injection E as <- <-. apply finish_EX. unfold start_task. simpl. apply EX_app_q; [exact H1|].
      constructor; [right; reflexivity|constructor].
    + eapply IH; [|exact E]. apply process_result_EX. exact H1.
  - eapply IH; eauto.
Qed.

Theorem serial_acted_executed fuel sel k :
  acted k (fst (run_serial tasks wake_rank calc_rank continue_ always fuel sel)) ->
  In (EExecute k) (fst (run_serial tasks wake_rank calc_rank continue_ always fuel sel)).
Proof.
  unfold run_serial. destruct (serial tasks wake_rank calc_rank continue_ always fuel (r_init sel) None) as [r s] eqn:E.
  simpl. revert k. change (EX (r_tr r ++ stop_marker s)). apply EX_app_q.
  - eapply serial_EX; [|exact E]. intros k [A|[A|A]]; destruct A.
  - destruct s; simpl; repeat (constructor; [right; reflexivity|]); constructor.
Qed.
End EXS.

(* the kinds of failure the specification knows *)
Lemma fin_fail_kind tasks always k vl kd : fin tasks always k (FFail vl kd) ->
  kd = kind_failed \/ kd = kind_error \/ kd = kind_unmet \/ kd = kind_dep.
Proof.
  intros H. inversion H as [k0 a p r D F S|k0 a r D F Dset Sec]; subst.
  - destruct p; simpl in S; inversion S; subst; auto.
  - inversion Sec as [|Hn Hx|r0 Hg He]; subst; auto.
    unfold exec_res in He. destruct (t_argerr (get_task tasks k)); [inversion He; subst; auto|].
    destruct (t_outcome (get_task tasks k)); inversion He; subst; auto.
Qed.

(* a --continue run over a DB without a record of k, not cut short, k selected: k is executed --
   unless a task it depends on is ignored or failed (skip_ignore / unmet dependency) or a file
   dependency is missing (DependencyError from get_status / getargs) *)
Theorem norecord_executed_again md5 v wake_rank calc_rank c fs d rt always fuel sel k :
  d k = None ->
  (forall ct, lookup rt k = Some ct -> constant_uptodate (c_def ct) = true -> targets_ok fs (c_def ct) -> always = true) ->
  let res := next_run md5 v wake_rank calc_rank c fs d rt true always fuel sel in
  snd res <= 2 -> In k sel ->
  In (EExecute k) (fst res) \/ In (ESkipIgnore k) (fst res) \/
  In (EFailure k kind_unmet) (fst res) \/ In (EFailure k kind_dep) (fst res).
Proof.
  intros Hn Hc. cbv zeta. intros Hcode Hsel. unfold next_run in *.
  destruct (serial_continue_right_outcome _ wake_rank calc_rank always fuel sel Hcode k Hsel) as (r & Hf & Hin).
  destruct r as [| | |vl kd]; simpl in Hin; auto.
  - exfalso. destruct (norecord_never_skipped_serial md5 v wake_rank calc_rank c fs d rt true always fuel sel k Hn Hin)
      as (ct & A & B & C & D). rewrite (Hc ct A B C) in D. discriminate.
  - left. apply serial_acted_executed. left. exact Hin.
  - destruct (fin_fail_kind _ _ _ _ _ Hf) as [-> | [-> | [-> | ->]]]; auto.
    + left. apply serial_acted_executed. right. left. exact Hin.
    + left. apply serial_acted_executed. right. right. exact Hin.
Qed.

(* ===================================================================================================== *)
(* the two runs together                                                                                  *)
(* ===================================================================================================== *)
(* first run serial, over ANY task table [tasks] (in particular [run_table c0 fs0 d0 rt0], and the
   same with failing actions); [d1] any DB the run can leave from [d0]; second run: anything *)
Theorem failed_then_never_skipped_serial md5 v c0 rt0 tasks wr cr cont0 always0 fuel0 sel0 k kind d0 d1 :
  let tr1 := fst (run_serial tasks wr cr cont0 always0 fuel0 sel0) in
  In (EFailure k kind) tr1 -> db_run md5 v c0 rt0 d0 tr1 d1 ->
  forall wr' cr' c1 fs1 rt1 cont1 always1 fuel1 sel1,
  In (ESkipUpToDate k) (fst (next_run md5 v wr' cr' c1 fs1 d1 rt1 cont1 always1 fuel1 sel1)) ->
  exists ct, lookup rt1 k = Some ct /\ constant_uptodate (c_def ct) = true /\ targets_ok fs1 (c_def ct) /\ always1 = false.
Proof.
  cbv zeta. intros Hin Hr wr' cr' c1 fs1 rt1 cont1 always1 fuel1 sel1.
  apply norecord_never_skipped_serial.
  exact (proj1 (failed_no_record_serial md5 v c0 rt0 tasks wr cr cont0 always0 fuel0 sel0 k kind d0 d1 Hin Hr)).
Qed.

Theorem failed_then_never_skipped_parallel md5 v c0 rt0 tasks wr cr cont0 always0 proc fuel0 nprocs sched sel0 k kind d0 d1 :
  let tr1 := proj (fst (run_parallel tasks wr cr cont0 always0 proc fuel0 nprocs sched sel0)) in
  In (EFailure k kind) tr1 -> db_run md5 v c0 rt0 d0 tr1 d1 ->
  forall wr' cr' c1 fs1 rt1 cont1 always1 fuel1 sel1,
  (In (ESkipUpToDate k) (fst (next_run md5 v wr' cr' c1 fs1 d1 rt1 cont1 always1 fuel1 sel1)) ->
   exists ct, lookup rt1 k = Some ct /\ constant_uptodate (c_def ct) = true /\ targets_ok fs1 (c_def ct) /\ always1 = false) /\
  (forall proc1 nprocs1 sched1,
   In (PE (ESkipUpToDate k)) (fst (run_parallel (run_table md5 v c1 fs1 d1 rt1) wr' cr' cont1 always1 proc1 fuel1 nprocs1 sched1 sel1)) ->
   exists ct, lookup rt1 k = Some ct /\ constant_uptodate (c_def ct) = true /\ targets_ok fs1 (c_def ct) /\ always1 = false).
Proof.
  cbv zeta. intros Hin Hr wr' cr' c1 fs1 rt1 cont1 always1 fuel1 sel1.
  pose proof (proj1 (failed_no_record_parallel md5 v c0 rt0 tasks wr cr cont0 always0 proc fuel0 nprocs sched sel0 k kind d0 d1 Hin Hr)) as Hn.
  split.
  - apply norecord_never_skipped_serial. exact Hn.
  - intros proc1 nprocs1 sched1. apply norecord_never_skipped_parallel. exact Hn.
Qed.

(* the form with the hypothesis: a task whose definition in the second run is not in the corner *)
Corollary failed_then_never_skipped_serial_hyp md5 v c0 rt0 tasks wr cr cont0 always0 fuel0 sel0 k kind d0 d1 :
  let tr1 := fst (run_serial tasks wr cr cont0 always0 fuel0 sel0) in
  In (EFailure k kind) tr1 -> db_run md5 v c0 rt0 d0 tr1 d1 ->
  forall wr' cr' c1 fs1 rt1 cont1 always1 fuel1 sel1,
  (forall ct, lookup rt1 k = Some ct -> constant_uptodate (c_def ct) = false) ->
  ~ In (ESkipUpToDate k) (fst (next_run md5 v wr' cr' c1 fs1 d1 rt1 cont1 always1 fuel1 sel1)).
Proof.
  cbv zeta. intros Hin Hr wr' cr' c1 fs1 rt1 cont1 always1 fuel1 sel1 Hc Hs.
  destruct (failed_then_never_skipped_serial md5 v c0 rt0 tasks wr cr cont0 always0 fuel0 sel0 k kind d0 d1 Hin Hr
              wr' cr' c1 fs1 rt1 cont1 always1 fuel1 sel1 Hs) as (ct & A & B & _).
  rewrite (Hc ct A) in B. discriminate.
Qed.

(* sufficient, syntactic: the task has a file dependency, or one of the DB-backed items *)
Lemma not_constant_file_dep df : file_dep df <> [] -> constant_uptodate df = false.
Proof. unfold constant_uptodate. destruct (file_dep df); [congruence|reflexivity]. Qed.
Lemma not_constant_no_items df : uptodate df = [] -> constant_uptodate df = false.
Proof. unfold constant_uptodate. intros ->. simpl. apply andb_false_r. Qed.
Lemma not_constant_item df u : In u (uptodate df) -> const_item u = false -> constant_uptodate df = false.
Proof.
  intros Hu Hc. unfold constant_uptodate.
  destruct (forallb const_item (uptodate df)) eqn:E; [|rewrite andb_false_r; reflexivity].
  rewrite forallb_forall in E. rewrite (E u Hu) in Hc. discriminate.
Qed.

(* ---- a first-run table with failing actions: the verdicts of [run_table], the actions of the tasks in l fail ---- *)
Definition with_outcome (t : task) (o : outcome) : task :=
  Build_task (t_task_dep t) (t_setup t) (t_calc_dep t) (t_teardown t) (t_dbignore t) (t_check t) (t_argerr t) o
             (t_calc_new_task t) (t_calc_new_impl t) (t_calc_new_calc t).
Definition failing (l : list name) (o : outcome) (tb : name -> option task) : name -> option task :=
  fun n => match tb n with Some t => Some (if mem n l then with_outcome t o else t) | None => None end.

(* the literal reading -- "executes again on the next run whatever the state of its inputs" -- does
   not hold: `uptodate=[True]` without file_dep, run with --always-execute, action fails; the record
   is gone, the next run (same definitions, same files) skips the task as up-to-date *)
Theorem failed_then_skipped_refuted :
  exists (rt : table) (fs : fsys) (k : name),
    let md5 := fun x : N => x in
    let tasks1 := failing [k] OFail (run_table md5 current MD5 fs empty_db rt) in
    let tr1 := fst (run_serial tasks1 (fun _ _ => 0) (fun _ => 0) false true 50 [k]) in
    let d1 := db_after md5 current MD5 rt fs empty_db tr1 in
    tr1 = [EGetStatus k; EExecute k; ERemove k; EFailure k kind_failed; EClose] /\
    d1 k = None /\
    fst (next_run md5 current (fun _ _ => 0) (fun _ => 0) MD5 fs d1 rt false false 50 [k]) =
      [EGetStatus k; ESkipUpToDate k; EClose].
Proof.
  exists [(0, {| c_task_dep := []; c_setup := []; c_calc_dep := []; c_subtask_of := None;
                 c_def := {| file_dep := []; targets := []; uptodate := [UBool true]; act_values := []; act_result := None |} |})],
         (fun _ => None), 0.
  vm_compute. repeat split.
Qed.
