(* CompleteP.v -- completeness of a serial run that was not cut short: when run_tasks ends because the
   dispatcher is exhausted (StopIteration), every selected task -- and every task that got a node, i.e.
   everything the run looked at -- has a final status and a final report in the trace.  With the
   "at most one final report" of RunnerP this is "exactly one". *)
From DoitV Require Import Base Dispatch Runner DispatchP DispatchInv RunnerTr RunnerP AncP HoldP.
Open Scope N_scope.

Section C.
Variable tasks : name -> option task.
Variable wake_rank : name -> name -> N.
Variable calc_rank : name -> N.
Variable continue_ always : bool.

Notation node_of := (node_of tasks).
Notation st_of := (st_of tasks).
Notation get_task := (get_task tasks).
Notation gen_node := (gen_node tasks).
Notation add_wait_one := (add_wait_one tasks).
Notation add_wait_run := (add_wait_run tasks).
Notation gen_step := (gen_step tasks calc_rank).
Notation set_pc := (set_pc tasks).
Notation set_status := (set_status tasks).
Notation exn_set_node := (HoldP.exn_set_node tasks wake_rank calc_rank).
Notation HI := (HoldP.HI tasks).
Notation PS := (HoldP.PS tasks).

(* nodes are never removed, tasks_to_run only changes in _get_next_node *)
Definition grows (d d' : dstate) : Prop := (forall z, exn d z -> exn d' z) /\ d_torun d' = d_torun d.
Lemma grows_refl d : grows d d. Proof. split; auto. Qed.
Lemma grows_trans a b c : grows a b -> grows b c -> grows a c.
Proof. intros [A1 A2] [B1 B2]. split; [auto|congruence]. Qed.
Lemma grows_set_node d k nd : grows d (set_node d k nd).
Proof. split; [|reflexivity]. intros z Hz. apply exn_set_node. auto. Qed.
Lemma grows_q d d' : d_nodes d' = d_nodes d -> d_torun d' = d_torun d -> grows d d'.
Proof. intros E T. split; auto. intros z. unfold exn. rewrite E. auto. Qed.

Lemma gen_node_grows d pa k : grows d (snd (gen_node d pa k)).
Proof.
  unfold Dispatch.gen_node. destruct (d_nodes d k).
  - destruct pa as [a|]; [destruct (mem k a)|]; apply grows_refl.
  - simpl. apply grows_set_node.
Qed.

Lemma add_wait_one_grows d me x calc : grows d (add_wait_one d me x calc).
Proof.
  unfold Dispatch.add_wait_one. destruct (unfinished (Dispatch.st_of tasks d x)).
  - eapply grows_trans; apply grows_set_node.
  - apply grows_set_node.
Qed.
Lemma add_wait_run_grows l : forall d me calc, grows d (add_wait_run d me l calc).
Proof.
  induction l as [|x r IH]; intros d me calc; cbn [Dispatch.add_wait_run]; [apply grows_refl|].
  eapply grows_trans; [apply add_wait_one_grows|apply IH].
Qed.
Lemma set_pc_grows d me p : grows d (set_pc d me p).
Proof. unfold Dispatch.set_pc. apply grows_set_node. Qed.

Lemma gen_step_grows fuel : forall d me, grows d (snd (gen_step fuel d me)).
Proof.
  induction fuel as [|fuel IH]; intros d me; cbn [Dispatch.gen_step]; [apply grows_refl|].
  assert (Hchild : forall c (p' : pc),
    grows d (snd (match gen_node d (Some (n_anc (node_of d me))) c with
                  | (GCycle, _) => (YCycle (n_anc (node_of d me) ++ [c]), d)
                  | (GNew, d1) => (YNode c, set_pc d1 me p')
                  | (GOld, d1) => gen_step fuel (set_pc d1 me p') me end))).
  { intros c p'. pose proof (gen_node_grows d (Some (n_anc (node_of d me))) c) as G.
    destruct (gen_node d (Some (n_anc (node_of d me))) c) as [[| |] d1]; simpl in *.
    - eapply grows_trans; [exact G|apply set_pc_grows].
    - eapply grows_trans; [exact G|]. eapply grows_trans; [apply set_pc_grows|apply IH].
    - apply grows_refl. }
  destruct (n_pc (node_of d me)) as [|rest calcs tks|rest tks| | | |rest| |].
  - eapply grows_trans; [apply grows_set_node|apply IH].
  - destruct rest as [|c r]; [|apply Hchild].
    eapply grows_trans; [apply add_wait_run_grows|]. eapply grows_trans; [apply set_pc_grows|apply IH].
  - destruct rest as [|c r]; [|apply Hchild].
    set (d1 := add_wait_run d me tks false).
    assert (G1 : grows d d1) by apply add_wait_run_grows.
    destruct (negb (is_nil (n_pend_calc (node_of d1 me))) || negb (is_nil (n_pend_task (node_of d1 me)))).
    + eapply grows_trans; [exact G1|]. eapply grows_trans; [apply set_pc_grows|apply IH].
    + destruct (negb (is_nil (n_wrun (node_of d1 me))) || negb (is_nil (n_wcalc (node_of d1 me)))).
      * simpl. eapply grows_trans; [exact G1|apply set_pc_grows].
      * eapply grows_trans; [exact G1|]. eapply grows_trans; [apply set_pc_grows|apply IH].
  - simpl. apply set_pc_grows.
  - destruct (is_nil (t_setup (get_task me))); [simpl; apply set_pc_grows|].
    destruct (n_st (node_of d me)); try (eapply grows_trans; [apply set_pc_grows|apply IH]).
    simpl. apply grows_set_node.
  - destruct (n_st (node_of d me)); try (simpl; apply set_pc_grows).
    eapply grows_trans; [apply set_pc_grows|apply IH].
  - destruct rest as [|c r]; [|apply Hchild].
    set (d1 := add_wait_run d me (t_setup (get_task me)) false).
    assert (G1 : grows d d1) by apply add_wait_run_grows.
    destruct (is_nil (n_wrun (node_of d1 me))); simpl; (eapply grows_trans; [exact G1|apply set_pc_grows]).
  - simpl. apply set_pc_grows.
  - simpl. apply grows_refl.
Qed.

Lemma wake_one_grows d fin fs w : grows d (wake_one tasks d fin fs w).
Proof.
  unfold Dispatch.wake_one. set (d1 := set_node d w _).
  assert (G1 : grows d d1) by apply grows_set_node.
  destruct (wake_ready _ _ _ && mem w (d_waiting d1)); [|exact G1].
  eapply grows_trans; [exact G1|]. apply grows_q; reflexivity.
Qed.
Lemma wake_grows l : forall d fin fs, grows d (wake tasks d fin fs l).
Proof.
  induction l as [|w r IH]; intros d fin fs; simpl; [apply grows_refl|].
  eapply grows_trans; [apply wake_one_grows|apply IH].
Qed.
Lemma update_waiting_grows d p : grows d (update_waiting tasks wake_rank d p).
Proof.
  unfold Dispatch.update_waiting. destruct p as [p|]; [|apply grows_refl].
  set (np := node_of d p).
  assert (G1 : grows d (if n_wsel np then
                          let d0 := set_node d p (nd_wsel np false) in
                          set_waiting (set_ready d0 (d_ready d0 ++ [p])) (rem p (d_waiting d0))
                        else d)).
  { destruct (n_wsel np); [|apply grows_refl]. cbv zeta.
    eapply grows_trans; [apply grows_set_node|]. apply grows_q; reflexivity. }
  destruct (n_st np); auto; (eapply grows_trans; [exact G1|apply wake_grows]).
Qed.

(* a name is accounted for: still to be taken from tasks_to_run, or it has a node *)
Definition seen (d : dstate) (x : name) : Prop := In x (d_torun d) \/ exn d x.
Lemma seen_grows d d' x : grows d d' -> seen d x -> seen d' x.
Proof. intros [A B] [H|H]; [left; rewrite B; exact H|right; auto]. Qed.

Lemma next_from_torun_seen l : forall d o d',
  next_from_torun tasks d l = (o, d') ->
  (forall z, exn d z -> exn d' z) /\ (forall x, In x l -> In x (d_torun d') \/ exn d' x) /\
  (o = None -> d_torun d' = []).
Proof.
  induction l as [|x r IH]; intros d o d' E; simpl in E.
  - inversion E; subst. split; [auto|]. split; [intros x []|reflexivity].
  - pose proof (gen_node_grows d None x) as [G _].
    assert (Hx : exn (snd (gen_node d None x)) x).
    { unfold Dispatch.gen_node. destruct (d_nodes d x) eqn:Ex; simpl.
      - unfold exn. rewrite Ex. discriminate.
      - apply exn_set_node. auto. }
    destruct (gen_node d None x) as [[| |] d1]; simpl in *.
    + inversion E; subst. split; [exact G|]. split; [|discriminate].
      intros y [<-|Hy]; [right; exact Hx|left; exact Hy].
    + destruct (IH d1 o d' E) as (A & B & C). split; [auto|]. split; [|exact C].
      intros y [<-|Hy]; [right; apply A; exact Hx|apply B; exact Hy].
    + destruct (IH d1 o d' E) as (A & B & C). split; [auto|]. split; [|exact C].
      intros y [<-|Hy]; [right; apply A; exact Hx|apply B; exact Hy].
Qed.

Lemma disp_run_seen fuel : forall d y d',
  disp_run tasks calc_rank fuel d = (y, d') ->
  (forall x, seen d x -> seen d' x) /\ (y = DStop -> d_torun d' = []).
Proof.
  induction fuel as [|fuel IH]; intros d y d' E; cbn [Dispatch.disp_run] in E.
  { inversion E; subst. split; [auto|discriminate]. }
  destruct (d_cur d) as [me|].
  - pose proof (gen_step_grows (S (S fuel)) d me) as G.
    destruct (gen_step (S (S fuel)) d me) as [g d1]. simpl in G.
    assert (Hrec : forall dq, d_nodes dq = d_nodes d1 -> d_torun dq = d_torun d1 ->
              disp_run tasks calc_rank fuel dq = (y, d') ->
              (forall x, seen d x -> seen d' x) /\ (y = DStop -> d_torun d' = [])).
    { intros dq En Et Eq. destruct (IH dq y d' Eq) as [A B]. split; auto.
      intros x Hx. apply A. eapply seen_grows; [|eapply seen_grows; [exact G|exact Hx]]. apply grows_q; auto. }
    destruct g; try (eapply Hrec; [| |exact E]; reflexivity);
      inversion E; subst; (split; [intros x Hx; eapply seen_grows; eauto|discriminate]).
  - destruct (d_ready d) as [|x r].
    + destruct (next_from_torun tasks d (d_torun d)) as [o d1] eqn:En.
      destruct (next_from_torun_seen _ _ _ _ En) as (A & B & C).
      assert (S1 : forall x, seen d x -> seen d1 x) by (intros x [Hx|Hx]; [apply B; exact Hx|right; auto]).
      destruct o as [x|].
      * destruct (IH _ y d' E) as [A' B']. split; auto. intros z Hz. apply A'. apply S1 in Hz. exact Hz.
      * destruct (is_nil (d_waiting d1)); inversion E; subst; (split; [exact S1|]); auto; try discriminate.
    + destruct (IH _ y d' E) as [A B]. split; auto.
Qed.

Lemma set_status_grows d k s : grows d (set_status d k s).
Proof. unfold Runner.set_status. apply grows_set_node. Qed.

Lemma select_task_grows r k b r1 d0 :
  grows d0 (r_d r) -> select_task tasks continue_ always r k = (b, r1) -> grows d0 (r_d r1).
Proof.
  apply (select_task_pres tasks continue_ always (fun r0 => grows d0 (r_d r0)) k).
  - intros r0 s H. simpl. eapply grows_trans; [exact H|apply set_status_grows].
  - intros r0 e H _. exact H.
  - intros r0 kd H. unfold handle_error, handle_error_gen. simpl. eapply grows_trans; [exact H|apply set_status_grows].
Qed.
Lemma process_result_grows r k : grows (r_d r) (r_d (process_result tasks continue_ r k)).
Proof.
  unfold process_result, handle_error, handle_error_gen.
  destruct (t_outcome (get_task k)); simpl; try apply set_status_grows; apply grows_refl.
Qed.

(* a final status always comes with a final report *)
Definition Lk (r : rstate) : Prop := forall x, unfinished (st_of (r_d r) x) = false -> finished_in (r_tr r) x.

Lemma finished_in_app_l tr evs x : finished_in tr x -> finished_in (tr ++ evs) x.
Proof. unfold finished_in. rewrite existsb_app. intros ->. reflexivity. Qed.
Lemma finished_in_app_r tr evs x : finished_in evs x -> finished_in (tr ++ evs) x.
Proof. unfold finished_in. rewrite existsb_app. intros ->. apply orb_true_r. Qed.

(* set the status of k to s and report with evs, one step *)
Lemma Lk_step r k s evs r1 :
  Lk r -> st_of (r_d r1) k = s -> (forall x, x <> k -> st_of (r_d r1) x = st_of (r_d r) x) ->
  r_tr r1 = r_tr r ++ evs -> (unfinished s = false -> finished_in evs k) -> Lk r1.
Proof.
  intros L Hk Ho Ht Hf x Hx. rewrite Ht. destruct (N.eqb_spec x k) as [->|Hne].
  - rewrite Hk in Hx. apply finished_in_app_r. apply Hf. exact Hx.
  - rewrite Ho in Hx by auto. apply finished_in_app_l. apply L. exact Hx.
Qed.

Lemma st_set2 d k s1 s2 x : st_of (set_status (set_status d k s1) k s2) x = if N.eqb x k then s2 else st_of d x.
Proof. rewrite !set_status_st. destruct (N.eqb x k); reflexivity. Qed.

Lemma select_task_Lk r k b r1 : Lk r -> select_task tasks continue_ always r k = (b, r1) -> Lk r1.
Proof.
  intros L. unfold select_task, get_args, handle_error, handle_error_gen, emit.
  destruct (n_st (node_of (r_d r) k)) eqn:Est;
    repeat match goal with
    | |- context [if ?c then _ else _] => destruct c eqn:?
    | |- context [match t_check ?t with _ => _ end] => destruct (t_check t) eqn:?
    end;
    intros E; inversion E; subst; clear E;
    try exact L;
    try (unfold Lk; intros x Hx; cbn [r_d r_tr with_d] in *; rewrite ?st_set2, ?set_status_st in Hx;
         destruct (N.eqb_spec x k) as [E0|Hne];
         [try discriminate; subst x; unfold finished_in; rewrite ?existsb_app; simpl; rewrite N.eqb_refl; simpl; rewrite ?orb_true_r; reflexivity
         |rewrite <- ?app_assoc; apply finished_in_app_l; apply L; exact Hx]).
Qed.

Lemma process_result_Lk r k : Lk r -> Lk (process_result tasks continue_ r k).
Proof.
  intros L. unfold process_result, handle_error, handle_error_gen, emit.
  destruct (t_outcome (get_task k)); try exact L;
    (unfold Lk; intros x Hx; cbn [r_d r_tr with_d] in *; rewrite set_status_st in Hx;
     destruct (N.eqb_spec x k) as [E0|Hne];
     [subst x; unfold finished_in; rewrite existsb_app; simpl; rewrite N.eqb_refl; simpl; rewrite ?orb_true_r; reflexivity
     |apply finished_in_app_l; apply L; exact Hx]).
Qed.

Lemma serial_C fuel : forall r last r' s sel,
  HI last (r_d r) -> PS None (r_d r) -> Lk r -> (forall x, In x sel -> seen (r_d r) x) ->
  serial tasks wake_rank calc_rank continue_ always fuel r last = (r', s) ->
  s = StopNormal -> r_stop r' = false ->
  (forall x, exn (r_d r') x -> unfinished (st_of (r_d r') x) = false /\ finished_in (r_tr r') x) /\
  (forall x, In x sel -> exn (r_d r') x).
Proof.
  induction fuel as [|fuel IH]; intros r last r' s sel H P L Hs E Es Hstop; cbn [Runner.serial] in E.
  { inversion E; subst. discriminate. }
  destruct (r_stop r) eqn:Er. { inversion E; subst. simpl in Hstop. congruence. }
  destruct (disp_send tasks wake_rank calc_rank (S fuel) (r_d r) last) as [y d] eqn:Ed.
  unfold Dispatch.disp_send in Ed.
  destruct (update_waiting_H tasks wake_rank calc_rank (r_d r) last H) as (H0 & S0 & _).
  pose proof (disp_run_H tasks wake_rank calc_rank _ _ _ _ H0 (PS_same tasks _ _ _ S0 P) Ed) as G.
  destruct (disp_run_seen _ _ _ _ Ed) as [Hseen Htr].
  assert (Hs1 : forall x, In x sel -> seen d x).
  { intros x Hx. apply Hseen. eapply seen_grows; [apply update_waiting_grows|]. apply Hs. exact Hx. }
  assert (Est : forall x, st_of d x = st_of (r_d r) x).
  { intros x. pose proof (disp_send_st tasks wake_rank calc_rank (S fuel) (r_d r) last x) as Q.
    unfold Dispatch.disp_send in Q. rewrite Ed in Q. exact Q. }
  assert (L0 : Lk (with_d r d)) by (intros x Hx; simpl in *; rewrite Est in Hx; apply L; exact Hx).
  destruct y as [k| | |path|]; try (inversion E; subst; discriminate).
  - destruct G as (H1 & P1 & C1).
    set (p0 := n_pc (node_of d k)).
    assert (R0 : RH tasks k p0 (with_d r d)).
    { split; [apply HI_strengthen; exact H1|]. split; [exact C1|]. split; [|reflexivity].
      intros me Hne. apply (p_all _ _ _ P1). congruence. }
    pose proof (p_exc _ _ _ P1 k eq_refl) as Hp0. fold p0 in Hp0.
    destruct (select_task tasks continue_ always (with_d r d) k) as [b r1] eqn:Esel.
    pose proof (select_task_RH tasks wake_rank calc_rank continue_ always k p0 _ _ _ R0 Esel) as R1.
    pose proof (select_task_Lk _ _ _ _ L0 Esel) as L1.
    assert (G1 : grows d (r_d r1)) by (eapply select_task_grows; [|exact Esel]; apply grows_refl).
    destruct b.
    + destruct (is_interrupt tasks k) eqn:Ei. { inversion E; subst. discriminate. }
      assert (R2 : RH tasks k p0 (start_task tasks r1 k)) by exact R1.
      pose proof (process_result_RH tasks wake_rank calc_rank continue_ k p0 _ R2) as R3.
      pose proof (process_result_final tasks continue_ (start_task tasks r1 k) k Ei) as F3.
      destruct R3 as (H3 & C3 & S3).
      eapply (IH _ _ _ _ sel); [exact H3| | | |exact E|exact Es|exact Hstop].
      * apply (PS_of_PSo tasks k p0); auto. unfold pstn. destruct S3 as [_ ->].
        unfold Dispatch.st_of in F3.
        destruct Hp0 as [->|[-> _]]; [|exact F3]. split; [|intros _; exact F3].
        intros E0. rewrite E0 in F3. discriminate.
      * apply process_result_Lk. intros x Hx. unfold start_task. simpl. apply finished_in_app_l. apply L1. exact Hx.
      * intros x Hx. eapply seen_grows; [apply process_result_grows|]. unfold start_task. simpl.
        eapply seen_grows; [exact G1|]. apply Hs1. exact Hx.
    + destruct (select_false_st tasks continue_ always _ _ _ Esel) as [F1 F2]. destruct R1 as (H3 & C3 & S3).
      eapply (IH _ _ _ _ sel); [exact H3| |exact L1| |exact E|exact Es|exact Hstop].
      * apply (PS_of_PSo tasks k p0); auto. unfold pstn. destruct S3 as [_ ->].
        destruct Hp0 as [->|[-> Hn]]; [split; [exact F1|intros En; apply F2; left; exact En]|].
        apply F2. right. exact Hn.
      * intros x Hx. eapply seen_grows; [exact G1|]. apply Hs1. exact Hx.
  - (* the dispatcher is exhausted *)
    inversion E; subst. destruct G as (H1 & C1 & R1 & W1).
    assert (Hfin : forall x, exn d x -> unfinished (st_of d x) = false).
    { intros x Hx. destruct (unfinished (st_of d x)) eqn:Eu; auto. exfalso.
      destruct (h_loc _ _ _ H1 x Hx Eu) as [A|[A|A]].
      - rewrite R1 in A. destruct A.
      - rewrite W1 in A. destruct A.
      - rewrite C1 in A. discriminate. }
    split.
    + intros x Hx. simpl in Hx. split; [apply Hfin; exact Hx|].
      unfold finish, emit. simpl. apply finished_in_app_l. apply L0. simpl. apply Hfin. exact Hx.
    + intros x Hx. simpl. destruct (Hs1 x Hx) as [A|A]; auto. rewrite (Htr eq_refl) in A. destruct A.
Qed.

Lemma Lk_init sel : Lk (r_init sel).
Proof. intros x Hx. simpl in Hx. discriminate. Qed.

(* a serial run that ends because the dispatcher has nothing left (no failure stopped it, no interrupt,
   no cycle, not out of fuel): every selected task, and every task the run created a node for, has a
   final status and a final report *)
Theorem serial_complete fuel sel r' :
  serial tasks wake_rank calc_rank continue_ always fuel (r_init sel) None = (r', StopNormal) ->
  r_stop r' = false ->
  (forall x, In x sel -> finished_in (r_tr r') x) /\
  (forall x, exn (r_d r') x -> finished_in (r_tr r') x).
Proof.
  intros E Hstop.
  destruct (serial_C fuel (r_init sel) None r' StopNormal sel) as [A B]; auto.
  - apply HI_init.
  - apply PS_init.
  - apply Lk_init.
  - intros x Hx. left. exact Hx.
  - split; [intros x Hx; apply A; apply B; exact Hx|intros x Hx; apply A; exact Hx].
Qed.

(* with --continue the stop flag is never set *)
Lemma select_task_stop r k b r1 : continue_ = true -> select_task tasks continue_ always r k = (b, r1) -> r_stop r1 = r_stop r.
Proof.
  intros Hc. apply (select_task_pres tasks continue_ always (fun r0 => r_stop r0 = r_stop r) k); auto.
  intros r0 kd H. unfold handle_error, handle_error_gen. simpl. rewrite Hc. exact H.
Qed.
Lemma process_result_stop r k : continue_ = true -> r_stop (process_result tasks continue_ r k) = r_stop r.
Proof.
  intros Hc. unfold process_result, handle_error, handle_error_gen.
  destruct (t_outcome (get_task k)); simpl; rewrite ?Hc; reflexivity.
Qed.
Lemma serial_stop_continue fuel : forall r last r' s,
  continue_ = true -> r_stop r = false ->
  serial tasks wake_rank calc_rank continue_ always fuel r last = (r', s) -> r_stop r' = false.
Proof.
  induction fuel as [|fuel IH]; intros r last r' s Hc Hr E; cbn [Runner.serial] in E.
  { inversion E; subst. exact Hr. }
  rewrite Hr in E.
  destruct (disp_send tasks wake_rank calc_rank (S fuel) (r_d r) last) as [y d].
  destruct y as [k| | |path|]; try (inversion E; subst; exact Hr).
  destruct (select_task tasks continue_ always (with_d r d) k) as [b r1] eqn:Esel.
  pose proof (select_task_stop _ _ _ _ Hc Esel) as S1. simpl in S1.
  destruct b.
  - destruct (is_interrupt tasks k). { inversion E; subst. simpl. congruence. }
    eapply IH; [exact Hc| |exact E]. rewrite process_result_stop by auto. simpl. congruence.
  - eapply IH; [exact Hc| |exact E]. congruence.
Qed.

(* the result code of the runner is 0, 1 or 2; while it is 0 the stop flag is not set *)
Definition FI (r : rstate) : Prop := (r_final r <= 2) /\ (r_final r = 0 -> r_stop r = false).
Lemma select_task_FI r k b r1 : FI r -> select_task tasks continue_ always r k = (b, r1) -> FI r1.
Proof.
  apply (select_task_pres tasks continue_ always FI k); auto.
  intros r0 kd [A B]. unfold handle_error, handle_error_gen, FI. simpl.
  destruct ((kd =? kind_failed) && negb (r_final r0 =? 2)); split; try lia; intros; discriminate.
Qed.
Lemma process_result_FI r k : FI r -> FI (process_result tasks continue_ r k).
Proof.
  intros [A B]. unfold process_result, handle_error, handle_error_gen, FI.
  destruct (t_outcome (get_task k)); simpl; auto;
    match goal with |- context [if ?c then _ else _] => destruct c end; split; try lia; intros; discriminate.
Qed.
Lemma serial_FI fuel : forall r last r' s,
  FI r -> serial tasks wake_rank calc_rank continue_ always fuel r last = (r', s) -> FI r'.
Proof.
  induction fuel as [|fuel IH]; intros r last r' s H E; cbn [Runner.serial] in E.
  { inversion E; subst. exact H. }
  destruct (r_stop r). { inversion E; subst. exact H. }
  destruct (disp_send tasks wake_rank calc_rank (S fuel) (r_d r) last) as [y d].
  destruct y as [k| | |path|]; try (inversion E; subst; exact H).
  destruct (select_task tasks continue_ always (with_d r d) k) as [b r1] eqn:Esel.
  assert (H1 : FI r1) by (eapply select_task_FI; [|exact Esel]; exact H).
  destruct b.
  - destruct (is_interrupt tasks k). { inversion E; subst. exact H1. }
    eapply IH; [|exact E]. apply process_result_FI. exact H1.
  - eapply IH; [exact H1|exact E].
Qed.

(* exit code 0: nothing failed, nothing stopped the run: every selected task was reported *)
Theorem run_serial_complete_success fuel sel :
  snd (run_serial tasks wake_rank calc_rank continue_ always fuel sel) = 0 ->
  forall x, In x sel -> finished_in (fst (run_serial tasks wake_rank calc_rank continue_ always fuel sel)) x.
Proof.
  unfold run_serial.
  destruct (serial tasks wake_rank calc_rank continue_ always fuel (r_init sel) None) as [r' s] eqn:E.
  simpl. intros Hc x Hx.
  assert (F : FI r') by (eapply serial_FI; [|exact E]; split; simpl; [lia|reflexivity]).
  destruct s; simpl in Hc; try discriminate.
  destruct (serial_complete fuel sel r' E (proj2 F Hc)) as [A _].
  apply finished_in_app_l. apply A. exact Hx.
Qed.

(* with --continue: whatever failed, unless the run ended with a cycle diagnostic (3), an interrupt (4) or
   out of fuel (99), every selected task was reported *)
Theorem run_serial_complete_continue fuel sel :
  continue_ = true ->
  snd (run_serial tasks wake_rank calc_rank continue_ always fuel sel) <= 2 ->
  forall x, In x sel -> finished_in (fst (run_serial tasks wake_rank calc_rank continue_ always fuel sel)) x.
Proof.
  unfold run_serial. intros Hcont.
  destruct (serial tasks wake_rank calc_rank continue_ always fuel (r_init sel) None) as [r' s] eqn:E.
  simpl. intros Hc x Hx.
  assert (Hstop : r_stop r' = false) by (eapply serial_stop_continue; [exact Hcont| |exact E]; reflexivity).
  destruct s; simpl in Hc; try lia.
  destruct (serial_complete fuel sel r' E Hstop) as [A _].
  apply finished_in_app_l. apply A. exact Hx.
Qed.

End C.
