(* DispatchP.v -- basic facts about Model/Dispatch.v: the dispatcher never changes a run_status. *)
From DoitV Require Import Base Dispatch.
Open Scope N_scope.

(* ---------- sort_by is a permutation ---------- *)
Lemma insert_by_In rank x y l : In y (insert_by rank x l) <-> y = x \/ In y l.
Proof.
  induction l as [|z r IH]; simpl.
  - intuition auto.
  - destruct (rank x <? rank z); simpl; rewrite ?IH; intuition auto.
Qed.
Lemma sort_by_In rank y l : In y (sort_by rank l) <-> In y l.
Proof.
  induction l as [|z r IH]; simpl; [tauto|].
  rewrite insert_by_In, IH. intuition auto.
Qed.


Section P.
Variable tasks : name -> option task.
Variable wake_rank : name -> name -> N.
Variable calc_rank : name -> N.

Notation node_of := (node_of tasks).
Notation st_of := (st_of tasks).
Notation gen_node := (gen_node tasks).
Notation add_wait_one := (add_wait_one tasks).
Notation add_wait_run := (add_wait_run tasks).
Notation process_calc := (process_calc tasks).
Notation gen_step := (gen_step tasks calc_rank).
Notation wake_one := (wake_one tasks).
Notation wake := (wake tasks).
Notation update_waiting := (update_waiting tasks wake_rank).
Notation next_from_torun := (next_from_torun tasks).
Notation disp_run := (disp_run tasks calc_rank).
Notation disp_send := (disp_send tasks wake_rank calc_rank).

(* ---------- node lookup ---------- *)
Lemma node_of_set_same d k nd : node_of (set_node d k nd) k = nd.
Proof. unfold Dispatch.node_of, set_node; simpl. rewrite upd_same. reflexivity. Qed.
Lemma node_of_set_other d k nd x : x <> k -> node_of (set_node d k nd) x = node_of d x.
Proof. intros H. unfold Dispatch.node_of, set_node; simpl. rewrite upd_other; auto. Qed.
Lemma nodes_set_same d k nd : d_nodes (set_node d k nd) k = Some nd.
Proof. unfold set_node; simpl. apply upd_same. Qed.
Lemma nodes_set_other d k nd x : x <> k -> d_nodes (set_node d k nd) x = d_nodes d x.
Proof. intros H. unfold set_node; simpl. apply upd_other; auto. Qed.

Lemma st_set_node d k nd x :
  st_of (set_node d k nd) x = if N.eqb x k then n_st nd else st_of d x.
Proof.
  unfold Dispatch.st_of. destruct (N.eqb_spec x k) as [->|Hne].
  - rewrite node_of_set_same. reflexivity.
  - rewrite node_of_set_other; auto.
Qed.

Lemma st_set_node_same_st d k nd x :
  n_st nd = st_of d k -> st_of (set_node d k nd) x = st_of d x.
Proof. intros H. rewrite st_set_node. destruct (N.eqb_spec x k); subst; auto. Qed.

(* queue-only updates *)
Lemma st_set_ready d r x : st_of (set_ready d r) x = st_of d x. Proof. reflexivity. Qed.
Lemma st_set_waiting d r x : st_of (set_waiting d r) x = st_of d x. Proof. reflexivity. Qed.
Lemma st_set_torun d r x : st_of (set_torun d r) x = st_of d x. Proof. reflexivity. Qed.
Lemma st_set_cur d r x : st_of (set_cur d r) x = st_of d x. Proof. reflexivity. Qed.

Lemma parent_status_st nd dep s : n_st (parent_status nd dep s) = n_st nd.
Proof. destruct s; reflexivity. Qed.
Lemma process_calc_st nd c s : n_st (process_calc nd c s) = n_st nd.
Proof. unfold Dispatch.process_calc. destruct (calc_values_visible s); reflexivity. Qed.

(* ---------- the dispatcher never changes a status ---------- *)
Lemma gen_node_st d pa k x : st_of (snd (gen_node d pa k)) x = st_of d x.
Proof.
  unfold Dispatch.gen_node. destruct (d_nodes d k) eqn:E.
  - destruct pa as [a|]; [destruct (mem k a)|]; reflexivity.
  - simpl. rewrite st_set_node. destruct (N.eqb_spec x k) as [->|]; auto.
    unfold Dispatch.st_of, Dispatch.node_of. rewrite E. reflexivity.
Qed.

Lemma add_wait_one_st d me y calc x : st_of (add_wait_one d me y calc) x = st_of d x.
Proof.
  unfold Dispatch.add_wait_one. destruct (unfinished (st_of d y)).
  - set (d1 := set_node d y _).
    assert (H1 : forall z, st_of d1 z = st_of d z)
      by (intro z; apply st_set_node_same_st; reflexivity).
    rewrite st_set_node_same_st; [apply H1|].
    destruct calc; reflexivity.
  - apply st_set_node_same_st. destruct calc; rewrite ?process_calc_st, parent_status_st; reflexivity.
Qed.

Lemma add_wait_run_st l : forall d me calc x, st_of (add_wait_run d me l calc) x = st_of d x.
Proof.
  induction l as [|y r IH]; intros d me calc x; cbn [Dispatch.add_wait_run]; auto.
  rewrite IH. apply add_wait_one_st.
Qed.

Lemma set_pc_st d me p x : st_of (set_pc tasks d me p) x = st_of d x.
Proof. unfold set_pc. apply st_set_node_same_st. reflexivity. Qed.

Lemma gen_step_st fuel : forall d me x, st_of (snd (gen_step fuel d me)) x = st_of d x.
Proof.
  induction fuel as [|fuel IH]; intros d me x; cbn [Dispatch.gen_step]; auto.
  destruct (n_pc (node_of d me)) as [|rest calcs tks|rest tks| | | |rest| |] eqn:Epc.
  - rewrite IH. apply st_set_node_same_st. reflexivity.
  - destruct rest as [|c r].
    + rewrite IH, set_pc_st, add_wait_run_st. reflexivity.
    + destruct (gen_node d (Some (n_anc (node_of d me))) c) as [g d1] eqn:Eg.
      assert (Hd1 : forall y, st_of d1 y = st_of d y)
        by (intro y; change d1 with (snd (g, d1)); rewrite <- Eg; apply gen_node_st).
      destruct g; simpl; auto.
      * rewrite set_pc_st; auto.
      * rewrite IH, set_pc_st; auto.
  - destruct rest as [|c r].
    + destruct (negb (is_nil (n_pend_calc _)) || negb (is_nil (n_pend_task _))).
      * rewrite IH, set_pc_st, add_wait_run_st. reflexivity.
      * destruct (negb (is_nil (n_wrun _)) || negb (is_nil (n_wcalc _))); simpl.
        -- rewrite set_pc_st, add_wait_run_st. reflexivity.
        -- rewrite IH, set_pc_st, add_wait_run_st. reflexivity.
    + destruct (gen_node d (Some (n_anc (node_of d me))) c) as [g d1] eqn:Eg.
      assert (Hd1 : forall y, st_of d1 y = st_of d y)
        by (intro y; change d1 with (snd (g, d1)); rewrite <- Eg; apply gen_node_st).
      destruct g; simpl; auto.
      * rewrite set_pc_st; auto.
      * rewrite IH, set_pc_st; auto.
  - simpl. apply set_pc_st.
  - destruct (is_nil (t_setup (get_task tasks me))); simpl; [apply set_pc_st|].
    destruct (n_st (node_of d me)) eqn:Est; simpl;
      try (rewrite IH; apply set_pc_st).
    apply st_set_node_same_st. simpl. unfold Dispatch.st_of. auto.
  - destruct (n_st (node_of d me)); simpl; try apply set_pc_st.
    rewrite IH. apply set_pc_st.
  - destruct rest as [|c r].
    + destruct (is_nil (n_wrun _)); simpl; rewrite set_pc_st, add_wait_run_st; reflexivity.
    + destruct (gen_node d (Some (n_anc (node_of d me))) c) as [g d1] eqn:Eg.
      assert (Hd1 : forall y, st_of d1 y = st_of d y)
        by (intro y; change d1 with (snd (g, d1)); rewrite <- Eg; apply gen_node_st).
      destruct g; simpl; auto.
      * rewrite set_pc_st; auto.
      * rewrite IH, set_pc_st; auto.
  - simpl. apply set_pc_st.
  - reflexivity.
Qed.

Lemma wake_node_st nd fin fs : n_st (wake_node tasks nd fin fs) = n_st nd.
Proof.
  unfold wake_node. destruct (mem fin (n_wcalc nd)); rewrite ?process_calc_st; simpl; apply parent_status_st.
Qed.

Lemma wake_one_st d fin fs w x : st_of (wake_one d fin fs w) x = st_of d x.
Proof.
  unfold Dispatch.wake_one.
  destruct (_ && _); rewrite ?st_set_waiting, ?st_set_ready; apply st_set_node_same_st; apply wake_node_st.
Qed.

Lemma wake_st l : forall d fin fs x, st_of (wake d fin fs l) x = st_of d x.
Proof.
  induction l as [|w r IH]; intros; cbn [Dispatch.wake]; auto.
  rewrite IH. apply wake_one_st.
Qed.

Lemma update_waiting_st d p x : st_of (update_waiting d p) x = st_of d x.
Proof.
  destruct p as [p|]; cbn [Dispatch.update_waiting]; auto.
  set (d1 := if n_wsel (node_of d p) then _ else d).
  assert (H1 : forall y, st_of d1 y = st_of d y).
  { intro y. unfold d1. destruct (n_wsel (node_of d p)); auto.
    rewrite st_set_waiting, st_set_ready. apply st_set_node_same_st. reflexivity. }
  destruct (n_st (node_of d p)); rewrite ?wake_st; apply H1.
Qed.

Lemma next_from_torun_st l : forall d x, st_of (snd (next_from_torun d l)) x = st_of d x.
Proof.
  induction l as [|y r IH]; intros d x; cbn [Dispatch.next_from_torun]; auto.
  destruct (gen_node d None y) as [g d1] eqn:Eg.
  assert (Hd1 : forall z, st_of d1 z = st_of d z)
    by (intro z; change d1 with (snd (g, d1)); rewrite <- Eg; apply gen_node_st).
  destruct g; simpl; rewrite ?IH, ?st_set_torun; auto.
Qed.

Lemma disp_run_st fuel : forall d x, st_of (snd (disp_run fuel d)) x = st_of d x.
Proof.
  induction fuel as [|fuel IH]; intros d x; cbn [Dispatch.disp_run]; auto.
  destruct (d_cur d) as [me|].
  - destruct (gen_step (S (S fuel)) d me) as [y d1] eqn:Eg.
    assert (Hd1 : forall z, st_of d1 z = st_of d z)
      by (intro z; change d1 with (snd (y, d1)); rewrite <- Eg; apply gen_step_st).
    destruct y; simpl; rewrite ?IH, ?st_set_cur, ?st_set_waiting, ?st_set_ready; auto.
  - destruct (d_ready d) as [|r rs].
    + destruct (next_from_torun d (d_torun d)) as [o d1] eqn:En.
      assert (Hd1 : forall z, st_of d1 z = st_of d z)
        by (intro z; change d1 with (snd (o, d1)); rewrite <- En; apply next_from_torun_st).
      destruct o; [rewrite IH, st_set_cur; auto|]. destruct (is_nil (d_waiting d1)); simpl; auto.
    + rewrite IH. reflexivity.
Qed.

Theorem disp_send_st fuel d p x : st_of (snd (disp_send fuel d p)) x = st_of d x.
Proof. unfold Dispatch.disp_send. rewrite disp_run_st. apply update_waiting_st. Qed.

End P.
