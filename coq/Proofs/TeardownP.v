(* TeardownP.v -- proofs about Model/Teardown.v: the outcome of a teardown action influences nothing outside
   its own task's teardown.  Statements used by Properties/C11.v. *)
From DoitV Require Import Base Dispatch Runner Parallel Teardown.

(* ---- the projections distribute over concatenation ---- *)
Lemma td_reports_app a b : td_reports (a ++ b) = td_reports a ++ td_reports b.
Proof. unfold td_reports. apply flat_map_app. Qed.
Lemma td_acts_of_app k a b : td_acts_of k (a ++ b) = td_acts_of k a ++ td_acts_of k b.
Proof. unfold td_acts_of. apply flat_map_app. Qed.
Lemma td_cleanups_app a b : td_cleanups (a ++ b) = td_cleanups a ++ td_cleanups b.
Proof. unfold td_cleanups. apply flat_map_app. Qed.

(* ---- Task.execute_teardown ---- *)
Lemma exec_reports k acts : forall j, td_reports (fst (exec_teardown k j acts)) = [].
Proof. induction acts as [|a rest IH]; intro j; simpl; auto. destruct (td_is_ok a); simpl; auto. Qed.

Lemma exec_cleanups k acts : forall j, td_cleanups (fst (exec_teardown k j acts)) = [].
Proof. induction acts as [|a rest IH]; intro j; simpl; auto. destruct (td_is_ok a); simpl; auto. Qed.

Lemma exec_acts_same k acts : forall j, td_acts_of k (fst (exec_teardown k j acts)) = seq j (td_ran acts).
Proof.
  induction acts as [|a rest IH]; intro j; simpl; auto.
  destruct (td_is_ok a); simpl; rewrite N.eqb_refl; simpl; [rewrite IH|]; reflexivity.
Qed.

Lemma exec_acts_other k k' acts : k <> k' -> forall j, td_acts_of k' (fst (exec_teardown k j acts)) = [].
Proof.
  intro Hn. apply N.eqb_neq in Hn.
  induction acts as [|a rest IH]; intro j; simpl; auto.
  destruct (td_is_ok a); simpl; rewrite Hn; simpl; auto.
Qed.

Lemma exec_failed k acts : forall j, snd (exec_teardown k j acts) = negb (forallb td_is_ok acts).
Proof. induction acts as [|a rest IH]; intro j; simpl; auto. destruct (td_is_ok a); simpl; auto. Qed.

(* ---- one task's teardown ---- *)
Lemma one_reports ka : td_reports (teardown_one ka) = [fst ka].
Proof.
  unfold teardown_one. simpl. rewrite td_reports_app, exec_reports.
  destruct (snd (exec_teardown (fst ka) 0 (snd ka))); reflexivity.
Qed.

Lemma one_cleanups ka :
  td_cleanups (teardown_one ka) = if forallb td_is_ok (snd ka) then [] else [fst ka].
Proof.
  unfold teardown_one. simpl. rewrite td_cleanups_app, exec_cleanups, exec_failed.
  destruct (forallb td_is_ok (snd ka)); reflexivity.
Qed.

Lemma one_acts_same ka : td_acts_of (fst ka) (teardown_one ka) = seq 0 (td_ran (snd ka)).
Proof.
  unfold teardown_one. simpl. rewrite td_acts_of_app, exec_acts_same.
  destruct (snd (exec_teardown (fst ka) 0 (snd ka))); simpl; apply app_nil_r.
Qed.

Lemma one_acts_other ka k' : fst ka <> k' -> td_acts_of k' (teardown_one ka) = [].
Proof.
  intro Hn. unfold teardown_one. simpl. rewrite td_acts_of_app, exec_acts_other by assumption.
  destruct (snd (exec_teardown (fst ka) 0 (snd ka))); reflexivity.
Qed.

(* ---- the loop ---- *)
Lemma loop_reports l : td_reports (flat_map teardown_one l) = map fst l.
Proof. induction l as [|ka l IH]; [reflexivity|]. cbn [flat_map map]. rewrite td_reports_app, one_reports, IH. reflexivity. Qed.

Lemma loop_cleanups l :
  td_cleanups (flat_map teardown_one l) = map fst (filter (fun ka => negb (forallb td_is_ok (snd ka))) l).
Proof.
  induction l as [|ka l IH]; [reflexivity|]. cbn [flat_map map filter]. rewrite td_cleanups_app, one_cleanups, IH.
  destruct (forallb td_is_ok (snd ka)); reflexivity.
Qed.

Lemma loop_acts_absent k l : ~ In k (map fst l) -> td_acts_of k (flat_map teardown_one l) = [].
Proof.
  induction l as [|ka l IH]; [reflexivity|]. cbn [flat_map map]. intro Hn.
  rewrite td_acts_of_app, one_acts_other, IH; [reflexivity| |]; intro E; apply Hn; [right|left]; assumption.
Qed.

Lemma loop_acts k acts l :
  NoDup (map fst l) -> In (k, acts) l -> td_acts_of k (flat_map teardown_one l) = seq 0 (td_ran acts).
Proof.
  induction l as [|ka l IH]; [intros _ []|]. cbn [flat_map map].
  intros Hnd [E|Hin]; inversion Hnd as [|x xs Hx Hnd']; subst; rewrite td_acts_of_app.
  - pose proof (one_acts_same (k, acts)) as H1. cbn [fst snd] in H1. rewrite H1.
    cbn [fst] in Hx. rewrite loop_acts_absent by assumption. apply app_nil_r.
  - rewrite one_acts_other, IH; auto.
    intro E. apply Hx. rewrite E. change k with (fst (k, acts)). apply in_map. assumption.
Qed.

(* Runner.teardown: one report per registered task, in reverse registration order -- whatever the outcomes *)
Lemma teardown_reports tdl : td_reports (teardown tdl) = rev (map fst tdl).
Proof. unfold teardown. rewrite loop_reports. apply map_rev. Qed.

(* the whole phase is the concatenation of the tasks' own blocks, last registered first: a block is never cut
   short, skipped or repeated because of what happened in another block *)
Lemma teardown_blocks l1 x l2 : teardown (l1 ++ x :: l2) = teardown l2 ++ teardown_one x ++ teardown l1.
Proof.
  unfold teardown. rewrite rev_app_distr. simpl. rewrite !flat_map_app. simpl.
  rewrite app_nil_r, <- app_assoc. reflexivity.
Qed.

(* the actions of task k that run: numbers 0 .. td_ran-1 (all of them, or up to and including its own first
   failing one), once each, in order -- whatever the outcomes of the other tasks' teardowns *)
Lemma teardown_acts k acts tdl :
  NoDup (map fst tdl) -> In (k, acts) tdl -> td_acts_of k (teardown tdl) = seq 0 (td_ran acts).
Proof.
  intros Hnd Hin. unfold teardown. apply loop_acts.
  - rewrite map_rev. apply NoDup_rev. assumption.
  - apply -> in_rev. assumption.
Qed.

(* exactly the tasks with a failing teardown get one cleanup_error each *)
Lemma teardown_cleanups tdl :
  td_cleanups (teardown tdl) = map fst (filter (fun ka => negb (forallb td_is_ok (snd ka))) (rev tdl)).
Proof. unfold teardown. apply loop_cleanups. Qed.

(* the first action of every registered teardown runs, exactly once *)
Lemma teardown_first_action k a acts tdl :
  NoDup (map fst tdl) -> In (k, a :: acts) tdl -> count_occ Nat.eq_dec (td_acts_of k (teardown tdl)) 0%nat = 1%nat.
Proof.
  intros Hnd Hin. rewrite (teardown_acts k (a :: acts) tdl Hnd Hin). simpl.
  destruct (td_is_ok a); simpl.
  - assert (H : forall n m, count_occ Nat.eq_dec (seq (S m) n) 0%nat = 0%nat).
    { induction n as [|n IHn]; intro m; simpl; auto. }
    rewrite H. reflexivity.
  - reflexivity.
Qed.

(* two assignments of outcomes to the same registered tasks give the same reports *)
Lemma teardown_reports_indep tdl tdl' :
  map fst tdl = map fst tdl' -> td_reports (teardown tdl) = td_reports (teardown tdl').
Proof. intro E. rewrite !teardown_reports, E. reflexivity. Qed.

(* ---- link to the run models: their single event per task is the report of this detailed phase ---- *)
Lemma with_outs_fst (outs : name -> list tdres) l : map fst (map (fun k => (k, outs k)) l) = l.
Proof. rewrite map_map. simpl. apply map_id. Qed.

Lemma finish_refined (outs : name -> list tdres) r :
  finish r = emit r (EClose :: map ETeardown (td_reports (teardown (map (fun k => (k, outs k)) (r_td r))))).
Proof. unfold finish. rewrite teardown_reports, with_outs_fst. reflexivity. Qed.

(* process flavour (Parallel.v, worker step on its terminating job): `mine` = rev of the worker's own list *)
Lemma worker_teardown_refined (outs : name -> list tdres) (w : nat) l :
  map (fun k => PTdRun k w) (rev l) = map (fun k => PTdRun k w) (td_reports (teardown (map (fun k => (k, outs k)) l))) /\
  map MTeardown (rev l) = map MTeardown (td_reports (teardown (map (fun k => (k, outs k)) l))).
Proof. rewrite teardown_reports, with_outs_fst. split; reflexivity. Qed.
