(* ParallelP.v -- MRunner / MThreadRunner model: under every schedule (every oracle [sched]),
   every worker count and both flavours, the actions of a task start only after every task it
   declares a dependency on has got its final report. *)
From DoitV Require Import Base Dispatch Runner Parallel DispatchP DispatchInv RunnerTr RunnerP.
Open Scope N_scope.

Definition pfinal (x : name) (e : pevent) : bool := match e with PE e' => is_final_ev x e' | _ => false end.
Definition pfinished (log : list pevent) (x : name) : Prop := existsb (pfinal x) log = true.

Lemma pfinished_app log evs x : pfinished log x -> pfinished (log ++ evs) x.
Proof. unfold pfinished. rewrite existsb_app. intros ->. reflexivity. Qed.

Lemma pfinished_map_PE tr x : finished_in tr x -> pfinished (map PE tr) x.
Proof.
  unfold finished_in, pfinished. induction tr as [|e tr IH]; simpl; auto.
  intros H. apply orb_true_iff in H. destruct H as [H|H]; [rewrite H; reflexivity|].
  rewrite IH; auto. apply orb_true_r.
Qed.

Definition job_tasks (js : list job) : list name := flat_map (fun j => match j with JTask k => [k] | _ => [] end) js.
Definition busy_tasks (ws : list wst) : list name := flat_map (fun w => match w with WBusy k => [k] | _ => [] end) ws.
Definition msg_tasks (ms : list msg) : list name :=
  flat_map (fun m => match m with MResult k | MReport k => [k] | _ => [] end) ms.

Lemma busy_tasks_set_nth ws : forall w s k,
  In k (busy_tasks (set_nth ws w s)) -> In k (busy_tasks ws) \/ s = WBusy k.
Proof.
  induction ws as [|x ws IH]; intros w s k H; simpl in *; auto.
  destruct w as [|w]; simpl in H.
  - apply in_app_iff in H. destruct H as [H|H].
    + destruct s; simpl in H; try contradiction. destruct H as [->|[]]. auto.
    + left. apply in_app_iff. auto.
  - apply in_app_iff in H. destruct H as [H|H].
    + left. apply in_app_iff. auto.
    + destruct (IH w s k H) as [H'|H']; auto. left. apply in_app_iff. auto.
Qed.

Lemma busy_tasks_nth ws w k : nth w ws WExited = WBusy k -> In k (busy_tasks ws).
Proof.
  revert w. induction ws as [|x ws IH]; intros w H; simpl in *.
  - destruct w; discriminate.
  - destruct w as [|w].
    + subst. simpl. auto.
    + apply in_app_iff. right. eapply IH; eauto.
Qed.

Lemma busy_tasks_map_exited (ws : list wst) : busy_tasks (map (fun _ => WExited) ws) = [].
Proof. induction ws; simpl; auto. Qed.
Lemma busy_tasks_app a b : busy_tasks (a ++ b) = busy_tasks a ++ busy_tasks b.
Proof. unfold busy_tasks. apply flat_map_app. Qed.
Lemma job_tasks_app a b : job_tasks (a ++ b) = job_tasks a ++ job_tasks b.
Proof. unfold job_tasks. apply flat_map_app. Qed.
Lemma msg_tasks_app a b : msg_tasks (a ++ b) = msg_tasks a ++ msg_tasks b.
Proof. unfold msg_tasks. apply flat_map_app. Qed.

Section Par.
Variable tasks : name -> option task.
Variable wake_rank : name -> name -> N.
Variable calc_rank : name -> N.
Variable continue_ always proc : bool.

Notation node_of := (node_of tasks).
Notation st_of := (st_of tasks).
Notation get_task := (get_task tasks).
Notation RI := (RI tasks).
Notation Pre := (Pre tasks).
Notation static_deps := (static_deps tasks).
Notation worker_step := (worker_step tasks proc).
Notation main_get := (main_get tasks proc).
Notation join_all := (join_all tasks proc).
Notation next_job_loop := (next_job_loop tasks wake_rank calc_rank continue_ always).
Notation get_next_job := (get_next_job tasks wake_rank calc_rank continue_ always).
Notation start_procs := (start_procs tasks wake_rank calc_rank continue_ always proc).
Notation hand_out := (hand_out tasks wake_rank calc_rank continue_ always).
Notation main_loop := (main_loop tasks wake_rank calc_rank continue_ always proc).
Notation terminate := (terminate proc).

(* the log of the parallel run: every action start is preceded by the final report of each dependency *)
Inductive pordered : list pevent -> Prop :=
| po_nil : pordered []
| po_snoc log e : pordered log ->
    (forall t w, e = PStart t w -> forall x, In x (static_deps t) -> pfinished log x) ->
    pordered (log ++ [e]).

Definition is_pstart (e : pevent) : bool := match e with PStart _ _ => true | _ => false end.

Lemma pordered_app_nostart log evs :
  pordered log -> forallb (fun e => negb (is_pstart e)) evs = true -> pordered (log ++ evs).
Proof.
  revert log. induction evs as [|e evs IH]; intros log Ho Hn; simpl in *.
  - rewrite app_nil_r. exact Ho.
  - apply andb_true_iff in Hn. destruct Hn as [He Hn].
    replace (log ++ e :: evs) with ((log ++ [e]) ++ evs) by (rewrite <- app_assoc; reflexivity).
    apply IH; auto. constructor; auto. intros t w ->. discriminate.
Qed.

Lemma pordered_split log : pordered log ->
  forall pre t w post, log = pre ++ PStart t w :: post -> forall x, In x (static_deps t) -> pfinished pre x.
Proof.
  induction 1 as [|log e Ho IH He]; intros pre t w post E x Hx.
  - destruct pre; discriminate.
  - destruct post as [|p post'] using rev_ind.
    + apply app_inj_tail in E. destruct E as [-> ->]. eapply He; eauto.
    + clear IHpost'. rewrite app_comm_cons, app_assoc in E. apply app_inj_tail in E. destruct E as [-> _].
      eapply IH; eauto.
Qed.

(* a task whose job is queued / running / whose result is queued: it was selected to run and its
   dependencies had finished *)
Definition ready (p : pstate) (k : name) : Prop :=
  st_of (r_d (p_r p)) k <> SNone /\ forall x, In x (static_deps k) -> finished_in (r_tr (p_r p)) x.

Record PI (p : pstate) : Prop := {
  pi_ri : RI (r_d (p_r p)) (r_tr (p_r p));
  pi_pre : Pre (r_d (p_r p));
  pi_sync : forall x, finished_in (firstn (p_seen p) (r_tr (p_r p))) x -> pfinished (p_log p) x;
  pi_ready : forall k, In k (job_tasks (p_jobs p) ++ busy_tasks (p_workers p) ++ msg_tasks (p_results p)) -> ready p k;
  pi_ord : pordered (p_log p);
  pi_seen : (p_seen p <= length (r_tr (p_r p)))%nat
}.

(* after sync the whole runner trace is reflected in the log *)
Lemma sync_all p x : PI p -> finished_in (r_tr (p_r p)) x -> pfinished (p_log (sync p)) x.
Proof.
  intros HP Hf. unfold sync. simpl.
  rewrite <- (firstn_skipn (p_seen p) (r_tr (p_r p))) in Hf.
  unfold finished_in in Hf. rewrite existsb_app in Hf. apply orb_true_iff in Hf.
  unfold pfinished. rewrite existsb_app. apply orb_true_iff. destruct Hf as [Hf|Hf].
  - left. apply (pi_sync _ HP). exact Hf.
  - right. apply pfinished_map_PE. exact Hf.
Qed.

Lemma firstn_length_all {A} (l : list A) : firstn (length l) l = l.
Proof. apply firstn_all. Qed.

Lemma sync_PI p : PI p -> PI (sync p).
Proof.
  intros HP. pose proof HP as [A B C D E F]. split; simpl; auto.
  - intros x Hx. rewrite firstn_all in Hx. apply (sync_all p x HP Hx).
  - apply pordered_app_nostart; auto. induction (skipn _ _); simpl; auto.
Qed.

Lemma plog_PI p evs :
  PI p -> (forall t w, In (PStart t w) evs -> forall x, In x (static_deps t) -> finished_in (r_tr (p_r p)) x) ->
  (forall x e, In e evs -> pfinal x e = false) ->
  PI (plog p evs).
Proof.
  intros HP Hs Hnf. pose proof (sync_PI p HP) as HS. unfold plog.
  set (q := sync p) in *. destruct HS as [A B C D E F].
  split; simpl; auto.
  - intros x Hx. apply pfinished_app. apply C. exact Hx.
  - clear C D.
    assert (Hall : forall x, finished_in (r_tr (p_r p)) x -> pfinished (p_log q) x) by (intros x Hx; apply sync_all; auto).
    assert (G : forall l log0, pordered log0 ->
               (forall x, finished_in (r_tr (p_r p)) x -> pfinished log0 x) ->
               (forall t w, In (PStart t w) l -> forall x, In x (static_deps t) -> finished_in (r_tr (p_r p)) x) ->
               pordered (log0 ++ l)).
    { induction l as [|e l IH]; intros log0 H0 Hf Hl.
      - rewrite app_nil_r. exact H0.
      - replace (log0 ++ e :: l) with ((log0 ++ [e]) ++ l) by (rewrite <- app_assoc; reflexivity).
        apply IH.
        + constructor; auto. intros t w -> x Hx. apply Hf. apply (Hl t w); [left; reflexivity|exact Hx].
        + intros x Hx. apply pfinished_app. apply Hf. exact Hx.
        + intros t w Hin. apply (Hl t w). right. exact Hin. }
    apply G; [exact E|exact Hall|exact Hs].
Qed.

Definition tasks_of (p : pstate) : list name :=
  job_tasks (p_jobs p) ++ busy_tasks (p_workers p) ++ msg_tasks (p_results p).

(* bookkeeping updates that keep runner state and log *)
Lemma PI_update p p' :
  p_r p' = p_r p -> p_seen p' = p_seen p -> p_log p' = p_log p ->
  (forall k, In k (tasks_of p') -> ready p k) -> PI p -> PI p'.
Proof.
  intros Er Es El Ht [A B C D E F]. split; rewrite ?Er, ?Es, ?El; auto.
  intros k Hk. specialize (Ht k Hk). unfold ready in *. rewrite Er. exact Ht.
Qed.

Lemma ready_tr p p' k :
  r_d (p_r p') = r_d (p_r p) -> (exists evs, r_tr (p_r p') = r_tr (p_r p) ++ evs) -> ready p k -> ready p' k.
Proof.
  intros Ed [evs Et] [A B]. split; rewrite ?Ed; auto. intros x Hx. rewrite Et. apply finished_in_app. apply B. exact Hx.
Qed.

(* the runner state of the main thread (thread flavour: shared) gets one more report *)
Lemma PI_with_r p r' evs :
  PI p -> r_d r' = r_d (p_r p) -> r_tr r' = r_tr (p_r p) ++ evs ->
  RI (r_d r') (r_tr r') ->
  PI (with_r p r').
Proof.
  intros [A B C D E F] Ed Et HR. split; simpl; auto.
  - rewrite Ed. exact B.
  - intros x Hx. apply C. rewrite Et in Hx. rewrite firstn_app in Hx.
    replace (p_seen p - length (r_tr (p_r p)))%nat with 0%nat in Hx by lia. simpl in Hx. rewrite app_nil_r in Hx. exact Hx.
  - intros k Hk. specialize (D k Hk). destruct D as [D1 D2]. split; simpl; rewrite ?Ed; auto.
    intros x Hx. rewrite Et. apply finished_in_app. apply D2. exact Hx.
  - rewrite Et, app_length. lia.
Qed.

Lemma RI_exec d tr k :
  RI d tr -> (forall x, In x (static_deps k) -> finished_in tr x) -> RI d (tr ++ [EExecute k]).
Proof.
  intros [I A Q S L O] Hd. split; auto.
  - intros x Hx. apply finished_in_app. apply L. exact Hx.
  - constructor; auto. intros t E x Hx. inversion E; subst. apply Hd. exact Hx.
Qed.

Lemma in_tasks_of_jobs p k : In k (job_tasks (p_jobs p)) -> In k (tasks_of p).
Proof. unfold tasks_of. rewrite !in_app_iff. auto. Qed.
Lemma in_tasks_of_busy p k : In k (busy_tasks (p_workers p)) -> In k (tasks_of p).
Proof. unfold tasks_of. rewrite !in_app_iff. auto. Qed.
Lemma in_tasks_of_msgs p k : In k (msg_tasks (p_results p)) -> In k (tasks_of p).
Proof. unfold tasks_of. rewrite !in_app_iff. auto. Qed.

Lemma PI_ready_of p k : PI p -> In k (tasks_of p) -> ready p k.
Proof. intros HP H. apply (pi_ready _ HP). exact H. Qed.

Lemma set_nth_length {A} (l : list A) i v : length (set_nth l i v) = length l.
Proof. revert i. induction l as [|x l IH]; intros [|i]; simpl; auto. Qed.

Lemma nofinal_list evs : (forall e, In e evs -> forall x, pfinal x e = false) -> True.
Proof. auto. Qed.

Lemma worker_step_PI p w : PI p -> PI (worker_step p w).
Proof.
  intros HP. unfold Parallel.worker_step.
  destruct (nth w (p_workers p) WExited) as [|k|] eqn:Ew; auto.
  - (* idle worker takes the next job *)
    destruct (p_jobs p) as [|j js] eqn:Ej; auto.
    assert (Hjs : forall x, In x (job_tasks js) -> ready p x).
    { intros x Hx. apply PI_ready_of; auto. apply in_tasks_of_jobs. rewrite Ej. simpl. apply in_app_iff. auto. }
    assert (Hbusy : forall x, In x (busy_tasks (p_workers p)) -> ready p x)
      by (intros x Hx; apply PI_ready_of; auto; apply in_tasks_of_busy; auto).
    assert (Hmsg : forall x, In x (msg_tasks (p_results p)) -> ready p x)
      by (intros x Hx; apply PI_ready_of; auto; apply in_tasks_of_msgs; auto).
    destruct j as [k| |].
    + (* a task *)
      assert (Hk : ready p k) by (apply PI_ready_of; auto; apply in_tasks_of_jobs; rewrite Ej; simpl; auto).
      destruct proc.
      * (* process flavour: the execute report travels through the result queue *)
        apply plog_PI.
        -- apply (PI_update p); auto. intros x Hx. unfold tasks_of in Hx. simpl in Hx.
           rewrite !in_app_iff in Hx. destruct Hx as [Hx|[Hx|Hx]]; auto.
           ++ destruct (busy_tasks_set_nth _ _ _ _ Hx) as [H|H]; auto. inversion H; subst. exact Hk.
           ++ rewrite msg_tasks_app in Hx. apply in_app_iff in Hx. destruct Hx as [Hx|Hx]; auto.
              simpl in Hx. destruct Hx as [<-|[]]. exact Hk.
        -- intros t w' [E|[]] x Hx. inversion E; subst. simpl. apply (proj2 Hk). exact Hx.
        -- intros x e [<-|[]]. reflexivity.
      * (* thread flavour: the shared runner reports the execution itself *)
        apply plog_PI.
        -- set (p1 := with_jobs p js).
           assert (H1 : PI p1) by (apply (PI_update p); auto; intros x Hx; unfold tasks_of in Hx; simpl in Hx;
                                   rewrite !in_app_iff in Hx; destruct Hx as [Hx|[Hx|Hx]]; auto).
           assert (H2 : PI (with_r p1 (start_task tasks (p_r p1) k))).
           { apply (PI_with_r p1 _ [EExecute k]); auto. unfold start_task. simpl.
             apply RI_exec; [apply (pi_ri _ HP)|apply (proj2 Hk)]. }
           apply (PI_update (with_r p1 (start_task tasks (p_r p1) k))); auto.
           intros x Hx. unfold tasks_of in Hx. simpl in Hx.
           assert (Hr : forall y, ready p y -> ready (with_r p1 (start_task tasks (p_r p1) k)) y).
           { intros y Hy. eapply ready_tr; [| |exact Hy]; simpl; auto. exists [EExecute k]. reflexivity. }
           rewrite !in_app_iff in Hx. destruct Hx as [Hx|[Hx|Hx]]; auto.
           destruct (busy_tasks_set_nth _ _ _ _ Hx) as [H|H]; auto. inversion H; subst. auto.
        -- intros t w' [E|[]] x Hx. inversion E; subst. simpl. apply finished_in_app. apply (proj2 Hk). exact Hx.
        -- intros x e [<-|[]]. reflexivity.
    + (* hold *)
      apply (PI_update p); auto. intros x Hx. unfold tasks_of in Hx. simpl in Hx.
      rewrite !in_app_iff in Hx. destruct Hx as [Hx|[Hx|Hx]]; auto.
    + (* terminate *)
      set (p1 := with_jobs p js).
      assert (H1 : PI p1) by (apply (PI_update p); auto; intros x Hx; unfold tasks_of in Hx; simpl in Hx;
                              rewrite !in_app_iff in Hx; destruct Hx as [Hx|[Hx|Hx]]; auto).
      assert (Hr1 : forall x, In x (tasks_of p1) -> ready p1 x) by (intros x Hx; apply PI_ready_of; auto).
      destruct proc.
      * set (mine := rev (nth w (p_wtd p1) [])).
        assert (H2 : PI (plog p1 (map (fun k0 => PTdRun k0 w) mine))).
        { apply plog_PI; auto.
          - intros t w' Hin. apply in_map_iff in Hin. destruct Hin as [y [E _]]. discriminate.
          - intros x e Hin. apply in_map_iff in Hin. destruct Hin as [y [<- _]]. reflexivity. }
        apply (PI_update (plog p1 (map (fun k0 => PTdRun k0 w) mine))); auto.
        intros x Hx. unfold tasks_of in Hx. simpl in Hx.
        assert (Hold : forall y, In y (tasks_of p1) -> ready (plog p1 (map (fun k0 => PTdRun k0 w) mine)) y).
        { intros y Hy. specialize (Hr1 y Hy). exact Hr1. }
        rewrite !in_app_iff in Hx. destruct Hx as [Hx|[Hx|Hx]].
        -- apply Hold. unfold tasks_of. rewrite !in_app_iff. auto.
        -- destruct (busy_tasks_set_nth _ _ _ _ Hx) as [H|H]; [|discriminate].
           apply Hold. unfold tasks_of. rewrite !in_app_iff. auto.
        -- rewrite msg_tasks_app in Hx. apply in_app_iff in Hx. destruct Hx as [Hx|Hx].
           ++ apply Hold. unfold tasks_of. rewrite !in_app_iff. auto.
           ++ exfalso. clear -Hx. induction mine; simpl in Hx; auto.
      * apply (PI_update p1); auto. intros x Hx. unfold tasks_of in Hx. simpl in Hx.
        rewrite !in_app_iff in Hx. destruct Hx as [Hx|[Hx|Hx]].
        -- apply Hr1. unfold tasks_of. rewrite !in_app_iff. auto.
        -- destruct (busy_tasks_set_nth _ _ _ _ Hx) as [H|H]; [|discriminate]. apply Hr1. unfold tasks_of. rewrite !in_app_iff. auto.
        -- apply Hr1. unfold tasks_of. rewrite !in_app_iff. auto.
  - (* busy worker finishes its task *)
    assert (Hk : ready p k) by (apply PI_ready_of; auto; apply in_tasks_of_busy; eapply busy_tasks_nth; eauto).
    assert (H1 : PI (plog p [PEnd k w])).
    { apply plog_PI; auto.
      - intros t w' [E|[]]. discriminate.
      - intros x e [<-|[]]. reflexivity. }
    assert (Hr1 : forall x, In x (tasks_of p) -> ready (plog p [PEnd k w]) x) by (intros x Hx; apply (PI_ready_of p); auto).
    destruct (is_interrupt tasks k).
    + apply (PI_update (plog p [PEnd k w])); auto. intros x Hx. unfold tasks_of in Hx. simpl in Hx.
      rewrite !in_app_iff in Hx. destruct Hx as [Hx|[Hx|Hx]].
      * apply Hr1. unfold tasks_of. rewrite !in_app_iff. auto.
      * destruct (busy_tasks_set_nth _ _ _ _ Hx) as [H|H]; [|discriminate]. apply Hr1. unfold tasks_of. rewrite !in_app_iff. auto.
      * rewrite msg_tasks_app in Hx. apply in_app_iff in Hx. destruct Hx as [Hx|Hx]; [|destruct Hx].
        apply Hr1. unfold tasks_of. rewrite !in_app_iff. auto.
    + apply (PI_update (plog p [PEnd k w])); auto. intros x Hx. unfold tasks_of in Hx. simpl in Hx.
      rewrite !in_app_iff in Hx. destruct Hx as [Hx|[Hx|Hx]].
      * apply Hr1. unfold tasks_of. rewrite !in_app_iff. auto.
      * destruct (busy_tasks_set_nth _ _ _ _ Hx) as [H|H]; [|discriminate]. apply Hr1. unfold tasks_of. rewrite !in_app_iff. auto.
      * rewrite msg_tasks_app in Hx. apply in_app_iff in Hx. destruct Hx as [Hx|Hx].
        -- apply Hr1. unfold tasks_of. rewrite !in_app_iff. auto.
        -- simpl in Hx. destruct Hx as [<-|[]]. exact Hk.
Qed.

(* ---------- the main thread ---------- *)
Lemma main_get_PI fuel : forall p m p', PI p -> main_get fuel p = (m, p') ->
  PI p' /\ (forall k, m = Some (MResult k) \/ m = Some (MReport k) -> ready p' k).
Proof.
  induction fuel as [|fuel IH]; intros p m p' HP E; cbn [Parallel.main_get] in E.
  { inversion E; subst. split; auto. intros k [H|H]; discriminate. }
  set (ws := enabled_workers p (length (p_workers p)) 0) in *.
  destruct ((if negb (is_nil (p_results p)) then 1 else 0) + length ws)%nat eqn:En.
  { inversion E; subst. split.
    - apply plog_PI; auto.
      + intros t w [H|[]]. discriminate.
      + intros x e [<-|[]]. reflexivity.
    - intros k [H|H]; discriminate. }
  destruct (choose (S n) (p_sched p)) as [c s].
  assert (Hs : PI (with_sched p s)) by (apply (PI_update p); auto; intros x Hx; apply PI_ready_of; auto).
  destruct (negb (is_nil (p_results p)) && Nat.eqb c 0).
  - simpl in E. destruct (p_results p) as [|m0 rs] eqn:Er.
    + inversion E; subst. split; auto. intros k [H|H]; discriminate.
    + inversion E; subst. split.
      * apply (PI_update (with_sched p s)); auto. intros x Hx. apply (PI_ready_of (with_sched p s)); auto.
        unfold tasks_of in *. simpl in *. rewrite Er. rewrite !in_app_iff in *. destruct Hx as [Hx|[Hx|Hx]]; auto.
        right; right. simpl. apply in_app_iff. auto.
      * intros k Hk. assert (Hin : In k (tasks_of p)).
        { apply in_tasks_of_msgs. rewrite Er. simpl. destruct Hk as [H|H]; inversion H; subst; simpl; auto. }
        exact (PI_ready_of p k HP Hin).
  - eapply IH; [|exact E]. apply worker_step_PI. exact Hs.
Qed.

Lemma join_all_PI fuel : forall p, PI p -> PI (join_all fuel p).
Proof.
  induction fuel as [|fuel IH]; intros p HP; cbn [Parallel.join_all]; auto.
  destruct (enabled_workers p (length (p_workers p)) 0) as [|w ws] eqn:Ew; auto.
  destruct (choose (length (w :: ws)) (p_sched p)) as [c s].
  apply IH. apply worker_step_PI. apply (PI_update p); auto. intros x Hx. apply PI_ready_of; auto.
Qed.

(* ---------- get_next_job ---------- *)
(* replacing the main runner state by a later one: same or longer trace, statuses of in-flight
   tasks still known *)
Lemma PI_with_r_gen p r' :
  PI p -> RI (r_d r') (r_tr r') -> Pre (r_d r') ->
  (exists evs, r_tr r' = r_tr (p_r p) ++ evs) ->
  (forall k, In k (tasks_of p) -> st_of (r_d r') k <> SNone) ->
  PI (with_r p r').
Proof.
  intros [A B C D E F] HR HPre [evs Et] Hst. split; simpl; auto.
  - intros x Hx. apply C. rewrite Et in Hx. rewrite firstn_app in Hx.
    replace (p_seen p - length (r_tr (p_r p)))%nat with 0%nat in Hx by lia. simpl in Hx. rewrite app_nil_r in Hx. exact Hx.
  - intros k Hk. specialize (D k Hk). destruct D as [D1 D2]. split; simpl; auto.
    intros x Hx. rewrite Et. apply finished_in_app. apply D2. exact Hx.
  - rewrite Et, app_length. lia.
Qed.

Lemma next_job_loop_PI fuel : forall p completed g p',
  PI p -> (forall k, completed = Some k -> st_of (r_d (p_r p)) k <> SNone) ->
  next_job_loop fuel p completed = (g, p') ->
  PI p' /\ (forall k, g = GJob (JTask k) -> ready p' k).
Proof.
  induction fuel as [|fuel IH]; intros p completed g p' HP Hc E; cbn [Parallel.next_job_loop] in E.
  { inversion E; subst. split; auto. intros k H; discriminate. }
  destruct (disp_send tasks wake_rank calc_rank (S fuel) (r_d (p_r p)) completed) as [y d] eqn:Ed.
  pose proof (pi_ri _ HP) as HR.
  pose proof (disp_send_spec tasks wake_rank calc_rank _ _ _ _ _ (ri_inv _ _ _ HR) (pi_pre _ HP) (ri_res _ _ _ HR) (ri_q _ _ _ HR) Hc Ed) as Hpost.
  pose proof (RI_disp tasks _ _ _ _ HR Hpost) as HR'.
  assert (Hst : forall x, st_of d x = st_of (r_d (p_r p)) x) by (destruct Hpost as (_ & _ & _ & S & _); exact S).
  assert (Hwd : forall (HPre : Pre d), PI (with_r p (with_d (p_r p) d))).
  { intros HPre. apply PI_with_r_gen; auto.
    - exists []. simpl. rewrite app_nil_r. reflexivity.
    - intros k Hk. simpl. rewrite Hst. apply (proj1 (PI_ready_of p k HP Hk)). }
  destruct y as [k| | |path|].
  - destruct (handed_of_post tasks _ _ _ Hpost) as (HK & Hcur & Hns).
    destruct (select_task tasks continue_ always (with_d (p_r p) d) k) as [b r1] eqn:Es.
    pose proof (select_task_post tasks continue_ always (with_d (p_r p) d) k b r1 HR' HK Es) as (R1 & P1 & S1 & Pc1 & C1 & D1).
    destruct (select_task_ext tasks continue_ always _ _ _ _ Es) as [Ext Sto].
    assert (H1 : PI (with_r p r1)).
    { apply PI_with_r_gen; auto. intros x Hx.
      destruct (N.eqb_spec x k) as [->|Hne]; [exact S1|].
      rewrite Sto by auto. simpl. rewrite Hst. apply (proj1 (PI_ready_of p x HP Hx)). }
    destruct b.
    + inversion E; subst. split; auto. intros k0 Ek. inversion Ek; subst. split; simpl; auto.
    + eapply IH; [exact H1| |exact E]. intros k0 Ek. inversion Ek; subst. exact S1.
  - inversion E; subst. split; [|intros k H; discriminate].
    apply (PI_update (with_r p (with_d (p_r p) d))); auto.
    + intros x Hx. apply (PI_ready_of (with_r p (with_d (p_r p) d))); auto.
      apply Hwd. destruct Hpost as (_ & _ & _ & _ & _ & _ & PP). exact PP.
    + apply Hwd. destruct Hpost as (_ & _ & _ & _ & _ & _ & PP). exact PP.
  - inversion E; subst. split; [|intros k H; discriminate].
    apply Hwd. destruct Hpost as (_ & _ & _ & _ & _ & _ & PP). exact PP.
  - inversion E; subst. split; [|intros k H; discriminate].
    apply Hwd. destruct Hpost as (_ & _ & _ & _ & _ & _ & PP). exact PP.
  - inversion E; subst. split; auto. intros k H; discriminate.
Qed.

Lemma get_next_job_PI fuel p completed g p' :
  PI p -> (forall k, completed = Some k -> st_of (r_d (p_r p)) k <> SNone) ->
  get_next_job fuel p completed = (g, p') ->
  PI p' /\ (forall k, g = GJob (JTask k) -> ready p' k).
Proof.
  intros HP Hc E. unfold Parallel.get_next_job in E. destruct (r_stop (p_r p)).
  - inversion E; subst. split; auto. intros k H; discriminate.
  - eapply next_job_loop_PI; eauto.
Qed.

(* ---------- queues ---------- *)
Lemma put_job_PI p j : PI p -> (forall k, j = JTask k -> ready p k) -> PI (put_job p j).
Proof.
  intros HP Hj. apply (PI_update p); auto. intros x Hx. unfold tasks_of, put_job in Hx. simpl in Hx.
  rewrite job_tasks_app in Hx. rewrite !in_app_iff in Hx.
  destruct Hx as [[Hx|Hx]|[Hx|Hx]].
  - apply PI_ready_of; auto. apply in_tasks_of_jobs. exact Hx.
  - destruct j; simpl in Hx; try contradiction. destruct Hx as [<-|[]]. apply Hj. reflexivity.
  - apply PI_ready_of; auto. apply in_tasks_of_busy. exact Hx.
  - apply PI_ready_of; auto. apply in_tasks_of_msgs. exact Hx.
Qed.

Lemma start_worker_PI p : PI p -> PI (start_worker p).
Proof.
  intros HP. apply (PI_update p); auto. intros x Hx. apply PI_ready_of; auto.
  unfold tasks_of, start_worker in *. simpl in Hx. rewrite busy_tasks_app in Hx. simpl in Hx. rewrite app_nil_r in Hx. exact Hx.
Qed.

Lemma with_counts_PI p a b : PI p -> PI (with_counts p a b).
Proof. intros HP. apply (PI_update p); auto. intros x Hx. apply PI_ready_of; auto. Qed.

Lemma terminate_PI p : PI p -> PI (terminate p).
Proof.
  intros HP. unfold Parallel.terminate. destruct (proc && negb (is_nil (p_workers p))); auto.
  apply plog_PI.
  - apply (PI_update p); auto. intros x Hx. apply PI_ready_of; auto.
    unfold tasks_of in *. simpl in Hx. rewrite busy_tasks_map_exited in Hx. simpl in Hx.
    rewrite !in_app_iff in *. destruct Hx; auto.
  - intros t w [E|[]]. discriminate.
  - intros x e [<-|[]]. reflexivity.
Qed.

Lemma start_procs_PI fuel n : forall p e p', PI p -> start_procs fuel n p = (e, p') -> PI p'.
Proof.
  induction n as [|n IH]; intros p e p' HP E; cbn [Parallel.start_procs] in E.
  { inversion E; subst. exact HP. }
  destruct (get_next_job fuel p None) as [g p1] eqn:Eg.
  destruct (get_next_job_PI fuel p None g p1 HP ltac:(intros k H; discriminate) Eg) as [H1 Hr].
  destruct g as [j| |path|].
  - eapply IH; [|exact E]. apply start_worker_PI. apply put_job_PI; auto. intros k ->. apply Hr. reflexivity.
  - inversion E; subst. exact H1.
  - inversion E; subst. apply terminate_PI. exact H1.
  - inversion E; subst. exact H1.
Qed.

Lemma hand_out_PI fuel n : forall p completed e p',
  PI p -> (forall k, completed = Some k -> st_of (r_d (p_r p)) k <> SNone) ->
  hand_out fuel n p completed = (e, p') -> PI p'.
Proof.
  induction n as [|n IH]; intros p completed e p' HP Hc E; cbn [Parallel.hand_out] in E.
  { inversion E; subst. exact HP. }
  destruct (get_next_job fuel p completed) as [g p1] eqn:Eg.
  destruct (get_next_job_PI fuel p completed g p1 HP Hc Eg) as [H1 Hr].
  destruct g as [j| |path|].
  - eapply IH; [| |exact E].
    + apply put_job_PI; auto. intros k ->. apply Hr. reflexivity.
    + intros k H; discriminate.
  - eapply IH; [| |exact E].
    + apply put_job_PI; [apply with_counts_PI; exact H1|intros k H; discriminate].
    + intros k H; discriminate.
  - inversion E; subst. exact H1.
  - inversion E; subst. exact H1.
Qed.

(* the result of a task reaches the main thread *)
Lemma process_result_PI p k :
  PI p -> ready p k ->
  PI (with_r p (process_result tasks continue_ (p_r p) k)) /\
  st_of (r_d (process_result tasks continue_ (p_r p) k)) k <> SNone.
Proof.
  intros HP [Hst Hdeps].
  pose proof (pi_ri _ HP) as HR.
  assert (He : early (n_pc (node_of (r_d (p_r p)) k)) = false).
  { destruct (early (n_pc (node_of (r_d (p_r p)) k))) eqn:E; auto.
    exfalso. apply Hst. apply (ok_early _ _ _ _ (node_of_ok tasks _ k (ri_inv _ _ _ HR)) E). }
  assert (HPx : PreX tasks (r_d (p_r p)) k) by (intros z Hz Hpc; apply (pi_pre _ HP); exact Hpc).
  destruct (process_result_post tasks continue_ (p_r p) k HR He HPx) as [(R3 & P3 & S3)|Hint].
  - split; auto. apply PI_with_r_gen; auto.
    + unfold Runner.process_result. destruct (t_outcome (get_task k)); simpl;
        try (eexists; reflexivity); exists []; rewrite app_nil_r; reflexivity.
    + intros x Hx. destruct (N.eqb_spec x k) as [->|Hne]; [exact S3|].
      assert (Hsx : st_of (r_d (process_result tasks continue_ (p_r p) k)) x = st_of (r_d (p_r p)) x).
      { unfold Runner.process_result. destruct (t_outcome (get_task k)); simpl; auto;
          rewrite set_status_st; apply N.eqb_neq in Hne; rewrite Hne; reflexivity. }
      rewrite Hsx. apply (proj1 (PI_ready_of p x HP Hx)).
  - unfold Runner.process_result. rewrite Hint. split; auto.
    apply (PI_update p); auto. intros x Hx. apply PI_ready_of; auto.
Qed.

Lemma PI_emit_main p evs :
  PI p -> RI (r_d (p_r p)) (r_tr (p_r p) ++ evs) -> PI (with_r p (emit (p_r p) evs)).
Proof.
  intros HP HR. apply (PI_with_r p _ evs); auto.
Qed.

Lemma main_loop_PI fuel : forall p e p', PI p -> main_loop fuel p = (e, p') -> PI p'.
Proof.
  induction fuel as [|fuel IH]; intros p e p' HP E; cbn [Parallel.main_loop] in E.
  { inversion E; subst. exact HP. }
  destruct (p_count p). { inversion E; subst. exact HP. }
  destruct (main_get (S fuel * 4) p) as [m p1] eqn:Em.
  destruct (main_get_PI _ _ _ _ HP Em) as [H1 Hr].
  destruct m as [[k|k|k|k]|].
  - (* a result *)
    assert (Hk : ready p1 k) by (apply Hr; left; reflexivity).
    destruct (process_result_PI p1 k H1 Hk) as [H2 S2].
    set (p2 := with_r p1 (process_result tasks continue_ (p_r p1) k)) in *.
    destruct (hand_out (S fuel) (S (p_free p2)) (with_counts p2 0 (p_count p2)) (Some k)) as [e2 p3] eqn:Eh.
    assert (H3 : PI p3).
    { eapply hand_out_PI; [| |exact Eh]; [apply with_counts_PI; exact H2|].
      intros k0 Ek. inversion Ek; subst. exact S2. }
    destruct e2; try (inversion E; subst; apply terminate_PI; exact H3).
    destruct (deadlocked p3).
    + inversion E; subst. apply terminate_PI. exact H3.
    + eapply IH; eauto.
  - (* execute report forwarded by a worker process *)
    eapply IH; [|exact E]. apply PI_emit_main; auto.
    apply RI_exec; [apply (pi_ri _ H1)|]. apply (proj2 (Hr k (or_intror eq_refl))).
  - (* teardown report *)
    eapply IH; [|exact E]. apply PI_emit_main; auto. apply RI_emit; [apply (pi_ri _ H1)|reflexivity].
  - inversion E; subst. apply terminate_PI. exact H1.
  - inversion E; subst. apply terminate_PI. exact H1.
Qed.

Lemma drain_PI p : PI p -> PI (drain p).
Proof.
  intros HP. unfold drain.
  set (evs := flat_map _ (p_results p)).
  assert (Hev : forall k, In (EExecute k) evs -> ready p k).
  { intros k Hk. unfold evs in Hk. apply in_flat_map in Hk. destruct Hk as [m [Hm Hk]].
    destruct m; simpl in Hk; try contradiction; destruct Hk as [Hk|[]]; inversion Hk; subst.
    apply PI_ready_of; auto. apply in_tasks_of_msgs.
    clear -Hm. induction (p_results p) as [|x l IH]; simpl in *; [contradiction|].
    destruct Hm as [->|Hm]; simpl; auto. apply in_app_iff. right. apply IH. exact Hm. }
  assert (HRI : forall l tr, (forall k, In (EExecute k) l -> forall x, In x (static_deps k) -> finished_in tr x) ->
                 RI (r_d (p_r p)) tr -> RI (r_d (p_r p)) (tr ++ l)).
  { induction l as [|e l IH]; intros tr Hl HR.
    - rewrite app_nil_r. exact HR.
    - replace (tr ++ e :: l) with ((tr ++ [e]) ++ l) by (rewrite <- app_assoc; reflexivity).
      apply IH.
      + intros k Hk x Hx. apply finished_in_app. apply (Hl k); [right; exact Hk|exact Hx].
      + destruct e; try (apply RI_emit; [exact HR|reflexivity]).
        apply RI_exec; auto. intros x Hx. apply (Hl k); [left; reflexivity|exact Hx]. }
  assert (H1 : PI (with_r p (emit (p_r p) evs))).
  { apply PI_emit_main; auto. apply HRI; [|apply (pi_ri _ HP)].
    intros k Hk x Hx. apply (proj2 (Hev k Hk)). exact Hx. }
  apply (PI_update (with_r p (emit (p_r p) evs))); auto.
  intros x Hx. apply (PI_ready_of (with_r p (emit (p_r p) evs))); auto.
  unfold tasks_of in *. simpl in *. rewrite !in_app_iff in *. destruct Hx as [Hx|[Hx|Hx]]; auto. destruct Hx.
Qed.

Lemma PI_init sched sel : PI (p_init sched sel).
Proof.
  split; simpl.
  - apply RI_init.
  - intros z Hz. simpl in Hz. discriminate.
  - intros x Hx. discriminate.
  - intros k [].
  - constructor.
  - lia.
Qed.

Lemma finish_PI p : PI p -> PI (sync (with_r p (finish (p_r p)))).
Proof.
  intros HP. apply sync_PI. unfold finish. apply PI_emit_main; auto.
  apply RI_emit; [apply (pi_ri _ HP)|]. simpl. apply noexec_teardowns.
Qed.

(* the log of every parallel run, whatever the schedule *)
Theorem parallel_dep_order fuel nprocs sched sel :
  pordered (fst (run_parallel tasks wake_rank calc_rank continue_ always proc fuel nprocs sched sel)).
Proof.
  unfold run_parallel.
  destruct (start_procs fuel nprocs (p_init sched sel)) as [e1 p1] eqn:E1.
  pose proof (start_procs_PI fuel nprocs _ _ _ (PI_init sched sel) E1) as H1.
  assert (Hfin : forall p2 l, PI p2 -> forallb (fun e => negb (is_pstart e)) l = true ->
     pordered (p_log (sync (with_r p2 (finish (p_r p2)))) ++ l)).
  { intros p2 l H2 Hl. apply pordered_app_nostart; [apply (pi_ord _ (finish_PI p2 H2))|exact Hl]. }
  destruct e1; try (cbv beta iota zeta delta [fst]; apply Hfin; [exact H1|reflexivity]).
  set (p1' := with_counts p1 (p_free p1) (length (p_workers p1))).
  assert (H1' : PI p1') by (apply with_counts_PI; exact H1).
  destruct (deadlocked p1').
  { cbv beta iota zeta delta [fst]. apply Hfin; [apply terminate_PI; exact H1'|reflexivity]. }
  destruct (main_loop fuel p1') as [e2 p2] eqn:E2.
  pose proof (main_loop_PI fuel _ _ _ H1' E2) as H2.
  destruct e2; cbv beta iota zeta delta [fst]; apply Hfin; auto.
  apply drain_PI. apply join_all_PI. exact H2.
Qed.

End Par.
