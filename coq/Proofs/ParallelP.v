(* ParallelP.v -- MRunner / MThreadRunner model: under every schedule (every oracle [sched]),
   every worker count and both flavours, the actions of a task start only after every task it
   declares a dependency on has got its final report. *)
From DoitV Require Import Base Dispatch Runner Parallel DispatchP DispatchInv RunnerTr RunnerP.
Open Scope N_scope.

Definition pfinal (x : name) (e : pevent) : bool := match e with PE e' => is_final_ev x e' | _ => false end.
Definition pfinished (log : list pevent) (x : name) : Prop := existsb (pfinal x) log = true.

Lemma pfinished_app log evs x : pfinished log x -> pfinished (log ++ evs) x.
Proof. unfold pfinished. rewrite existsb_app. intros ->. reflexivity. Qed.

Lemma pfinished_map_PE tr x : finished_in tr x -> pfinished (map PE tr) x.
Proof.
  unfold finished_in, pfinished. induction tr as [|e tr IH]; simpl; auto.
  intros H. apply orb_true_iff in H. destruct H as [H|H]; [rewrite H; reflexivity|].
  rewrite IH; auto. apply orb_true_r.
Qed.

Definition job_tasks (js : list job) : list name := flat_map (fun j => match j with JTask k => [k] | _ => [] end) js.
Definition busy_tasks (ws : list wst) : list name := flat_map (fun w => match w with WBusy k => [k] | _ => [] end) ws.
Definition msg_tasks (ms : list msg) : list name :=
  flat_map (fun m => match m with MResult k | MReport k => [k] | _ => [] end) ms.

Lemma busy_tasks_set_nth ws : forall w s k,
  In k (busy_tasks (set_nth ws w s)) -> In k (busy_tasks ws) \/ s = WBusy k.
Proof.
  induction ws as [|x ws IH]; intros w s k H; simpl in *; auto.
  destruct w as [|w]; simpl in H.
  - apply in_app_iff in H. destruct H as [H|H].
    + destruct s; simpl in H; try contradiction. destruct H as [->|[]]. auto.
    + left. apply in_app_iff. auto.
  - apply in_app_iff in H. destruct H as [H|H].
    + left. apply in_app_iff. auto.
    + destruct (IH w s k H) as [H'|H']; auto. left. apply in_app_iff. auto.
Qed.

Lemma busy_tasks_nth ws w k : nth w ws WExited = WBusy k -> In k (busy_tasks ws).
Proof.
  revert w. induction ws as [|x ws IH]; intros w H; simpl in *.
  - destruct w; discriminate.
  - destruct w as [|w].
    + subst. simpl. auto.
    + apply in_app_iff. right. eapply IH; eauto.
Qed.

Lemma busy_tasks_map_exited (ws : list wst) : busy_tasks (map (fun _ => WExited) ws) = [].
Proof. induction ws; simpl; auto. Qed.
Lemma busy_tasks_app a b : busy_tasks (a ++ b) = busy_tasks a ++ busy_tasks b.
Proof. unfold busy_tasks. apply flat_map_app. Qed.
Lemma job_tasks_app a b : job_tasks (a ++ b) = job_tasks a ++ job_tasks b.
Proof. unfold job_tasks. apply flat_map_app. Qed.
Lemma msg_tasks_app a b : msg_tasks (a ++ b) = msg_tasks a ++ msg_tasks b.
Proof. unfold msg_tasks. apply flat_map_app. Qed.
