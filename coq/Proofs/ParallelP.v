(* ParallelP.v -- MRunner / MThreadRunner model: under every schedule (every oracle [sched]),
   every worker count and both flavours, the actions of a task start only after every task it
   declares a dependency on has got its final report. *)
From DoitV Require Import Base Dispatch Runner Parallel DispatchP DispatchInv RunnerTr RunnerP.
Open Scope N_scope.

Definition pfinal (x : name) (e : pevent) : bool := match e with PE e' => is_final_ev x e' | _ => false end.
Definition pfinished (log : list pevent) (x : name) : Prop := existsb (pfinal x) log = true.

Lemma pfinished_app log evs x : pfinished log x -> pfinished (log ++ evs) x.
Proof. unfold pfinished. rewrite existsb_app. intros ->. reflexivity. Qed.

Lemma pfinished_map_PE tr x : finished_in tr x -> pfinished (map PE tr) x.
Proof.
  unfold finished_in, pfinished. induction tr as [|e tr IH]; simpl; auto.
  intros H. apply orb_true_iff in H. destruct H as [H|H]; [rewrite H; reflexivity|].
  rewrite IH; auto. apply orb_true_r.
Qed.

Definition job_tasks (js : list job) : list name := flat_map (fun j => match j with JTask k => [k] | _ => [] end) js.
Definition busy_tasks (ws : list wst) : list name := flat_map (fun w => match w with WBusy k => [k] | _ => [] end) ws.
Definition msg_tasks (ms : list msg) : list name :=
  flat_map (fun m => match m with MResult k | MReport k => [k] | _ => [] end) ms.

Lemma busy_tasks_set_nth ws : forall w s k,
  In k (busy_tasks (set_nth ws w s)) -> In k (busy_tasks ws) \/ s = WBusy k.
Proof.
  induction ws as [|x ws IH]; intros w s k H; simpl in *; auto.
  destruct w as [|w]; simpl in H.
  - apply in_app_iff in H. destruct H as [H|H].
    + destruct s; simpl in H; try contradiction. destruct H as [->|[]]. auto.
    + left. apply in_app_iff. auto.
  - apply in_app_iff in H. destruct H as [H|H].
    + left. apply in_app_iff. auto.
    + destruct (IH w s k H) as [H'|H']; auto. left. apply in_app_iff. auto.
Qed.

Lemma busy_tasks_nth ws w k : nth w ws WExited = WBusy k -> In k (busy_tasks ws).
Proof.
  revert w. induction ws as [|x ws IH]; intros w H; simpl in *.
  - destruct w; discriminate.
  - destruct w as [|w].
    + subst. simpl. auto.
    + apply in_app_iff. right. eapply IH; eauto.
Qed.

Lemma busy_tasks_map_exited (ws : list wst) : busy_tasks (map (fun _ => WExited) ws) = [].
Proof. induction ws; simpl; auto. Qed.
Lemma busy_tasks_app a b : busy_tasks (a ++ b) = busy_tasks a ++ busy_tasks b.
Proof. unfold busy_tasks. apply flat_map_app. Qed.
Lemma job_tasks_app a b : job_tasks (a ++ b) = job_tasks a ++ job_tasks b.
Proof. unfold job_tasks. apply flat_map_app. Qed.
Lemma msg_tasks_app a b : msg_tasks (a ++ b) = msg_tasks a ++ msg_tasks b.
Proof. unfold msg_tasks. apply flat_map_app. Qed.

(* tasks that were selected to run and whose result the main thread has not processed yet:
   queued jobs, tasks a worker is executing, results waiting in the queue *)
Definition res_tasks (ms : list msg) : list name := flat_map (fun m => match m with MResult k => [k] | _ => [] end) ms.
Lemma res_tasks_app a b : res_tasks (a ++ b) = res_tasks a ++ res_tasks b.
Proof. unfold res_tasks. apply flat_map_app. Qed.
Definition cnt (l : list name) (k : name) : nat := count_occ N.eq_dec l k.
Lemma cnt_app a b k : cnt (a ++ b) k = (cnt a k + cnt b k)%nat.
Proof. apply count_occ_app. Qed.
Lemma cnt_In l k : In k l <-> (cnt l k > 0)%nat.
Proof. apply count_occ_In. Qed.
Lemma cnt_notin l k : ~ In k l -> cnt l k = 0%nat.
Proof. apply count_occ_not_In. Qed.
Definition busy_of (s : wst) : list name := match s with WBusy k => [k] | _ => [] end.
Lemma busy_tasks_cnt ws : forall w s k, (w < length ws)%nat ->
  (cnt (busy_tasks (set_nth ws w s)) k + cnt (busy_of (nth w ws WExited)) k = cnt (busy_tasks ws) k + cnt (busy_of s) k)%nat.
Proof.
  induction ws as [|x ws IH]; intros w s k Hw; simpl in Hw; [lia|].
  destruct w as [|w]; simpl.
  - fold (busy_of s). fold (busy_of x). rewrite !cnt_app. lia.
  - fold (busy_of x). rewrite !cnt_app. specialize (IH w s k ltac:(lia)). simpl in IH. lia.
Qed.
Lemma nth_lt_of {A} (l : list A) w d v : nth w l d = v -> v <> d -> (w < length l)%nat.
Proof. intros E Hne. destruct (Nat.ltb_spec w (length l)); auto. rewrite nth_overflow in E by lia. congruence. Qed.

Section Par.
Variable tasks : name -> option task.
Variable wake_rank : name -> name -> N.
Variable calc_rank : name -> N.
Variable continue_ always proc : bool.

Notation node_of := (node_of tasks).
Notation st_of := (st_of tasks).
Notation get_task := (get_task tasks).
Notation RI := (RI tasks).
Notation Pre := (Pre tasks).
Notation static_deps := (static_deps tasks).
Notation worker_step := (worker_step tasks proc).
Notation main_get := (main_get tasks proc).
Notation join_all := (join_all tasks proc).
Notation next_job_loop := (next_job_loop tasks wake_rank calc_rank continue_ always).
Notation get_next_job := (get_next_job tasks wake_rank calc_rank continue_ always).
Notation start_procs := (start_procs tasks wake_rank calc_rank continue_ always proc).
Notation hand_out := (hand_out tasks wake_rank calc_rank continue_ always).
Notation main_loop := (main_loop tasks wake_rank calc_rank continue_ always proc).
Notation terminate := (terminate proc).

(* the log of the parallel run: every action start is preceded by the final report of each dependency *)
Inductive pordered : list pevent -> Prop :=
| po_nil : pordered []
| po_snoc log e : pordered log ->
    (forall t w, e = PStart t w -> forall x, In x (static_deps t) -> pfinished log x) ->
    pordered (log ++ [e]).

Definition is_pstart (e : pevent) : bool := match e with PStart _ _ => true | _ => false end.

Lemma pordered_app_nostart log evs :
  pordered log -> forallb (fun e => negb (is_pstart e)) evs = true -> pordered (log ++ evs).
Proof.
  revert log. induction evs as [|e evs IH]; intros log Ho Hn; simpl in *.
  - rewrite app_nil_r. exact Ho.
  - apply andb_true_iff in Hn. destruct Hn as [He Hn].
    replace (log ++ e :: evs) with ((log ++ [e]) ++ evs) by (rewrite <- app_assoc; reflexivity).
    apply IH; auto. constructor; auto. intros t w ->. discriminate.
Qed.

Lemma pordered_split log : pordered log ->
  forall pre t w post, log = pre ++ PStart t w :: post -> forall x, In x (static_deps t) -> pfinished pre x.
Proof.
  induction 1 as [|log e Ho IH He]; intros pre t w post E x Hx.
  - destruct pre; discriminate.
  - destruct post as [|p post'] using rev_ind.
    + apply app_inj_tail in E. destruct E as [-> ->]. eapply He; eauto.
    + clear IHpost'. rewrite app_comm_cons, app_assoc in E. apply app_inj_tail in E. destruct E as [-> _].
      eapply IH; eauto.
Qed.

(* the reporter / dep_manager events of the log, in order *)
Definition proj (log : list pevent) : list event := flat_map (fun e => match e with PE e' => [e'] | _ => [] end) log.
Definition is_pe (e : pevent) : bool := match e with PE _ => true | _ => false end.
Lemma proj_app a b : proj (a ++ b) = proj a ++ proj b.
Proof. unfold proj. apply flat_map_app. Qed.
Lemma proj_map_PE tr : proj (map PE tr) = tr.
Proof. induction tr; simpl; congruence. Qed.
Lemma proj_nope l : (forall e, In e l -> is_pe e = false) -> proj l = [].
Proof.
  induction l as [|e l IH]; intros H; simpl; auto. rewrite IH by (intros e0 H0; apply H; right; exact H0).
  pose proof (H e (or_introl eq_refl)) as He. destruct e; simpl in *; auto. discriminate.
Qed.
Lemma nope_pfinal l : (forall e, In e l -> is_pe e = false) -> forall x e, In e l -> pfinal x e = false.
Proof. intros H x e He. specialize (H e He). destruct e; simpl in *; auto. discriminate. Qed.

(* x was reported successful or up-to-date in the log *)
Definition pgood (log : list pevent) (x : name) : Prop := good_in (proj log) x.
Lemma pgood_app log evs x : pgood log x -> pgood (log ++ evs) x.
Proof. unfold pgood. rewrite proj_app. apply good_in_app. Qed.

(* every action start is preceded by a success / up-to-date report of each dependency *)
Inductive pcordered : list pevent -> Prop :=
| pco_nil : pcordered []
| pco_snoc log e : pcordered log ->
    (forall t w, e = PStart t w -> forall x, eff_dep tasks t x -> pgood log x) ->
    pcordered (log ++ [e]).

Lemma pcordered_app_nostart log evs :
  pcordered log -> forallb (fun e => negb (is_pstart e)) evs = true -> pcordered (log ++ evs).
Proof.
  revert log. induction evs as [|e evs IH]; intros log Ho Hn; simpl in *.
  - rewrite app_nil_r. exact Ho.
  - apply andb_true_iff in Hn. destruct Hn as [He Hn].
    replace (log ++ e :: evs) with ((log ++ [e]) ++ evs) by (rewrite <- app_assoc; reflexivity).
    apply IH; auto. constructor; auto. intros t w ->. discriminate.
Qed.

Lemma pcordered_split log : pcordered log ->
  forall pre t w post, log = pre ++ PStart t w :: post -> forall x, eff_dep tasks t x -> pgood pre x.
Proof.
  induction 1 as [|log e Ho IH He]; intros pre t w post E x Hx.
  - destruct pre; discriminate.
  - destruct post as [|p post'] using rev_ind.
    + apply app_inj_tail in E. destruct E as [-> ->]. eapply He; eauto.
    + clear IHpost'. rewrite app_comm_cons, app_assoc in E. apply app_inj_tail in E. destruct E as [-> _].
      eapply IH; eauto.
Qed.

(* the tasks whose actions were started, in order *)
Definition pstarts (log : list pevent) : list name := flat_map (fun e => match e with PStart k _ => [k] | _ => [] end) log.
Lemma pstarts_app a b : pstarts (a ++ b) = pstarts a ++ pstarts b.
Proof. unfold pstarts. apply flat_map_app. Qed.
Lemma pstarts_map_PE tr : pstarts (map PE tr) = [].
Proof. induction tr; simpl; auto. Qed.
Lemma pstarts_none l : (forall t w, ~ In (PStart t w) l) -> pstarts l = [].
Proof.
  induction l as [|e l IH]; intros H; simpl; auto. rewrite IH by (intros t w H0; apply (H t w); right; exact H0).
  destruct e; simpl; auto. exfalso. apply (H k w). left. reflexivity.
Qed.

(* a task whose job is queued / running / whose result is queued: it was selected to run and its
   dependencies had finished *)
Definition ready (p : pstate) (k : name) : Prop :=
  st_of (r_d (p_r p)) k <> SNone /\ forall x, eff_dep tasks k x -> good_in (r_tr (p_r p)) x.
Lemma good_in_finished tr x : good_in tr x -> finished_in tr x.
Proof. intros (e & A & B & _). apply finished_in_In. eauto. Qed.
Lemma ready_deps p k : ready p k -> forall x, In x (static_deps k) -> finished_in (r_tr (p_r p)) x.
Proof. intros [_ H] x Hx. apply good_in_finished. apply H. apply ed_static. exact Hx. Qed.

(* ... it is in its `run` phase (nothing reported yet), will not be handed over again, and occurs once *)
Definition live (p : pstate) : list name :=
  job_tasks (p_jobs p) ++ busy_tasks (p_workers p) ++ res_tasks (p_results p).
Definition running_in (d : dstate) (k : name) : Prop := st_of d k = SRun /\ spent tasks d k.
Definition running (p : pstate) (k : name) : Prop := running_in (r_d (p_r p)) k.

Record PI (p : pstate) : Prop := {
  pi_ri : RI (r_d (p_r p)) (r_tr (p_r p));
  pi_pre : Pre (r_d (p_r p));
  pi_sync : forall x, finished_in (firstn (p_seen p) (r_tr (p_r p))) x -> pfinished (p_log p) x;
  pi_ready : forall k, In k (job_tasks (p_jobs p) ++ busy_tasks (p_workers p) ++ msg_tasks (p_results p)) -> ready p k;
  pi_ord : pordered (p_log p);
  pi_seen : (p_seen p <= length (r_tr (p_r p)))%nat;
  pi_run : forall k, In k (live p) -> running p k;
  pi_cnt : forall k, (cnt (live p) k <= 1)%nat;
  pi_proj : proj (p_log p) = firstn (p_seen p) (r_tr (p_r p));
  pi_cord : pcordered (p_log p);
  pi_once : forall k, (cnt (pstarts (p_log p)) k + cnt (job_tasks (p_jobs p)) k <= 1)%nat;
  pi_sp : forall k, In k (pstarts (p_log p)) -> spent tasks (r_d (p_r p)) k;
  pi_pt : PT (p_r p)
}.

Lemma spent_flags d k : spent tasks d k ->
  early (n_pc (node_of d k)) = false /\ in_setup (n_pc (node_of d k)) = false.
Proof. intros [E|[E _]]; rewrite E; auto. Qed.

(* after sync the whole runner trace is reflected in the log *)
Lemma sync_all p x : PI p -> finished_in (r_tr (p_r p)) x -> pfinished (p_log (sync p)) x.
Proof.
  intros HP Hf. unfold sync. simpl.
  rewrite <- (firstn_skipn (p_seen p) (r_tr (p_r p))) in Hf.
  unfold finished_in in Hf. rewrite existsb_app in Hf. apply orb_true_iff in Hf.
  unfold pfinished. rewrite existsb_app. apply orb_true_iff. destruct Hf as [Hf|Hf].
  - left. apply (pi_sync _ HP). exact Hf.
  - right. apply pfinished_map_PE. exact Hf.
Qed.

Lemma firstn_length_all {A} (l : list A) : firstn (length l) l = l.
Proof. apply firstn_all. Qed.

Lemma sync_PI p : PI p -> PI (sync p).
Proof.
  intros HP. pose proof HP as [A B C D E F G H I J]. split; simpl; auto.
  - intros x Hx. rewrite firstn_all in Hx. apply (sync_all p x HP Hx).
  - apply pordered_app_nostart; auto. induction (skipn _ _); simpl; auto.
  - rewrite proj_app, proj_map_PE, I, firstn_all. apply firstn_skipn.
  - apply pcordered_app_nostart; auto. induction (skipn _ _); simpl; auto.
  - intros k. rewrite pstarts_app, pstarts_map_PE, app_nil_r. apply (pi_once _ HP).
  - intros k Hk. rewrite pstarts_app, pstarts_map_PE, app_nil_r in Hk. apply (pi_sp _ HP). exact Hk.
Qed.

Lemma plog_PI p evs :
  PI p -> (forall t w, In (PStart t w) evs ->
             (forall x, eff_dep tasks t x -> good_in (r_tr (p_r p)) x) /\ evs = [PStart t w] /\
             ~ In t (pstarts (p_log p)) /\ ~ In t (job_tasks (p_jobs p)) /\ spent tasks (r_d (p_r p)) t) ->
  (forall e, In e evs -> is_pe e = false) ->
  PI (plog p evs).
Proof.
  intros HP Hs0 Hnf.
  assert (Hs : forall t w, In (PStart t w) evs -> forall x, eff_dep tasks t x -> good_in (r_tr (p_r p)) x)
    by (intros t w Hin; apply (Hs0 t w Hin)).
  pose proof (sync_PI p HP) as HS. unfold plog.
  assert (Iq : proj (p_log (sync p)) = r_tr (p_r p)).
  { rewrite (pi_proj _ HS). cbn [p_seen p_r sync]. apply firstn_all. }
  assert (Hgood : forall x, good_in (r_tr (p_r p)) x -> pgood (p_log (sync p)) x).
  { intros x Hx. unfold pgood. rewrite Iq. exact Hx. }
  set (q := sync p) in *. pose proof HS as [A B C D E F G H I J].
  split; simpl; auto.
  - intros x Hx. apply pfinished_app. apply C. exact Hx.
  - clear C D.
    assert (Hall : forall x, finished_in (r_tr (p_r p)) x -> pfinished (p_log q) x) by (intros x Hx; apply sync_all; auto).
    assert (G0 : forall l log0, pordered log0 ->
               (forall x, finished_in (r_tr (p_r p)) x -> pfinished log0 x) ->
               (forall t w, In (PStart t w) l -> forall x, In x (static_deps t) -> finished_in (r_tr (p_r p)) x) ->
               pordered (log0 ++ l)).
    { induction l as [|e l IH]; intros log0 H0 Hf Hl.
      - rewrite app_nil_r. exact H0.
      - replace (log0 ++ e :: l) with ((log0 ++ [e]) ++ l) by (rewrite <- app_assoc; reflexivity).
        apply IH.
        + constructor; auto. intros t w -> x Hx. apply Hf. apply (Hl t w); [left; reflexivity|exact Hx].
        + intros x Hx. apply pfinished_app. apply Hf. exact Hx.
        + intros t w Hin. apply (Hl t w). right. exact Hin. }
    apply G0; [exact E|exact Hall|]. intros t w Hin x Hx. apply good_in_finished. apply (Hs t w Hin x). apply ed_static. exact Hx.
  - rewrite proj_app, (proj_nope evs Hnf), app_nil_r. exact I.
  - assert (G1 : forall l log0, pcordered log0 ->
               (forall x, good_in (r_tr (p_r p)) x -> pgood log0 x) ->
               (forall t w, In (PStart t w) l -> forall x, eff_dep tasks t x -> good_in (r_tr (p_r p)) x) ->
               pcordered (log0 ++ l)).
    { induction l as [|e l IH]; intros log0 H0 Hf Hl.
      - rewrite app_nil_r. exact H0.
      - replace (log0 ++ e :: l) with ((log0 ++ [e]) ++ l) by (rewrite <- app_assoc; reflexivity).
        apply IH.
        + constructor; auto. intros t w -> x Hx. apply Hf. apply (Hl t w); [left; reflexivity|exact Hx].
        + intros x Hx. apply pgood_app. apply Hf. exact Hx.
        + intros t w Hin. apply (Hl t w). right. exact Hin. }
    apply G1; [exact J|exact Hgood|exact Hs].
  - intros k. rewrite pstarts_app, cnt_app. pose proof (pi_once _ HS k) as Ho. unfold q in Ho. cbn [p_log p_jobs sync] in Ho.
    destruct (in_dec N.eq_dec k (pstarts evs)) as [Hin|Hnin]; [|rewrite (cnt_notin _ _ Hnin); lia].
    unfold pstarts in Hin. apply in_flat_map in Hin. destruct Hin as (e & He & Hk).
    destruct e; simpl in Hk; try contradiction. destruct Hk as [<-|[]].
    destruct (Hs0 k0 w He) as (_ & -> & N1 & N2 & _). simpl.
    destruct (N.eq_dec k0 k0) as [_|Hne]; [|congruence].
    assert (E1 : cnt (pstarts (p_log p ++ map PE (skipn (p_seen p) (r_tr (p_r p))))) k0 = 0%nat).
    { apply cnt_notin. rewrite pstarts_app, pstarts_map_PE, app_nil_r. exact N1. }
    rewrite E1, (cnt_notin _ _ N2). lia.
  - intros k Hk. rewrite pstarts_app in Hk. apply in_app_iff in Hk. destruct Hk as [Hk|Hk].
    + apply (pi_sp _ HS). exact Hk.
    + unfold pstarts in Hk. apply in_flat_map in Hk. destruct Hk as (e & He & Hk).
      destruct e; simpl in Hk; try contradiction. destruct Hk as [<-|[]].
      destruct (Hs0 k0 w He) as (_ & _ & _ & _ & Sp). exact Sp.
Qed.

Definition tasks_of (p : pstate) : list name :=
  job_tasks (p_jobs p) ++ busy_tasks (p_workers p) ++ msg_tasks (p_results p).

(* bookkeeping updates that keep runner state and log *)
Lemma PI_update p p' :
  p_r p' = p_r p -> p_seen p' = p_seen p -> p_log p' = p_log p ->
  (forall k, In k (tasks_of p') -> ready p k) ->
  (forall k, (cnt (live p') k <= cnt (live p) k)%nat) ->
  (forall k, (cnt (job_tasks (p_jobs p')) k <= cnt (job_tasks (p_jobs p)) k)%nat) -> PI p -> PI p'.
Proof.
  intros Er Es El Ht Hc Hcj [A B C D E F G H I J K L]. split; rewrite ?Er, ?Es, ?El; auto.
  - intros k Hk. specialize (Ht k Hk). unfold ready in *. rewrite Er. exact Ht.
  - intros k Hk. unfold running. rewrite Er. apply G. apply cnt_In. apply cnt_In in Hk. specialize (Hc k). lia.
  - intros k. specialize (Hc k). specialize (H k). lia.
  - intros k. specialize (Hcj k). specialize (K k). lia.
Qed.

Lemma ready_tr p p' k :
  r_d (p_r p') = r_d (p_r p) -> (exists evs, r_tr (p_r p') = r_tr (p_r p) ++ evs) -> ready p k -> ready p' k.
Proof.
  intros Ed [evs Et] [A B]. split; rewrite ?Ed; auto. intros x Hx. rewrite Et. apply good_in_app. apply B. exact Hx.
Qed.

(* the runner state of the main thread (thread flavour: shared) gets one more report *)
Lemma PI_with_r p r' evs :
  PI p -> r_d r' = r_d (p_r p) -> r_tr r' = r_tr (p_r p) ++ evs ->
  RI (r_d r') (r_tr r') -> PT r' ->
  PI (with_r p r').
Proof.
  intros HP0. pose proof HP0 as [A B C D E F G H]. intros Ed Et HR HPT. split; simpl; auto.
  - rewrite Ed. exact B.
  - intros x Hx. apply C. rewrite Et in Hx. rewrite firstn_app in Hx.
    replace (p_seen p - length (r_tr (p_r p)))%nat with 0%nat in Hx by lia. simpl in Hx. rewrite app_nil_r in Hx. exact Hx.
  - intros k Hk. specialize (D k Hk). destruct D as [D1 D2]. split; simpl; rewrite ?Ed; auto.
    intros x Hx. rewrite Et. apply good_in_app. apply D2. exact Hx.
  - rewrite Et, app_length. lia.
  - intros k Hk. unfold running. cbn [p_r with_r]. rewrite Ed. apply G. exact Hk.
  - rewrite Et, firstn_app. replace (p_seen p - length (r_tr (p_r p)))%nat with 0%nat by lia. simpl. rewrite app_nil_r.
    apply (pi_proj _ HP0).
  - intros k Hk. rewrite Ed. apply (pi_sp _ HP0). exact Hk.
Qed.

Lemma RI_exec d tr k :
  RI d tr -> (forall x, In x (static_deps k) -> finished_in tr x) -> RI d (tr ++ [EExecute k]).
Proof.
  intros HR Hd. pose proof (start_task_RI tasks {| r_d := d; r_final := 0; r_stop := false; r_td := []; r_tr := tr |} k HR Hd) as H.
  exact H.
Qed.

Lemma in_tasks_of_jobs p k : In k (job_tasks (p_jobs p)) -> In k (tasks_of p).
Proof. unfold tasks_of. rewrite !in_app_iff. auto. Qed.
Lemma in_tasks_of_busy p k : In k (busy_tasks (p_workers p)) -> In k (tasks_of p).
Proof. unfold tasks_of. rewrite !in_app_iff. auto. Qed.
Lemma in_tasks_of_msgs p k : In k (msg_tasks (p_results p)) -> In k (tasks_of p).
Proof. unfold tasks_of. rewrite !in_app_iff. auto. Qed.

Lemma PI_ready_of p k : PI p -> In k (tasks_of p) -> ready p k.
Proof. intros HP H. apply (pi_ready _ HP). exact H. Qed.

Lemma set_nth_length {A} (l : list A) i v : length (set_nth l i v) = length l.
Proof. revert i. induction l as [|x l IH]; intros [|i]; simpl; auto. Qed.

Lemma nofinal_list evs : (forall e, In e evs -> forall x, pfinal x e = false) -> True.
Proof. auto. Qed.

(* the multiset of live tasks does not grow: unfold everything, use the count lemma of set_nth *)
Ltac cnt_unfold :=
  repeat match goal with x := _ : pstate |- _ => subst x end;
  unfold live, put_job, start_worker;
  cbn [p_jobs p_workers p_results p_r with_jobs with_workers with_results with_r with_sched with_counts plog sync];
  rewrite ?job_tasks_app, ?res_tasks_app, ?busy_tasks_app, ?cnt_app.
Ltac solve_cnt :=
  let kk := fresh "kk" in intros kk; cnt_unfold;
  repeat match goal with
  | Hw : (?w < length ?ws)%nat |- context [busy_tasks (set_nth ?ws ?w ?s)] =>
      let H := fresh "Hc" in pose proof (busy_tasks_cnt ws w s kk Hw) as H;
      generalize dependent (cnt (busy_tasks (set_nth ws w s)) kk); intros
  end;
  repeat match goal with E : p_jobs _ = _ |- _ => rewrite E in * end;
  repeat match goal with E : p_results _ = _ |- _ => rewrite E in * end;
  repeat match goal with E : nth _ _ WExited = _ |- _ => rewrite E in * end;
  simpl in *; rewrite ?cnt_app in *; simpl in *;
  repeat match goal with
  | |- context [N.eq_dec ?a ?b] => destruct (N.eq_dec a b)
  | H : context [N.eq_dec ?a ?b] |- _ => destruct (N.eq_dec a b)
  end; lia.

Lemma worker_step_PI p w : PI p -> PI (worker_step p w).
Proof.
  intros HP. unfold Parallel.worker_step.
  destruct (nth w (p_workers p) WExited) as [|k|] eqn:Ew; auto.
  - (* idle worker takes the next job *)
    assert (Hw : (w < length (p_workers p))%nat) by (eapply nth_lt_of; [exact Ew|discriminate]).
    destruct (p_jobs p) as [|j js] eqn:Ej; auto.
    assert (Hjs : forall x, In x (job_tasks js) -> ready p x).
    { intros x Hx. apply PI_ready_of; auto. apply in_tasks_of_jobs. rewrite Ej. simpl. apply in_app_iff. auto. }
    assert (Hbusy : forall x, In x (busy_tasks (p_workers p)) -> ready p x)
      by (intros x Hx; apply PI_ready_of; auto; apply in_tasks_of_busy; auto).
    assert (Hmsg : forall x, In x (msg_tasks (p_results p)) -> ready p x)
      by (intros x Hx; apply PI_ready_of; auto; apply in_tasks_of_msgs; auto).
    destruct j as [k| |].
    + (* a task *)
      assert (Hk : ready p k) by (apply PI_ready_of; auto; apply in_tasks_of_jobs; rewrite Ej; simpl; auto).
      assert (Hk_o : (cnt (pstarts (p_log p)) k = 0 /\ cnt (job_tasks js) k = 0)%nat).
      { pose proof (pi_once _ HP k) as Ho. rewrite Ej in Ho. simpl in Ho.
        destruct (N.eq_dec k k) as [_|Hne]; [|congruence]. lia. }
      assert (Hk_ns : ~ In k (pstarts (p_log p))) by (intros Hin; apply cnt_In in Hin; lia).
      assert (Hk_nj : ~ In k (job_tasks js)) by (intros Hin; apply cnt_In in Hin; lia).
      assert (Hk_sp : spent tasks (r_d (p_r p)) k).
      { apply (pi_run _ HP k). unfold live. rewrite Ej. simpl. left. reflexivity. }
      destruct proc.
      * (* process flavour: the execute report travels through the result queue *)
        apply plog_PI.
        -- apply (PI_update p); auto; try solve_cnt. intros x Hx. unfold tasks_of in Hx. simpl in Hx.
           rewrite !in_app_iff in Hx. destruct Hx as [Hx|[Hx|Hx]]; auto.
           ++ destruct (busy_tasks_set_nth _ _ _ _ Hx) as [H|H]; auto. inversion H; subst. exact Hk.
           ++ rewrite msg_tasks_app in Hx. apply in_app_iff in Hx. destruct Hx as [Hx|Hx]; auto.
              simpl in Hx. destruct Hx as [<-|[]]. exact Hk.
        -- intros t w' [E|[]]. inversion E; subst. simpl.
           split; [intros x Hx; apply (proj2 Hk); exact Hx|]. split; [reflexivity|]. split; [exact Hk_ns|]. split; [exact Hk_nj|exact Hk_sp].
        -- intros e [<-|[]]. reflexivity.
      * (* thread flavour: the shared runner reports the execution itself *)
        apply plog_PI.
        -- set (p1 := with_jobs p js).
           assert (H1 : PI (with_workers p1 (set_nth (p_workers p1) w (WBusy k)) (p_wtd p1))).
           { apply (PI_update p); auto; try solve_cnt. intros x Hx; unfold tasks_of in Hx; simpl in Hx.
             rewrite !in_app_iff in Hx; destruct Hx as [Hx|[Hx|Hx]]; auto.
             destruct (busy_tasks_set_nth _ _ _ _ Hx) as [H|H]; auto. inversion H; subst. exact Hk. }
           set (p2 := with_workers p1 (set_nth (p_workers p1) w (WBusy k)) (p_wtd p1)) in *.
           assert (H2 : PI (with_r p2 (start_task tasks (p_r p2) k))).
           { apply (PI_with_r p2 _ [EExecute k]); auto.
             - unfold start_task. simpl. apply RI_exec; [apply (pi_ri _ HP)|apply (ready_deps _ _ Hk)].
             - apply PT_start. apply (pi_pt _ HP). }
           exact H2.
        -- intros t w' [E|[]]. inversion E; subst. simpl.
           split; [intros x Hx; apply good_in_app; apply (proj2 Hk); exact Hx|]. split; [reflexivity|]. split; [exact Hk_ns|]. split; [exact Hk_nj|exact Hk_sp].
        -- intros e [<-|[]]. reflexivity.
    + (* hold *)
      apply (PI_update p); auto; try solve_cnt. intros x Hx. unfold tasks_of in Hx. simpl in Hx.
      rewrite !in_app_iff in Hx. destruct Hx as [Hx|[Hx|Hx]]; auto.
    + (* terminate *)
      set (p1 := with_jobs p js).
      assert (H1 : PI p1).
      { apply (PI_update p); auto; try solve_cnt. intros x Hx; unfold tasks_of in Hx; simpl in Hx;
          rewrite !in_app_iff in Hx; destruct Hx as [Hx|[Hx|Hx]]; auto. }
      assert (Hr1 : forall x, In x (tasks_of p1) -> ready p1 x) by (intros x Hx; apply PI_ready_of; auto).
      assert (Hw1 : (w < length (p_workers p1))%nat) by exact Hw.
      assert (Ew1 : nth w (p_workers p1) WExited = WIdle) by exact Ew.
      destruct proc.
      * set (mine := rev (nth w (p_wtd p1) [])).
        assert (H2 : PI (plog p1 (map (fun k0 => PTdRun k0 w) mine))).
        { apply plog_PI; auto.
          - intros t w' Hin. apply in_map_iff in Hin. destruct Hin as [y [E _]]. discriminate.
          - intros e Hin. apply in_map_iff in Hin. destruct Hin as [y [<- _]]. reflexivity. }
        assert (Hmine : res_tasks (map MTeardown mine) = []) by (clear; induction mine; simpl; auto).
        apply (PI_update (plog p1 (map (fun k0 => PTdRun k0 w) mine))); auto.
        2:{ intros kk. unfold live. cbn [p_jobs p_workers p_results with_jobs with_workers with_results plog sync].
            rewrite res_tasks_app, Hmine, app_nil_r, !cnt_app.
            pose proof (busy_tasks_cnt (p_workers p1) w WExited kk Hw1) as Hc. rewrite Ew1 in Hc.
            unfold p1 in *. cbn [p_jobs p_workers p_results with_jobs busy_of cnt count_occ] in *. lia. }
        intros x Hx. unfold tasks_of in Hx. simpl in Hx.
        assert (Hold : forall y, In y (tasks_of p1) -> ready (plog p1 (map (fun k0 => PTdRun k0 w) mine)) y).
        { intros y Hy. specialize (Hr1 y Hy). exact Hr1. }
        rewrite !in_app_iff in Hx. destruct Hx as [Hx|[Hx|Hx]].
        -- apply Hold. unfold tasks_of. rewrite !in_app_iff. auto.
        -- destruct (busy_tasks_set_nth _ _ _ _ Hx) as [H|H]; [|discriminate].
           apply Hold. unfold tasks_of. rewrite !in_app_iff. auto.
        -- rewrite msg_tasks_app in Hx. apply in_app_iff in Hx. destruct Hx as [Hx|Hx].
           ++ apply Hold. unfold tasks_of. rewrite !in_app_iff. auto.
           ++ exfalso. clear -Hx. induction mine; simpl in Hx; auto.
      * apply (PI_update p1); auto.
        2:{ intros kk. unfold live. cbn [p_jobs p_workers p_results with_jobs with_workers with_results].
            rewrite !cnt_app.
            pose proof (busy_tasks_cnt (p_workers p1) w WExited kk Hw1) as Hc. rewrite Ew1 in Hc.
            unfold p1 in *. cbn [p_jobs p_workers p_results with_jobs busy_of cnt count_occ] in *. lia. }
        intros x Hx. unfold tasks_of in Hx. simpl in Hx.
        rewrite !in_app_iff in Hx. destruct Hx as [Hx|[Hx|Hx]].
        -- apply Hr1. unfold tasks_of. rewrite !in_app_iff. auto.
        -- destruct (busy_tasks_set_nth _ _ _ _ Hx) as [H|H]; [|discriminate]. apply Hr1. unfold tasks_of. rewrite !in_app_iff. auto.
        -- apply Hr1. unfold tasks_of. rewrite !in_app_iff. auto.
  - (* busy worker finishes its task *)
    assert (Hw : (w < length (p_workers p))%nat) by (eapply nth_lt_of; [exact Ew|discriminate]).
    assert (Hk : ready p k) by (apply PI_ready_of; auto; apply in_tasks_of_busy; eapply busy_tasks_nth; eauto).
    assert (H1 : PI (plog p [PEnd k w])).
    { apply plog_PI; auto.
      - intros t w' [E|[]]. discriminate.
      - intros e [<-|[]]. reflexivity. }
    assert (Hr1 : forall x, In x (tasks_of p) -> ready (plog p [PEnd k w]) x) by (intros x Hx; apply (PI_ready_of p); auto).
    assert (Hcnt : forall s ms, res_tasks ms = [] \/ (s = WIdle /\ res_tasks ms = [k]) -> busy_of s = [] -> forall kk,
       (cnt (job_tasks (p_jobs p) ++ busy_tasks (set_nth (p_workers p) w s) ++ res_tasks (p_results p ++ ms)) kk
        <= cnt (live p) kk)%nat).
    { intros s ms Hms Hs kk. unfold live. rewrite res_tasks_app, !cnt_app.
      pose proof (busy_tasks_cnt (p_workers p) w s kk Hw) as Hc. rewrite Ew, Hs in Hc. simpl in Hc.
      destruct Hms as [->|[_ ->]]; simpl; lia. }
    destruct (is_interrupt tasks k).
    + apply (PI_update (plog p [PEnd k w])); auto.
      2:{ intros kk. apply (Hcnt WExited [MExit k]); auto. }
      intros x Hx. unfold tasks_of in Hx. simpl in Hx.
      rewrite !in_app_iff in Hx. destruct Hx as [Hx|[Hx|Hx]].
      * apply Hr1. unfold tasks_of. rewrite !in_app_iff. auto.
      * destruct (busy_tasks_set_nth _ _ _ _ Hx) as [H|H]; [|discriminate]. apply Hr1. unfold tasks_of. rewrite !in_app_iff. auto.
      * rewrite msg_tasks_app in Hx. apply in_app_iff in Hx. destruct Hx as [Hx|Hx]; [|destruct Hx].
        apply Hr1. unfold tasks_of. rewrite !in_app_iff. auto.
    + apply (PI_update (plog p [PEnd k w])); auto.
      2:{ intros kk. apply (Hcnt WIdle [MResult k]); auto. }
      intros x Hx. unfold tasks_of in Hx. simpl in Hx.
      rewrite !in_app_iff in Hx. destruct Hx as [Hx|[Hx|Hx]].
      * apply Hr1. unfold tasks_of. rewrite !in_app_iff. auto.
      * destruct (busy_tasks_set_nth _ _ _ _ Hx) as [H|H]; [|discriminate]. apply Hr1. unfold tasks_of. rewrite !in_app_iff. auto.
      * rewrite msg_tasks_app in Hx. apply in_app_iff in Hx. destruct Hx as [Hx|Hx].
        -- apply Hr1. unfold tasks_of. rewrite !in_app_iff. auto.
        -- simpl in Hx. destruct Hx as [<-|[]]. exact Hk.
Qed.

(* ---------- the main thread ---------- *)
Lemma main_get_PI fuel : forall p m p', PI p -> main_get fuel p = (m, p') ->
  PI p' /\ (forall k, m = Some (MResult k) \/ m = Some (MReport k) -> ready p' k) /\
  (forall k, m = Some (MResult k) -> running p' k /\ ~ In k (live p')).
Proof.
  induction fuel as [|fuel IH]; intros p m p' HP E; cbn [Parallel.main_get] in E.
  { inversion E; subst. split; auto. split; [intros k [H|H]; discriminate|intros k H; discriminate]. }
  set (ws := enabled_workers p (length (p_workers p)) 0) in *.
  destruct ((if negb (is_nil (p_results p)) then 1 else 0) + length ws)%nat eqn:En.
  { inversion E; subst. split; [|split; [intros k [H|H]; discriminate|intros k H; discriminate]].
    apply plog_PI; auto.
    + intros t w [H|[]]. discriminate.
    + intros e [<-|[]]. reflexivity. }
  destruct (choose (S n) (p_sched p)) as [c s].
  assert (Hs : PI (with_sched p s)) by (apply (PI_update p); auto; intros x Hx; apply PI_ready_of; auto).
  destruct (negb (is_nil (p_results p)) && Nat.eqb c 0).
  - simpl in E. destruct (p_results p) as [|m0 rs] eqn:Er.
    + inversion E; subst. split; auto. split; [intros k [H|H]; discriminate|intros k H; discriminate].
    + inversion E; subst.
      assert (Hle : forall kk, (cnt (live (with_results (with_sched p s) rs)) kk + cnt (res_tasks [m0]) kk = cnt (live p) kk)%nat).
      { intros kk. unfold live. cbn [p_jobs p_workers p_results with_results with_sched]. rewrite Er.
        change (m0 :: rs) with ([m0] ++ rs). rewrite res_tasks_app, !cnt_app. lia. }
      split; [|split].
      * apply (PI_update (with_sched p s)); auto.
        -- intros x Hx. apply (PI_ready_of (with_sched p s)); auto.
           unfold tasks_of in *. simpl in *. rewrite Er. rewrite !in_app_iff in *. destruct Hx as [Hx|[Hx|Hx]]; auto.
           right; right. simpl. apply in_app_iff. auto.
        -- intros kk. specialize (Hle kk). change (live (with_sched p s)) with (live p). lia.
      * intros k Hk. assert (Hin : In k (tasks_of p)).
        { apply in_tasks_of_msgs. rewrite Er. simpl. destruct Hk as [H|H]; inversion H; subst; simpl; auto. }
        exact (PI_ready_of p k HP Hin).
      * intros k Hk. inversion Hk; subst. pose proof (Hle k) as Hk1. simpl in Hk1.
        destruct (N.eq_dec k k) as [_|Hne]; [|congruence].
        pose proof (pi_cnt _ HP k) as Hk2. split.
        -- apply (pi_run _ HP). apply cnt_In. lia.
        -- intros Hin. apply cnt_In in Hin. lia.
  - eapply IH; [|exact E]. apply worker_step_PI. exact Hs.
Qed.

Lemma join_all_PI fuel : forall p, PI p -> PI (join_all fuel p).
Proof.
  induction fuel as [|fuel IH]; intros p HP; cbn [Parallel.join_all]; auto.
  destruct (enabled_workers p (length (p_workers p)) 0) as [|w ws] eqn:Ew; auto.
  destruct (choose (length (w :: ws)) (p_sched p)) as [c s].
  apply IH. apply worker_step_PI. apply (PI_update p); auto. intros x Hx. apply PI_ready_of; auto.
Qed.

(* ---------- get_next_job ---------- *)
(* replacing the main runner state by a later one: same or longer trace, statuses of in-flight
   tasks still known *)
Lemma PI_with_r_gen p r' :
  PI p -> RI (r_d r') (r_tr r') -> Pre (r_d r') ->
  (exists evs, r_tr r' = r_tr (p_r p) ++ evs) ->
  (forall k, In k (tasks_of p) -> st_of (r_d r') k <> SNone) ->
  (forall k, In k (live p) -> running_in (r_d r') k) ->
  (forall k, spent tasks (r_d (p_r p)) k -> spent tasks (r_d r') k) -> PT r' ->
  PI (with_r p r').
Proof.
  intros HP0. pose proof HP0 as [A B C D E F G H]. intros HR HPre [evs Et] Hst Hrun Hsp HPT. split; simpl; auto.
  - intros x Hx. apply C. rewrite Et in Hx. rewrite firstn_app in Hx.
    replace (p_seen p - length (r_tr (p_r p)))%nat with 0%nat in Hx by lia. simpl in Hx. rewrite app_nil_r in Hx. exact Hx.
  - intros k Hk. specialize (D k Hk). destruct D as [D1 D2]. split; simpl; auto.
    intros x Hx. rewrite Et. apply good_in_app. apply D2. exact Hx.
  - rewrite Et, app_length. lia.
  - rewrite Et, firstn_app. replace (p_seen p - length (r_tr (p_r p)))%nat with 0%nat by lia. simpl. rewrite app_nil_r.
    apply (pi_proj _ HP0).
Qed.

Lemma running_in_disp d d' y k : disp_post tasks d d' y -> running_in d k -> running_in d' k.
Proof.
  intros (_ & _ & _ & St & _ & Sp & _) [A B]. split; [rewrite St; exact A|apply Sp; exact B].
Qed.

Lemma next_job_loop_PI fuel : forall p completed g p',
  PI p -> (forall k, completed = Some k -> st_of (r_d (p_r p)) k <> SNone) ->
  next_job_loop fuel p completed = (g, p') ->
  PI p' /\ (forall k, g = GJob (JTask k) -> ready p' k /\ running p' k /\ ~ In k (live p') /\ ~ In k (pstarts (p_log p'))).
Proof.
  induction fuel as [|fuel IH]; intros p completed g p' HP Hc E; cbn [Parallel.next_job_loop] in E.
  { inversion E; subst. split; auto. intros k H; discriminate. }
  destruct (disp_send tasks wake_rank calc_rank (S fuel) (r_d (p_r p)) completed) as [y d] eqn:Ed.
  pose proof (pi_ri _ HP) as HR.
  pose proof (disp_send_spec tasks wake_rank calc_rank _ _ _ _ _ (ri_inv _ _ _ HR) (pi_pre _ HP) (ri_res _ _ _ HR) (ri_q _ _ _ HR) Hc Ed) as Hpost.
  pose proof (RI_disp tasks _ _ _ _ HR Hpost) as HR'.
  assert (Hst : forall x, st_of d x = st_of (r_d (p_r p)) x) by (destruct Hpost as (_ & _ & _ & S & _); exact S).
  assert (Hrund : forall k, In k (live p) -> running_in d k).
  { intros k Hk. eapply running_in_disp; [exact Hpost|]. apply (pi_run _ HP). exact Hk. }
  assert (Hspd : forall z, spent tasks (r_d (p_r p)) z -> spent tasks d z)
    by (destruct Hpost as (_ & _ & _ & _ & _ & Sp & _); exact Sp).
  assert (Hwd : forall (HPre : Pre d), PI (with_r p (with_d (p_r p) d))).
  { intros HPre. apply PI_with_r_gen; auto.
    - exists []. simpl. rewrite app_nil_r. reflexivity.
    - intros k Hk. simpl. rewrite Hst. apply (proj1 (PI_ready_of p k HP Hk)).
    - apply PT_with_d. apply (pi_pt _ HP). }
  destruct y as [k| | |path|].
  - destruct (handed_of_post tasks _ _ _ Hpost) as (HK & Hcur & Hns).
    destruct (select_task tasks continue_ always (with_d (p_r p) d) k) as [b r1] eqn:Es.
    pose proof (select_task_post tasks continue_ always (with_d (p_r p) d) k b r1 HR' HK Es) as (R1 & P1 & S1 & Pc1 & C1 & D1 & T1 & O1).
    destruct (select_task_ext tasks continue_ always _ _ _ _ Es) as [Ext Sto].
    assert (Hknl : ~ In k (live p)).
    { intros Hin. apply Hns. apply (pi_run _ HP k Hin). }
    assert (H1 : PI (with_r p r1)).
    { apply PI_with_r_gen; auto.
      - intros x Hx. destruct (N.eqb_spec x k) as [->|Hne]; [exact S1|].
        rewrite Sto by auto. simpl. rewrite Hst. apply (proj1 (PI_ready_of p x HP Hx)).
      - intros x Hx. assert (Hne : x <> k) by (intros ->; contradiction).
        destruct (Hrund x Hx) as [A B]. split.
        + rewrite O1 by auto. exact A.
        + eapply spent_pc; [apply Pc1|]. exact B.
      - intros z Hz. eapply spent_pc; [apply Pc1|]. apply Hspd. exact Hz.
      - eapply PT_select; [|exact Es]. apply PT_with_d. apply (pi_pt _ HP). }
    destruct b.
    + inversion E; subst. split; auto. intros k0 Ek. inversion Ek; subst. split; [split; simpl; auto|].
      { intros x Hx. apply (select_true_good tasks continue_ always (with_d (p_r p) d) k0 r1 HR' HK Es x Hx). }
      split; [|split; [exact Hknl|intros Hin; apply Hns; apply (pi_sp _ HP k0 Hin)]].
      split; [apply (T1 eq_refl)|]. apply (select_true_spent tasks continue_ always (with_d (p_r p) d) k0 r1 HR' HK Es).
    + eapply IH; [exact H1| |exact E]. intros k0 Ek. inversion Ek; subst. exact S1.
  - inversion E; subst. split; [|intros k H; discriminate].
    apply (PI_update (with_r p (with_d (p_r p) d))); auto.
    + intros x Hx. apply (PI_ready_of (with_r p (with_d (p_r p) d))); auto.
      apply Hwd. destruct Hpost as (_ & _ & _ & _ & _ & _ & PP). exact PP.
    + apply Hwd. destruct Hpost as (_ & _ & _ & _ & _ & _ & PP). exact PP.
  - inversion E; subst. split; [|intros k H; discriminate].
    apply Hwd. destruct Hpost as (_ & _ & _ & _ & _ & _ & PP). exact PP.
  - inversion E; subst. split; [|intros k H; discriminate].
    apply Hwd. destruct Hpost as (_ & _ & _ & _ & _ & _ & PP). exact PP.
  - inversion E; subst. split; auto. intros k H; discriminate.
Qed.

Lemma get_next_job_PI fuel p completed g p' :
  PI p -> (forall k, completed = Some k -> st_of (r_d (p_r p)) k <> SNone) ->
  get_next_job fuel p completed = (g, p') ->
  PI p' /\ (forall k, g = GJob (JTask k) -> ready p' k /\ running p' k /\ ~ In k (live p') /\ ~ In k (pstarts (p_log p'))).
Proof.
  intros HP Hc E. unfold Parallel.get_next_job in E. destruct (r_stop (p_r p)).
  - inversion E; subst. split; auto. intros k H; discriminate.
  - eapply next_job_loop_PI; eauto.
Qed.

(* ---------- queues ---------- *)
Lemma put_job_PI p j :
  PI p -> (forall k, j = JTask k -> ready p k /\ running p k /\ ~ In k (live p) /\ ~ In k (pstarts (p_log p))) -> PI (put_job p j).
Proof.
  intros HP Hj. pose proof HP as [A B C D E F G H]. split; auto.
  - intros x Hx. unfold tasks_of, put_job in Hx. simpl in Hx.
    rewrite job_tasks_app in Hx. rewrite !in_app_iff in Hx.
    destruct Hx as [[Hx|Hx]|[Hx|Hx]].
    + apply (PI_ready_of p); auto. apply in_tasks_of_jobs. exact Hx.
    + destruct j; simpl in Hx; try contradiction. destruct Hx as [<-|[]]. apply Hj. reflexivity.
    + apply (PI_ready_of p); auto. apply in_tasks_of_busy. exact Hx.
    + apply (PI_ready_of p); auto. apply in_tasks_of_msgs. exact Hx.
  - intros x Hx. unfold live, put_job in Hx. cbn [p_jobs p_workers p_results with_jobs] in Hx.
    rewrite job_tasks_app in Hx. rewrite !in_app_iff in Hx.
    destruct Hx as [[Hx|Hx]|[Hx|Hx]]; try (apply G; unfold live; rewrite !in_app_iff; auto; fail).
    destruct j; simpl in Hx; try contradiction. destruct Hx as [<-|[]]. apply Hj. reflexivity.
  - intros kk. unfold live, put_job. cbn [p_jobs p_workers p_results with_jobs].
    rewrite job_tasks_app, !cnt_app. specialize (H kk). unfold live in H. rewrite !cnt_app in H.
    destruct j as [k| |]; simpl; try lia.
    destruct (N.eq_dec k kk) as [->|Hne]; [|lia].
    destruct (Hj kk eq_refl) as (_ & _ & Hn & _). apply cnt_notin in Hn. unfold live in Hn. rewrite !cnt_app in Hn. lia.
  - intros kk. unfold put_job. cbn [p_log p_jobs with_jobs]. rewrite job_tasks_app, cnt_app.
    pose proof (pi_once _ HP kk) as Ho.
    destruct j as [k| |]; simpl; try lia.
    destruct (N.eq_dec k kk) as [->|Hne]; [|lia].
    destruct (Hj kk eq_refl) as (_ & _ & Hn & Hs). apply cnt_notin in Hs.
    assert (Hj0 : cnt (job_tasks (p_jobs p)) kk = 0%nat).
    { apply cnt_notin. intros Hin. apply Hn. unfold live. rewrite !in_app_iff. auto. }
    lia.
Qed.

Lemma start_worker_PI p : PI p -> PI (start_worker p).
Proof.
  intros HP. apply (PI_update p); auto.
  - intros x Hx. apply PI_ready_of; auto.
    unfold tasks_of, start_worker in *. simpl in Hx. rewrite busy_tasks_app in Hx. simpl in Hx. rewrite app_nil_r in Hx. exact Hx.
  - intros kk. unfold live, start_worker. cbn [p_jobs p_workers p_results with_workers].
    rewrite busy_tasks_app. simpl. rewrite app_nil_r. lia.
Qed.

Lemma with_counts_PI p a b : PI p -> PI (with_counts p a b).
Proof. intros HP. apply (PI_update p); auto. intros x Hx. apply PI_ready_of; auto. Qed.

Lemma terminate_PI p : PI p -> PI (terminate p).
Proof.
  intros HP. unfold Parallel.terminate. destruct (proc && negb (is_nil (p_workers p))); auto.
  apply plog_PI.
  - apply (PI_update p); auto.
    + intros x Hx. apply PI_ready_of; auto.
      unfold tasks_of in *. simpl in Hx. rewrite busy_tasks_map_exited in Hx. simpl in Hx.
      rewrite !in_app_iff in *. destruct Hx; auto.
    + intros kk. unfold live. cbn [p_jobs p_workers p_results with_workers].
      rewrite busy_tasks_map_exited, !cnt_app. simpl. lia.
  - intros t w [E|[]]. discriminate.
  - intros e [<-|[]]. reflexivity.
Qed.

Lemma start_procs_PI fuel n : forall p e p', PI p -> start_procs fuel n p = (e, p') -> PI p'.
Proof.
  induction n as [|n IH]; intros p e p' HP E; cbn [Parallel.start_procs] in E.
  { inversion E; subst. exact HP. }
  destruct (get_next_job fuel p None) as [g p1] eqn:Eg.
  destruct (get_next_job_PI fuel p None g p1 HP ltac:(intros k H; discriminate) Eg) as [H1 Hr].
  destruct g as [j| |path|].
  - eapply IH; [|exact E]. apply start_worker_PI. apply put_job_PI; auto. intros k ->. apply Hr. reflexivity.
  - inversion E; subst. exact H1.
  - inversion E; subst. apply terminate_PI. exact H1.
  - inversion E; subst. exact H1.
Qed.

Lemma hand_out_PI fuel n : forall p completed e p',
  PI p -> (forall k, completed = Some k -> st_of (r_d (p_r p)) k <> SNone) ->
  hand_out fuel n p completed = (e, p') -> PI p'.
Proof.
  induction n as [|n IH]; intros p completed e p' HP Hc E; cbn [Parallel.hand_out] in E.
  { inversion E; subst. exact HP. }
  destruct (get_next_job fuel p completed) as [g p1] eqn:Eg.
  destruct (get_next_job_PI fuel p completed g p1 HP Hc Eg) as [H1 Hr].
  destruct g as [j| |path|].
  - eapply IH; [| |exact E].
    + apply put_job_PI; auto. intros k ->. apply Hr. reflexivity.
    + intros k H; discriminate.
  - eapply IH; [| |exact E].
    + apply put_job_PI; [apply with_counts_PI; exact H1|intros k H; discriminate].
    + intros k H; discriminate.
  - inversion E; subst. exact H1.
  - inversion E; subst. exact H1.
Qed.

(* the result of a task reaches the main thread *)
Lemma process_result_PI p k :
  PI p -> ready p k -> running p k -> ~ In k (live p) ->
  PI (with_r p (process_result tasks continue_ (p_r p) k)) /\
  st_of (r_d (process_result tasks continue_ (p_r p) k)) k <> SNone.
Proof.
  intros HP [Hst Hdeps] [Hrun Hsp] Hnl.
  pose proof (pi_ri _ HP) as HR.
  destruct (spent_flags _ _ Hsp) as [He Hns].
  assert (HPx : PreX tasks (r_d (p_r p)) k) by (intros z Hz Hpc; apply (pi_pre _ HP); exact Hpc).
  destruct (process_result_post tasks continue_ (p_r p) k HR He HPx Hns Hrun) as [(R3 & P3 & S3)|Hint].
  - assert (Hsx : forall x, x <> k -> st_of (r_d (process_result tasks continue_ (p_r p) k)) x = st_of (r_d (p_r p)) x).
    { intros x Hne. unfold Runner.process_result. destruct (t_outcome (get_task k)); simpl; auto;
        rewrite set_status_st; apply N.eqb_neq in Hne; rewrite Hne; reflexivity. }
    split; auto. apply PI_with_r_gen; auto.
    + unfold Runner.process_result. destruct (t_outcome (get_task k)); simpl;
        try (eexists; reflexivity); exists []; rewrite app_nil_r; reflexivity.
    + intros x Hx. destruct (N.eqb_spec x k) as [->|Hne]; [exact S3|].
      rewrite Hsx by auto. apply (proj1 (PI_ready_of p x HP Hx)).
    + intros x Hx. assert (Hne : x <> k) by (intros ->; contradiction).
      destruct (pi_run _ HP x Hx) as [A B]. split.
      * rewrite Hsx by auto. exact A.
      * eapply spent_pc; [apply process_result_pc|]. exact B.
    + intros z Hz. eapply spent_pc; [apply process_result_pc|]. exact Hz.
    + apply PT_process. apply (pi_pt _ HP).
  - unfold Runner.process_result. rewrite Hint. split; auto.
    apply (PI_update p); auto. intros x Hx. apply PI_ready_of; auto.
Qed.

Lemma PI_emit_main p evs :
  PI p -> RI (r_d (p_r p)) (r_tr (p_r p) ++ evs) -> forallb (fun e => negb (is_pair_ev e)) evs = true ->
  PI (with_r p (emit (p_r p) evs)).
Proof.
  intros HP HR Hpl. apply (PI_with_r p _ evs); auto. apply PT_emit_plain; auto. apply (pi_pt _ HP).
Qed.

Lemma main_loop_PI fuel : forall p e p', PI p -> main_loop fuel p = (e, p') -> PI p'.
Proof.
  induction fuel as [|fuel IH]; intros p e p' HP E; cbn [Parallel.main_loop] in E.
  { inversion E; subst. exact HP. }
  destruct (p_count p). { inversion E; subst. exact HP. }
  destruct (main_get (S fuel * 4) p) as [m p1] eqn:Em.
  destruct (main_get_PI _ _ _ _ HP Em) as (H1 & Hr & Hrr).
  destruct m as [[k|k|k|k]|].
  - (* a result *)
    assert (Hk : ready p1 k) by (apply Hr; left; reflexivity).
    destruct (Hrr k eq_refl) as [Hk2 Hk3].
    destruct (process_result_PI p1 k H1 Hk Hk2 Hk3) as [H2 S2].
    set (p2 := with_r p1 (process_result tasks continue_ (p_r p1) k)) in *.
    destruct (hand_out (S fuel) (S (p_free p2)) (with_counts p2 0 (p_count p2)) (Some k)) as [e2 p3] eqn:Eh.
    assert (H3 : PI p3).
    { eapply hand_out_PI; [| |exact Eh]; [apply with_counts_PI; exact H2|].
      intros k0 Ek. inversion Ek; subst. exact S2. }
    destruct e2; try (inversion E; subst; apply terminate_PI; exact H3).
    destruct (deadlocked p3).
    + inversion E; subst. apply terminate_PI. exact H3.
    + eapply IH; eauto.
  - (* execute report forwarded by a worker process *)
    eapply IH; [|exact E]. apply PI_emit_main; auto.
    apply RI_exec; [apply (pi_ri _ H1)|]. apply (ready_deps _ _ (Hr k (or_intror eq_refl))).
  - (* teardown report *)
    eapply IH; [|exact E]. apply PI_emit_main; auto. apply RI_emit; [apply (pi_ri _ H1)|reflexivity|intros e0 x0 [<-|[]]; reflexivity].
  - inversion E; subst. apply terminate_PI. exact H1.
  - inversion E; subst. apply terminate_PI. exact H1.
Qed.

Lemma drain_PI p : PI p -> PI (drain p).
Proof.
  intros HP. unfold drain.
  set (evs := flat_map _ (p_results p)).
  assert (Hev : forall k, In (EExecute k) evs -> ready p k).
  { intros k Hk. unfold evs in Hk. apply in_flat_map in Hk. destruct Hk as [m [Hm Hk]].
    destruct m; simpl in Hk; try contradiction; destruct Hk as [Hk|[]]; inversion Hk; subst.
    apply PI_ready_of; auto. apply in_tasks_of_msgs.
    clear -Hm. induction (p_results p) as [|x l IH]; simpl in *; [contradiction|].
    destruct Hm as [->|Hm]; simpl; auto. apply in_app_iff. right. apply IH. exact Hm. }
  assert (Hshape : forall e, In e evs -> (exists k, e = EExecute k) \/ (exists k, e = ETeardown k)).
  { intros e He. unfold evs in He. apply in_flat_map in He. destruct He as [m [_ He]].
    destruct m; simpl in He; try contradiction; destruct He as [<-|[]]; eauto. }
  assert (HRI : forall l tr, (forall k, In (EExecute k) l -> forall x, In x (static_deps k) -> finished_in tr x) ->
                 (forall e, In e l -> (exists k, e = EExecute k) \/ (exists k, e = ETeardown k)) ->
                 RI (r_d (p_r p)) tr -> RI (r_d (p_r p)) (tr ++ l)).
  { induction l as [|e l IH]; intros tr Hl Hsh HR.
    - rewrite app_nil_r. exact HR.
    - replace (tr ++ e :: l) with ((tr ++ [e]) ++ l) by (rewrite <- app_assoc; reflexivity).
      apply IH.
      + intros k Hk x Hx. apply finished_in_app. apply (Hl k); [right; exact Hk|exact Hx].
      + intros e0 H0. apply Hsh. right. exact H0.
      + destruct (Hsh e (or_introl eq_refl)) as [[k ->]|[k ->]].
        * apply RI_exec; auto. intros x Hx. apply (Hl k); [left; reflexivity|exact Hx].
        * apply RI_emit; [exact HR|reflexivity|intros e0 x0 [<-|[]]; reflexivity]. }
  assert (H1 : PI (with_r p (emit (p_r p) evs))).
  { apply PI_emit_main; auto.
    - apply HRI; [|exact Hshape|apply (pi_ri _ HP)].
      intros k Hk x Hx. apply (ready_deps _ _ (Hev k Hk)). exact Hx.
    - clear -Hshape. induction evs as [|e l IH]; simpl; auto.
      rewrite IH by (intros e0 H0; apply Hshape; right; exact H0). rewrite andb_true_r.
      destruct (Hshape e (or_introl eq_refl)) as [[k ->]|[k ->]]; reflexivity. }
  apply (PI_update (with_r p (emit (p_r p) evs))); auto.
  - intros x Hx. apply (PI_ready_of (with_r p (emit (p_r p) evs))); auto.
    unfold tasks_of in *. simpl in *. rewrite !in_app_iff in *. destruct Hx as [Hx|[Hx|Hx]]; auto. destruct Hx.
  - intros kk. unfold live. cbn [p_jobs p_workers p_results with_results with_r]. rewrite !cnt_app. simpl. lia.
Qed.

Lemma PI_init sched sel : PI (p_init sched sel).
Proof.
  split; simpl.
  - apply RI_init.
  - intros z Hz. simpl in Hz. discriminate.
  - intros x Hx. discriminate.
  - intros k [].
  - constructor.
  - lia.
  - intros k [].
  - intros k. unfold live. simpl. lia.
  - reflexivity.
  - constructor.
  - intros k. simpl. lia.
  - intros k [].
  - apply PT_init.
Qed.

Lemma finish_PI p : PI p -> PI (sync (with_r p (finish (p_r p)))).
Proof.
  intros HP. apply sync_PI. unfold finish. apply PI_emit_main; auto.
  - apply (finish_RI tasks). apply (pi_ri _ HP).
  - simpl. induction (rev (r_td (p_r p))); simpl; auto.
Qed.

(* the state the run ends in: the invariant holds, the whole runner trace is in the log, and the log
   returned is that log plus (possibly) the exception marker *)
Definition marker_ok (mk : list pevent) : Prop :=
  mk = [] \/ exists e, mk = [PE e] /\ is_fin e = false /\ is_exec e = false /\ is_pair_ev e = false.

Lemma parallel_final fuel nprocs sched sel :
  exists p3 mk, PI p3 /\ p_seen p3 = length (r_tr (p_r p3)) /\ marker_ok mk /\
    fst (run_parallel tasks wake_rank calc_rank continue_ always proc fuel nprocs sched sel) = p_log p3 ++ mk /\
    let c := snd (run_parallel tasks wake_rank calc_rank continue_ always proc fuel nprocs sched sel) in
    ((c = r_final (p_r p3) /\ mk = []) \/ In c [3; 4; 98; 99]).
Proof.
  unfold run_parallel.
  destruct (start_procs fuel nprocs (p_init sched sel)) as [e1 p1] eqn:E1.
  pose proof (start_procs_PI fuel nprocs _ _ _ (PI_init sched sel) E1) as H1.
  assert (Hfin : forall p2 mk c, PI p2 -> marker_ok mk ->
     ((c = r_final (p_r (sync (with_r p2 (finish (p_r p2))))) /\ mk = []) \/ In c [3; 4; 98; 99]) ->
     exists p3 mk', PI p3 /\ p_seen p3 = length (r_tr (p_r p3)) /\ marker_ok mk' /\
       p_log (sync (with_r p2 (finish (p_r p2)))) ++ mk = p_log p3 ++ mk' /\
       ((c = r_final (p_r p3) /\ mk' = []) \/ In c [3; 4; 98; 99])).
  { intros p2 mk c H2 Hm Hc. exists (sync (with_r p2 (finish (p_r p2)))), mk.
    split; [apply finish_PI; exact H2|]. split; [reflexivity|]. split; [exact Hm|]. split; [reflexivity|exact Hc]. }
  assert (M0 : marker_ok []) by (left; reflexivity).
  assert (M1 : forall e, is_fin e = false -> is_exec e = false -> is_pair_ev e = false -> marker_ok [PE e]) by (intros e A B C; right; exists e; auto).
  destruct e1; try (cbv beta iota zeta delta [fst snd]; apply Hfin; [exact H1|first [exact M0|apply M1; reflexivity]|first [left; split; reflexivity|right; simpl; tauto]]).
  set (p1' := with_counts p1 (p_free p1) (length (p_workers p1))).
  assert (H1' : PI p1') by (apply with_counts_PI; exact H1).
  destruct (deadlocked p1').
  { cbv beta iota zeta delta [fst snd]. apply Hfin; [apply terminate_PI; exact H1'|apply M1; reflexivity|right; simpl; tauto]. }
  destruct (main_loop fuel p1') as [e2 p2] eqn:E2.
  pose proof (main_loop_PI fuel _ _ _ H1' E2) as H2.
  destruct e2; cbv beta iota zeta delta [fst snd]; apply Hfin; auto; try (apply M1; reflexivity);
    try (right; simpl; tauto); try (left; split; reflexivity).
  apply drain_PI. apply join_all_PI. exact H2.
Qed.

Lemma marker_nostart mk : marker_ok mk -> forallb (fun e => negb (is_pstart e)) mk = true.
Proof. intros [->|(e & -> & _)]; reflexivity. Qed.

(* the log of every parallel run, whatever the schedule *)
Theorem parallel_dep_order fuel nprocs sched sel :
  pordered (fst (run_parallel tasks wake_rank calc_rank continue_ always proc fuel nprocs sched sel)).
Proof.
  destruct (parallel_final fuel nprocs sched sel) as (p3 & mk & HP & _ & Hm & -> & _).
  apply pordered_app_nostart; [apply (pi_ord _ HP)|apply marker_nostart; exact Hm].
Qed.

(* the actions of a task start only after every declared dependency was reported successful or up-to-date *)
Theorem parallel_contained fuel nprocs sched sel :
  pcordered (fst (run_parallel tasks wake_rank calc_rank continue_ always proc fuel nprocs sched sel)).
Proof.
  destruct (parallel_final fuel nprocs sched sel) as (p3 & mk & HP & _ & Hm & -> & _).
  apply pcordered_app_nostart; [apply (pi_cord _ HP)|apply marker_nostart; exact Hm].
Qed.

(* no task's actions are started twice, by any worker *)
Theorem parallel_exec_once fuel nprocs sched sel :
  NoDup (pstarts (fst (run_parallel tasks wake_rank calc_rank continue_ always proc fuel nprocs sched sel))).
Proof.
  destruct (parallel_final fuel nprocs sched sel) as (p3 & mk & HP & _ & Hm & -> & _).
  rewrite pstarts_app. replace (pstarts mk) with (@nil name) by (destruct Hm as [->|(e & -> & _)]; reflexivity).
  rewrite app_nil_r. apply (NoDup_count_occ' N.eq_dec). intros k Hk.
  pose proof (pi_once _ HP k) as Ho. apply (count_occ_In N.eq_dec) in Hk. unfold cnt in Ho. lia.
Qed.

(* at most one final report per task *)
Theorem parallel_one_final fuel nprocs sched sel :
  fonce (proj (fst (run_parallel tasks wake_rank calc_rank continue_ always proc fuel nprocs sched sel))).
Proof.
  destruct (parallel_final fuel nprocs sched sel) as (p3 & mk & HP & Hs & Hm & -> & _).
  rewrite proj_app, (pi_proj _ HP), Hs, firstn_all.
  apply fonce_app; [apply (ri_once _ _ _ (pi_ri _ HP))| |].
  - intros e x Hin Hf. destruct Hm as [->|(e0 & -> & Hnf & _)]; simpl in Hin; [contradiction|].
    destruct Hin as [<-|[]]. apply is_final_is_fin in Hf. congruence.
  - destruct Hm as [->|(e0 & -> & Hnf & _)]; simpl; [lia|]. rewrite Hnf. simpl. lia.
Qed.

(* ... and a task with a dependency that did not end well is never started *)
Theorem parallel_bad_dep_never_runs fuel nprocs sched sel t w x e :
  let log := fst (run_parallel tasks wake_rank calc_rank continue_ always proc fuel nprocs sched sel) in
  eff_dep tasks t x -> In (PE e) log -> is_final_ev x e = true -> is_good_ev e = false -> ~ In (PStart t w) log.
Proof.
  cbv zeta. intros Hx He Hf Hbad Hst.
  pose proof (parallel_one_final fuel nprocs sched sel) as Ho.
  pose proof (parallel_contained fuel nprocs sched sel) as Hc.
  set (log := fst (run_parallel tasks wake_rank calc_rank continue_ always proc fuel nprocs sched sel)) in *.
  apply in_split in Hst. destruct Hst as (pre & post & E).
  destruct (pcordered_split log Hc pre t w post E x Hx) as (e' & Hin' & Hf' & Hg').
  assert (Hin1 : In e (proj log)).
  { unfold proj. apply in_flat_map. exists (PE e). split; auto. left; reflexivity. }
  assert (Hin2 : In e' (proj log)).
  { rewrite E, proj_app. apply in_or_app. left. exact Hin'. }
  pose proof (fonce_two _ x e e' Ho Hin1 Hin2 Hf Hf') as ->. rewrite Hg' in Hbad. discriminate.
Qed.

(* the exit code of a parallel run is the same function of the failure reports as in the serial runner
   (or one of the exception codes 3 / 4 / 98 hang / 99 fuel) *)
Theorem parallel_exit_code fuel nprocs sched sel :
  let res := run_parallel tasks wake_rank calc_rank continue_ always proc fuel nprocs sched sel in
  snd res = code_of (proj (fst res)) \/ In (snd res) [3; 4; 98; 99].
Proof.
  cbv zeta. destruct (parallel_final fuel nprocs sched sel) as (p3 & mk & HP & Hs & Hm & E & Hc).
  cbv zeta in Hc. destruct Hc as [[Hc ->]|Hc]; [left|right; exact Hc].
  rewrite Hc, E, app_nil_r, (pi_proj _ HP), Hs, firstn_all. apply (pt_code _ (pi_pt _ HP)).
Qed.

(* every failure report of the main process is immediately preceded by remove_success of that task *)
Theorem parallel_failure_removed fuel nprocs sched sel pre k kd post :
  proj (fst (run_parallel tasks wake_rank calc_rank continue_ always proc fuel nprocs sched sel)) = pre ++ EFailure k kd :: post ->
  exists pre', pre = pre' ++ [ERemove k].
Proof.
  destruct (parallel_final fuel nprocs sched sel) as (p3 & mk & HP & Hs & Hm & -> & _).
  rewrite proj_app, (pi_proj _ HP), Hs, firstn_all. intros E.
  assert (Hp : paired (r_tr (p_r p3) ++ proj mk)).
  { apply paired_app_plain; [apply (pt_pair _ (pi_pt _ HP))|].
    destruct Hm as [->|(e & -> & _ & _ & Hnp)]; simpl; auto. rewrite Hnp. reflexivity. }
  eapply paired_failure_removed; eauto.
Qed.

End Par.
