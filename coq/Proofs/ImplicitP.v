(* ImplicitP.v -- what TaskControl.__init__ (Model/Implicit.v) guarantees about the table it hands to the
   dispatcher: every dependency that is DECLARED -- explicit task_dep, setup, calc_dep, and a file_dep whose
   key equals the key of a target of another task, however both are spelled -- is in the table
   (task_dep / setup / calc_dep of the task); likewise the producer of a file_dep returned by a calc_dep task. *)
From DoitV Require Import Base Dispatch Implicit.
Open Scope N_scope.

(* the association list the correspondence check materialises is the table itself on the listed keys *)
Lemma assoc_table_list tb keys k :
  assoc_task (table_list (inr tb) keys) k = if mem k keys then tb k else None.
Proof.
  simpl. induction keys as [|a r IH]; simpl; auto.
  destruct (tb a) as [T|] eqn:Ea; simpl.
  - destruct (N.eqb k a) eqn:E; simpl.
    + apply N.eqb_eq in E. subst. symmetry. exact Ea.
    + exact IH.
  - destruct (N.eqb k a) eqn:E; simpl.
    + apply N.eqb_eq in E. subst. rewrite IH. rewrite Ea. destruct (mem a r); reflexivity.
    + exact IH.
Qed.

Section P.
Variable path_str : name -> name.
Notation key := (key path_str).
Notation file_dep_set := (file_dep_set path_str).
Notation add_targets := (add_targets path_str).
Notation finish_task := (finish_task path_str).
Notation control_init := (control_init path_str).

(* ---- de-duplication and the iteration-order oracle never lose or invent a key ---- *)
Lemma dedup_acc_In l : forall acc x, In x (fold_left (fun acc x => addset x acc) l acc) <-> In x acc \/ In x l.
Proof.
  induction l as [|a l IH]; intros acc x; simpl.
  - tauto.
  - rewrite IH. rewrite addset_In. split; intros H; intuition auto.
Qed.

Lemma dedup_In l x : In x (dedup l) <-> In x l.
Proof. unfold dedup. rewrite dedup_acc_In. simpl. tauto. Qed.

Lemma file_dep_set_In d k : In k (file_dep_set d) <-> In k (map key (dc_file_dep d)).
Proof.
  unfold Implicit.file_dep_set. rewrite in_app_iff. rewrite !filter_In. rewrite !dedup_In.
  split.
  - intros [[_ H]|[H _]].
    + apply mem_In in H. apply (proj1 (dedup_In _ _)) in H. exact H.
    + exact H.
  - intros H. destruct (mem k (dc_fd_order d)) eqn:E.
    + left. split. * apply mem_In. exact E. * apply mem_In. apply (proj2 (dedup_In _ _)). exact H.
    + right. split; auto.
Qed.

(* ---- add_implicit_task_dep ---- *)
Lemma add_implicit_keeps tg files : forall deps x, In x deps -> In x (add_implicit tg files deps).
Proof.
  induction files as [|f r IH]; intros deps x H; simpl; auto.
  apply IH. destruct (tg f) as [p|]; auto. destruct (mem p deps); auto. apply in_or_app; auto.
Qed.

Lemma add_implicit_adds tg files : forall deps f p, In f files -> tg f = Some p -> In p (add_implicit tg files deps).
Proof.
  induction files as [|a r IH]; intros deps f p Hin Htg; simpl in *.
  - contradiction.
  - destruct Hin as [->|Hin].
    + rewrite Htg. apply add_implicit_keeps. destruct (mem p deps) eqn:E.
      * apply mem_In. exact E.
      * apply in_or_app. right. left. reflexivity.
    + eapply IH; eauto.
Qed.

(* nothing else gets in: an entry of the result was declared or is the producer of one of the files *)
Lemma add_implicit_only tg files : forall deps x, In x (add_implicit tg files deps) ->
  In x deps \/ exists f, In f files /\ tg f = Some x.
Proof.
  induction files as [|a r IH]; intros deps x H; simpl in *; auto.
  apply IH in H. destruct H as [H|(f & A & B)].
  - destruct (tg a) as [p|] eqn:E; auto. destruct (mem p deps); auto.
    apply in_app_iff in H. destruct H as [H|[<-|[]]]; auto. right. exists a. auto.
  - right. exists f. auto.
Qed.

(* ---- the targets dictionary ---- *)
Lemma add_targets_of_spec k ts : forall tg tg', add_targets_of tg k ts = Some tg' ->
  (forall f q, tg f = Some q -> tg' f = Some q) /\ (forall f, In f ts -> tg' f = Some k).
Proof.
  induction ts as [|a r IH]; intros tg tg' H; simpl in *.
  - inversion H; subst. split; auto. intros f [].
  - destruct (tg a) eqn:Ea; [discriminate|].
    destruct (IH _ _ H) as [K A]. split.
    + intros f q Hf. apply K. unfold upd. destruct (N.eqb f a) eqn:E; auto.
      apply N.eqb_eq in E. subst. congruence.
    + intros f [<-|Hf]; auto. apply K. apply upd_same.
Qed.

Lemma add_targets_spec dl : forall tg tg', add_targets tg dl = Some tg' ->
  (forall f q, tg f = Some q -> tg' f = Some q) /\
  (forall p d g, In (p, d) dl -> In g (dc_targets d) -> tg' (key g) = Some p).
Proof.
  induction dl as [|[k d] r IH]; intros tg tg' H; simpl in *.
  - inversion H; subst. split; auto. intros p d g [].
  - destruct (add_targets_of tg k (map key (dc_targets d))) as [tg1|] eqn:E1; [|discriminate].
    destruct (add_targets_of_spec _ _ _ _ E1) as [K1 A1].
    destruct (IH _ _ H) as [K A]. split.
    + intros f q Hf. apply K. apply K1. exact Hf.
    + intros p d' g [Heq|Hin] Hg.
      * inversion Heq; subst. apply K. apply A1. apply in_map. exact Hg.
      * eapply A; eauto.
Qed.

(* ---- unique names: the table entry of a declared task is the finished declaration ---- *)
Lemma names_unique_seen dl : forall seen k d, names_unique seen dl = true -> In (k, d) dl -> ~ In k seen.
Proof.
  induction dl as [|[k' d'] r IH]; intros seen k d H Hin; simpl in *.
  - contradiction.
  - apply andb_true_iff in H. destruct H as [H1 H2]. destruct Hin as [Heq|Hin].
    + inversion Heq; subst. apply negb_true_iff in H1. apply mem_false_In. exact H1.
    + intros Hs. eapply (IH (k' :: seen)); eauto. right. exact Hs.
Qed.

Lemma lookup_unique dl : forall seen k d, names_unique seen dl = true -> In (k, d) dl -> lookup dl k = Some d.
Proof.
  induction dl as [|[k' d'] r IH]; intros seen k d H Hin; simpl in *.
  - contradiction.
  - apply andb_true_iff in H. destruct H as [H1 H2]. destruct Hin as [Heq|Hin].
    + inversion Heq; subst. rewrite N.eqb_refl. reflexivity.
    + destruct (N.eqb k k') eqn:E.
      * apply N.eqb_eq in E. subst. exfalso.
        eapply (names_unique_seen r (k' :: seen)); eauto. left. reflexivity.
      * eapply IH; eauto.
Qed.

Lemma control_init_ok dl tb : control_init dl = inr tb ->
  exists tg, add_targets (fun _ => None) dl = Some tg /\
             forall k d, In (k, d) dl -> tb k = Some (finish_task tg d).
Proof.
  unfold Implicit.control_init. intros H.
  destruct (names_unique [] dl) eqn:U; simpl in H; [|discriminate].
  destruct (deps_exist dl); simpl in H; [|discriminate].
  destruct (add_targets (fun _ => None) dl) as [tg|] eqn:T; [|discriminate].
  inversion H; subst. exists tg. split; auto.
  intros k d Hin. rewrite (lookup_unique dl [] k d U Hin). reflexivity.
Qed.

(* ---- main facts ---- *)
(* "a file_dep that is another task's target", however the two are spelled as long as doit's key is the
   same: the producer is a task_dep of the consumer in the table the dispatcher gets *)
Theorem file_dep_on_target_in_table dl tb c p :
  control_init dl = inr tb -> file_dep_on_target path_str dl c p ->
  exists T, tb c = Some T /\ In p (t_task_dep T).
Proof.
  intros H (dc & dp & f & g & Hc & Hp & Hf & Hg & Hk).
  destruct (control_init_ok dl tb H) as (tg & Ht & Htb).
  exists (finish_task tg dc). split; [apply Htb; exact Hc|].
  simpl. eapply add_implicit_adds.
  - apply file_dep_set_In. apply in_map. exact Hf.
  - rewrite Hk. destruct (add_targets_spec dl _ _ Ht) as [_ A]. eapply A; eauto.
Qed.

Theorem declared_dep_in_table dl tb c x :
  control_init dl = inr tb -> declared_dep path_str dl c x ->
  exists T, tb c = Some T /\ In x (t_task_dep T ++ t_calc_dep T ++ t_setup T).
Proof.
  intros H D. destruct (control_init_ok dl tb H) as (tg & Ht & Htb).
  destruct D as [dc Hc Hx|dc Hc Hx|dc Hc Hx|F].
  - exists (finish_task tg dc). split; [apply Htb; exact Hc|]. apply in_or_app. left.
    simpl. apply add_implicit_keeps. exact Hx.
  - exists (finish_task tg dc). split; [apply Htb; exact Hc|]. apply in_or_app. right. apply in_or_app. right. exact Hx.
  - exists (finish_task tg dc). split; [apply Htb; exact Hc|]. apply in_or_app. right. apply in_or_app. left. exact Hx.
  - destruct (file_dep_on_target_in_table dl tb c x H F) as (T & A & B). exists T. split; auto. apply in_or_app. auto.
Qed.

(* the producer of a file_dep RETURNED by a calc_dep task is among the results of that calc task *)
Theorem returned_file_in_table dl tb cc p :
  control_init dl = inr tb -> returned_file_on_target path_str dl cc p ->
  exists T, tb cc = Some T /\ In p (t_calc_new_impl T).
Proof.
  intros H (dcc & dp & f & g & Hc & Hp & Hf & Hg & Hk).
  destruct (control_init_ok dl tb H) as (tg & Ht & Htb).
  exists (finish_task tg dcc). split; [apply Htb; exact Hc|].
  simpl. unfold producers. apply in_flat_map. exists (key f). split.
  - apply in_map. exact Hf.
  - rewrite Hk. destruct (add_targets_spec dl _ _ Ht) as [_ A]. rewrite (A p dp g Hp Hg). left. reflexivity.
Qed.

(* no invented edge: a task_dep of the table was declared, or is the producer of one of the task's file_dep *)
Theorem table_task_dep_only dl tb c dc x :
  control_init dl = inr tb -> In (c, dc) dl ->
  (exists T, tb c = Some T /\ In x (t_task_dep T)) ->
  In x (t_task_dep (dc_task dc)) \/
  exists tg f, add_targets (fun _ => None) dl = Some tg /\ In f (dc_file_dep dc) /\ tg (key f) = Some x.
Proof.
  intros H Hc (T & HT & Hx). destruct (control_init_ok dl tb H) as (tg & Ht & Htb).
  rewrite (Htb c dc Hc) in HT. inversion HT; subst. simpl in Hx.
  apply add_implicit_only in Hx. destruct Hx as [Hx|(k & A & B)]; auto.
  right. apply file_dep_set_In in A. apply in_map_iff in A. destruct A as (f & <- & Hf).
  exists tg, f. auto.
Qed.

End P.
